#!/bin/bash
# usage: selftest/try.sh <absolute patch.diff> <PROP> [tier]  -- apply a change to /repo, run the check, undo the change.
# The check runs against a scratch copy of the lock/findings, so the committed evidence and replays are not overwritten.
set -u
patch="$1"; prop="$2"; tier="${3:-quick}"
cd /repo || exit 2
if ! git apply --check "$patch" 2>/dev/null; then echo "PATCH-DOES-NOT-APPLY $patch"; exit 3; fi
git apply "$patch"
sv=$(mktemp -d "${TMPDIR:-/tmp}/govc-try.XXXXXX"); cp /verif/obligations.lock /verif/known-findings.txt "$sv/"; cp -r /verif/replay "$sv/" 2>/dev/null
level=proof; case "$prop" in C05|C06|C07|C12|C14) level=other ;; esac
( cd /verif && GOFLAGS=-mod=mod GOPROXY=off GOSUMDB=off GOTOOLCHAIN=local ./bin/govc check -verif "$sv" -level "$level" "$prop" "$tier" ); rc=$?
[ -n "${KEEP_SV:-}" ] && echo "kept $sv" || rm -rf "$sv"
git apply -R "$patch" || { echo "REVERT FAILED"; git checkout -- $(git diff --name-only); }
echo "RESULT patch=$patch prop=$prop exit=$rc"
exit $rc
