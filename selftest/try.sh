#!/bin/bash
# usage: selftest/try.sh <patch.diff> <PROP> [tier]  -- apply a seeded change to /repo, run the check, undo the change.
set -u
patch="$1"; prop="$2"; tier="${3:-quick}"
cd /repo || exit 2
if ! git apply --check "$patch" 2>/dev/null; then echo "PATCH-DOES-NOT-APPLY $patch"; exit 3; fi
git apply "$patch"
files=$(git apply --numstat "$patch" -R 2>/dev/null | awk '{print $3}')
( cd /verif && ./check "$prop" "$tier" ); rc=$?
git apply -R "$patch" || { echo "REVERT FAILED"; git checkout -- $(git diff --name-only); }
echo "RESULT patch=$patch prop=$prop exit=$rc"
exit $rc
