#!/usr/bin/env python3
# Regenerates /verif/MANIFEST.json from the table below (kept in sync with DESIGN.md section 8/12).
import json, subprocess
NOTE = ("trusted: go/types+go/ssa front end (x/tools v0.29.0), the govc VC generator, SMT solvers (z3 4.8.12, z3 5.1.0, cvc5 1.0); "
        "assumed contracts on k8s helper libraries (intstr, pointer, fmt, strconv, sort.Sort as permutation, generated DeepCopy, controller-runtime client calls as type-bounded havoc) listed in each evidence file; "
        "integers mathematical; frames of callees inferred from SSA (closed world over the module, type-reachability for library calls); "
        "obligations that are not in obligations.lock are reported in the evidence as not claimed")
TECH = ("contract-based deductive verification: weakest-precondition VCs generated from go/ssa of the real functions, "
        "contracts kept in guarded zz_verif_contracts.go files in /repo, one SMT query per obligation discharged by z3/cvc5")
CLAIMED = {
 "C01": ("proof", "exact spec-function contracts on the planned-count / percent-partition arithmetic (1% slack proved for all int32 replicas and plans), every CalculateBatchContext (exposure of the written knob vs. planned count), every UpgradeBatch (at most one write, only toward more updated pods, body encodes the desired value), currentBatch moves only below batchPartition (moveToNextBatch, progressBatches, signalRecalculate)"),
 "C02": ("proof", "the per-step sub-state machine of both release managers: runCanary's postcondition IS its transition relation (index moves only by an explicit jump or from Ready to the next step's Init; Ready only from Paused with the pause gate satisfied; MetricsAnalysis/TrafficRouting only after doCanaryUpgrade resp. DoTrafficRouting reported done); doCanaryUpgrade done => BatchRelease Ready for this step and generation observed; doCanaryPaused true => last 100% step or a duration; doCanaryJump only on a user-set next index; doProgressingInRolling dispatch order incl. spec.strategy.paused short-circuit"),
 "C03": ("proof", "runCanary's transition relation (traffic is written only in state TrafficRouting, which is entered only after doCanaryUpgrade reported done; done => the BatchRelease is Ready for this very step with the plan and generation observed), StepInit of a first step that configures traffic or matches is left only after PatchStableService reported completion, DoTrafficRouting reports routed only when the provider's EnsureRoutes returned (true,nil) for the step's own strategy in that same call and no Service was written in that call. Not covered here: that the provider's verified state equals the step's value exactly (gateway/ingress providers: C13, C14)"),
 "C04": ("proof", "typestate ordering of API effects, decided function by function and therefore at every call prefix (= crash point): RemoveCanaryService requires routes withdrawn (RestoreGateway completed), removing the BatchRelease requires routes withdrawn (when traffic routing is configured), resuming the workload requires the stable Service un-pinned (non-rollback) resp. routes withdrawn (rollback); finalising cursor invariant proved step-inductively for both managers and the continuous-release reset; task successor functions equal their specification tables; un-pin before a partition step that replaces all stable pods"),
 "C09": ("proof", "partial (the structural-promise half is proved, the whole-controller no-panic half only at the call sites listed): every validate* function of the v1beta1 and v1alpha1 webhook has the postcondition 'empty error list => well-formed' (exactly one strategy, >= 1 step, every step's replicas parse and are positive, comparable neighbours non-decreasing, <= 1 traffic routing and each well-formed), validateRolloutConflict 'empty => no other Rollout in the listed namespace references the same workload', validateRolloutUpdate 'empty and stored phase Progressing/Terminating => workload ref, style and step count unchanged'; NextBatchIndex / handleNormalRolling correct an out-of-range nextStepIndex before any step slice is indexed (index-safety obligations of runCanary, doCanaryJump, newTrafficRoutingContext hold under the cursor invariant). Not covered: panics in functions without contracts (see evidence: not claimed), the v1alpha1 context builder dereferences workloadRef before validation (recovered by net/http, recorded as an unclaimed refuted obligation)"),
 "C10": ("proof", "dispatch order of the special cases (rollback before paused before batches before continuous before plan change), rollback task chains start with RouteTrafficToStable (task successor = spec + chain lemmas), reset order gateway -> BatchRelease -> canary Service by typestate, blue-green refuses supersession with a BadRequest error and no effect, canary supersession clears the status and restarts from Initializing only when the reset completed"),
 "C07": ("other", "partial: the per-call clauses only (the update target written by CalculateBatchContext suffices for IsBatchReady's own criterion - refuted for CloneSet in a recorded region, proved outside it); liveness under fair scheduling and provider fixed points are not decided"),
 "C11": ("proof", "IsBatchReady postcondition taken verbatim from the statement; progressBatches / executeBatchReleasePlan transition postconditions over the ghost call log (Ready only after EnsureBatchPodsReadyAndLabeled returned nil in the same call, fall-back otherwise, Completed only after Finalize returned nil); control planes' Ensure/Finalize/UpgradeBatch; canary-style stable Finalize waits when the policy says so"),
 "C18": ("proof", "every finalizer removal is guarded: Rollout (Terminating condition reason Completed, which reconcileRolloutTerminating sets only after doFinalising returned (true,nil)), BatchRelease (phase Completed), TrafficRouting (typestate fact established only by FinalisingTrafficRouting returning (true,nil)); all paths including error returns; at most one finalizer write per call, own finalizer only"),
 "C17": ("proof", "NewRSReplicasLimit / NewRSNewReplicas / ResolveFenceposts / MaxSurge / MaxUnavailable against spec functions (never beyond the partition, never beyond replicas+maxSurge), replica sums by loop invariants, cleanupUnhealthyReplicas and scaleDownOldReplicaSetsForRollingUpdate with ghost accumulators over every scale call (budget, only unavailable pods, min-available), reconcileNewReplicaSet / reconcileOldReplicaSets / scaleUpOldReplicaSets"),
 "C20": ("proof", "each conversion function against a field-by-field specification (steps, replicas, weight <-> \"w%\" traffic, header matches element-wise, pauses, traffic routing refs incl. custom network refs, style annotation <-> enableExtraWorkloadForCanary, status cursor and conditions, BatchRelease plan/batches/status), proved for slices of every length by loop invariants; frame of each conversion (nothing outside the destination object and its annotation map changes); the round trip v1alpha1 -> v1beta1 -> v1alpha1 as a harness function (tag verif) checked modularly against the two conversion contracts: same workload ref, steps (weight, replicas or the documented weight-as-percent default), matches, routings, status cursor, style read back as \"partition\" iff it was (case-insensitively) \"partition\". never-fails is proved except in four recorded regions (F7: schema-admitted objects without workloadRef / canary / any strategy make the conversion panic). Not covered: the v1beta1 -> v1alpha1 -> v1beta1 direction as a harness, PatchPodTemplateMetadata maps, the conversion of DeepCopy-generated code"),
}
NA_FIXED = {
 "C15": "substance lives in Lua scripts and untyped JSON trees (map[string]interface{} / unstructured round trips) outside the verifier's subset; abstracting them leaves nothing to prove",
 "C16": "a property of the embedded gopher-lua VM for all programs; a call-protocol contract on RunLuaScript would verify the configuration, not the property",
 "C19": "concurrency / data-race freedom: the verifier gives single-threaded semantics and has no model of goroutines",
}
props = [json.loads(l)["id"] for l in open("/verif/properties.jsonl")]
checks = []
for p in props:
    if p not in CLAIMED: continue
    lvl, txt = CLAIMED[p]
    checks.append({"property_id": p, "quick_cmd": f"./check {p} quick", "thorough_cmd": f"./check {p} thorough",
      "evidence_file": f"/verif/evidence/{p}.json", "replay_cmd_template": "./check --replay {path}", "engine": "govc",
      "level_claimed": {"category": lvl, "text": txt, "design_ref": "DESIGN.md section 8 (" + p + ")"},
      "level_note": NOTE, "technique": TECH})
na = []
for p in props:
    if p in CLAIMED: continue
    na.append({"property_id": p, "reason": NA_FIXED.get(p, "contracts not completed yet (build in progress); see DESIGN.md section 9")})
commits = subprocess.run(["git","-C","/repo","log","--format=%H","--grep=^verif hook"],capture_output=True,text=True).stdout.split()
m = {"version": 1,
 "setup_cmd": "cd /verif/govc && GOFLAGS=-mod=mod GOPROXY=off GOSUMDB=off GOTOOLCHAIN=local go build -o /verif/bin/govc ./cmd/govc",
 "hooks": {"guard": "verif", "enable": "contracts are comment-only files zz_verif_contracts.go with //go:build verif; govc loads /repo with -tags=verif",
           "baseline_off_cmd": "cd /repo && go test -mod=mod -vet=off -count=1 -timeout 25m ./...", "source_commits": commits, "add_only": True},
 "engines": [{"name": "govc", "path": "/verif/govc", "serves_properties": sorted(CLAIMED), "kind_free_text": "VC generator over go/ssa (naive form) + SMT portfolio (z3 4.8.12, z3 5.1.0, cvc5 1.0)"}],
 "checks": checks, "not_applicable": na,
 "notes": "see DESIGN.md; known findings in known-findings.txt; obligations.lock guards against vacuity; seeded changes in seeded/"}
json.dump(m, open("/verif/MANIFEST.json", "w"), indent=1)
print("claimed:", sorted(CLAIMED))
