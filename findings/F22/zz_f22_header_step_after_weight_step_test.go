package gateway

// Reproduction of finding F22 (property C13): a match (header) step entered after a weight step. The HTTPRoute still holds
// the canary backend the weight step added; buildCanaryHeaderHttpRoutes skips every rule that has a canary backendRef
// before it is copied to the result, so the user's own rule is dropped and the route is left without any rule.
import (
	"fmt"
	"testing"

	"github.com/openkruise/rollouts/api/v1beta1"
	utilpointer "k8s.io/utils/pointer"
	gatewayv1beta1 "sigs.k8s.io/gateway-api/apis/v1beta1"
)

func TestF22HeaderStepAfterWeightStepDropsTheUsersRule(t *testing.T) {
	kind := gatewayv1beta1.Kind("Service")
	port := gatewayv1beta1.PortNumber(80)
	ref := func(name string, w int32) gatewayv1beta1.HTTPBackendRef {
		return gatewayv1beta1.HTTPBackendRef{BackendRef: gatewayv1beta1.BackendRef{
			BackendObjectReference: gatewayv1beta1.BackendObjectReference{Kind: &kind, Name: gatewayv1beta1.ObjectName(name), Port: &port},
			Weight:                 utilpointer.Int32(w)}}
	}
	r := &gatewayController{conf: Config{StableService: "web", CanaryService: "web-canary"}}
	userRules := []gatewayv1beta1.HTTPRouteRule{{BackendRefs: []gatewayv1beta1.HTTPBackendRef{ref("web", 100)}}}
	// step 1: 20% weight
	afterWeight := r.buildDesiredHTTPRoute(userRules, utilpointer.Int32(20), nil)
	// step 2: header match, computed from the route as step 1 left it
	exact := gatewayv1beta1.HeaderMatchExact
	matches := []v1beta1.HttpRouteMatch{{Headers: []gatewayv1beta1.HTTPHeaderMatch{{Type: &exact, Name: "user", Value: "tester"}}}}
	afterHeader := r.buildDesiredHTTPRoute(afterWeight, nil, matches)
	kept := 0
	for _, rule := range afterHeader {
		for _, b := range rule.BackendRefs {
			if string(b.Name) == "web" {
				kept++
			}
		}
	}
	if kept > 0 {
		t.Fatalf("the user's rule survives: %d rules", len(afterHeader))
	}
	fmt.Printf("REPRODUCED header step after a 20%% weight step: %d rule(s) in, %d rule(s) out, none of them routes to the stable Service any more\n", len(afterWeight), len(afterHeader))
}
