// dest: pkg/trafficrouting/network/ingress/zz_audit_C14_1_test.go
package ingress

import (
	"context"
	"fmt"
	"os"
	"testing"

	"github.com/openkruise/rollouts/api/v1beta1"
	"github.com/openkruise/rollouts/pkg/util"
	"github.com/openkruise/rollouts/pkg/util/configuration"
	corev1 "k8s.io/api/core/v1"
	netv1 "k8s.io/api/networking/v1"
	"k8s.io/apimachinery/pkg/api/errors"
	metav1 "k8s.io/apimachinery/pkg/apis/meta/v1"
	"k8s.io/apimachinery/pkg/types"
	utilpointer "k8s.io/utils/pointer"
	"sigs.k8s.io/controller-runtime/pkg/client"
	"sigs.k8s.io/controller-runtime/pkg/client/fake"
	gatewayv1beta1 "sigs.k8s.io/gateway-api/apis/v1beta1"
)

var (
	_ = utilpointer.String
	_ = gatewayv1beta1.HeaderMatchExact
	_ = errors.IsNotFound
)

// auditC14Run1 stores the UNMODIFIED built-in class scripts (read from lua_configuration/) in the
// rollout ConfigMap, creates the stable Ingress, and drives the real EnsureRoutes through the given
// steps (each step is retried until EnsureRoutes reports done, like the reconciler does).
// It returns the fake client, the canary Ingress (nil if absent) and the first error of EnsureRoutes.
func auditC14Run1(t *testing.T, class string, stable *netv1.Ingress, steps []*v1beta1.TrafficRoutingStrategy) (client.Client, *netv1.Ingress, error) {
	cm := &corev1.ConfigMap{ObjectMeta: metav1.ObjectMeta{Name: configuration.RolloutConfigurationName, Namespace: util.GetRolloutNamespace()}, Data: map[string]string{}}
	for _, c := range []string{"nginx", "aliyun-alb", "higress", "mse"} {
		b, err := os.ReadFile("../../../../lua_configuration/trafficrouting_ingress/" + c + ".lua")
		if err != nil {
			t.Fatal(err)
		}
		cm.Data[fmt.Sprintf("%s.%s", configuration.LuaTrafficRoutingIngressTypePrefix, c)] = string(b)
	}
	cli := fake.NewClientBuilder().WithScheme(scheme).Build()
	if err := cli.Create(context.TODO(), cm); err != nil {
		t.Fatal(err)
	}
	if err := cli.Create(context.TODO(), stable.DeepCopy()); err != nil {
		t.Fatal(err)
	}
	c, err := NewIngressTrafficRouting(cli, Config{Key: "audit", StableService: "echoserver", CanaryService: "echoserver-canary",
		TrafficConf: &v1beta1.IngressTrafficRouting{Name: stable.Name, ClassType: class}})
	if err != nil {
		t.Fatal(err)
	}
	for _, s := range steps {
		done := false
		for i := 0; i < 5 && !done; i++ {
			done, err = c.EnsureRoutes(context.TODO(), s)
			if err != nil {
				return cli, nil, err
			}
		}
		if !done {
			t.Fatalf("EnsureRoutes did not converge")
		}
	}
	can := &netv1.Ingress{}
	if err := cli.Get(context.TODO(), types.NamespacedName{Name: stable.Name + "-canary"}, can); err != nil {
		if errors.IsNotFound(err) {
			return cli, nil, nil
		}
		t.Fatal(err)
	}
	return cli, can, nil
}

// mse.lua clears "mse.ingress.kubernetes.io/canary-by-query*" but SETS "nginx.ingress.kubernetes.io/canary-by-query*",
// so a query-param match of an earlier step is never removed from the canary Ingress.
func TestAuditC14_1_MseQueryMatchStaleAfterLaterStep(t *testing.T) {
	qexact := gatewayv1beta1.QueryParamMatchExact
	queryStep := &v1beta1.TrafficRoutingStrategy{Matches: []v1beta1.HttpRouteMatch{{
		QueryParams: []gatewayv1beta1.HTTPQueryParamMatch{{Type: &qexact, Name: "user", Value: "tester"}}}}}
	weightStep := &v1beta1.TrafficRoutingStrategy{Traffic: utilpointer.String("20%")}

	_, fresh, err := auditC14Run1(t, "mse", demoIngress.DeepCopy(), []*v1beta1.TrafficRoutingStrategy{weightStep})
	if err != nil {
		t.Fatal(err)
	}
	_, after, err := auditC14Run1(t, "mse", demoIngress.DeepCopy(), []*v1beta1.TrafficRoutingStrategy{queryStep, weightStep})
	if err != nil {
		t.Fatal(err)
	}
	const k1, k2 = "nginx.ingress.kubernetes.io/canary-by-query", "nginx.ingress.kubernetes.io/canary-by-query-value"
	if _, ok := fresh.Annotations[k1]; ok {
		t.Fatalf("unexpected: fresh entry has %s", k1)
	}
	if after.Annotations[k1] != "user" || after.Annotations[k2] != "tester" {
		t.Fatalf("not reproduced: after=%v fresh=%v", after.Annotations, fresh.Annotations)
	}
	t.Logf("REPRODUCED: class mse, step {traffic:20%%} entered after step {matches:[queryParams user=tester]} leaves stale %s=%q and %s=%q on the canary Ingress; "+
		"entering the same step first gives %v - canary annotations depend on step history, not on the current step alone",
		k1, after.Annotations[k1], k2, after.Annotations[k2], fresh.Annotations)
}
