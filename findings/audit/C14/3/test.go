// dest: pkg/trafficrouting/network/ingress/zz_audit_C14_3_test.go
package ingress

import (
	"context"
	"fmt"
	"os"
	"testing"

	"github.com/openkruise/rollouts/api/v1beta1"
	"github.com/openkruise/rollouts/pkg/util"
	"github.com/openkruise/rollouts/pkg/util/configuration"
	corev1 "k8s.io/api/core/v1"
	netv1 "k8s.io/api/networking/v1"
	"k8s.io/apimachinery/pkg/api/errors"
	metav1 "k8s.io/apimachinery/pkg/apis/meta/v1"
	"k8s.io/apimachinery/pkg/types"
	utilpointer "k8s.io/utils/pointer"
	"sigs.k8s.io/controller-runtime/pkg/client"
	"sigs.k8s.io/controller-runtime/pkg/client/fake"
	gatewayv1beta1 "sigs.k8s.io/gateway-api/apis/v1beta1"
)

var (
	_ = utilpointer.String
	_ = gatewayv1beta1.HeaderMatchExact
	_ = errors.IsNotFound
)

// auditC14Run3 stores the UNMODIFIED built-in class scripts (read from lua_configuration/) in the
// rollout ConfigMap, creates the stable Ingress, and drives the real EnsureRoutes through the given
// steps (each step is retried until EnsureRoutes reports done, like the reconciler does).
// It returns the fake client, the canary Ingress (nil if absent) and the first error of EnsureRoutes.
func auditC14Run3(t *testing.T, class string, stable *netv1.Ingress, steps []*v1beta1.TrafficRoutingStrategy) (client.Client, *netv1.Ingress, error) {
	cm := &corev1.ConfigMap{ObjectMeta: metav1.ObjectMeta{Name: configuration.RolloutConfigurationName, Namespace: util.GetRolloutNamespace()}, Data: map[string]string{}}
	for _, c := range []string{"nginx", "aliyun-alb", "higress", "mse"} {
		b, err := os.ReadFile("../../../../lua_configuration/trafficrouting_ingress/" + c + ".lua")
		if err != nil {
			t.Fatal(err)
		}
		cm.Data[fmt.Sprintf("%s.%s", configuration.LuaTrafficRoutingIngressTypePrefix, c)] = string(b)
	}
	cli := fake.NewClientBuilder().WithScheme(scheme).Build()
	if err := cli.Create(context.TODO(), cm); err != nil {
		t.Fatal(err)
	}
	if err := cli.Create(context.TODO(), stable.DeepCopy()); err != nil {
		t.Fatal(err)
	}
	c, err := NewIngressTrafficRouting(cli, Config{Key: "audit", StableService: "echoserver", CanaryService: "echoserver-canary",
		TrafficConf: &v1beta1.IngressTrafficRouting{Name: stable.Name, ClassType: class}})
	if err != nil {
		t.Fatal(err)
	}
	for _, s := range steps {
		done := false
		for i := 0; i < 5 && !done; i++ {
			done, err = c.EnsureRoutes(context.TODO(), s)
			if err != nil {
				return cli, nil, err
			}
		}
		if !done {
			t.Fatalf("EnsureRoutes did not converge")
		}
	}
	can := &netv1.Ingress{}
	if err := cli.Get(context.TODO(), types.NamespacedName{Name: stable.Name + "-canary"}, can); err != nil {
		if errors.IsNotFound(err) {
			return cli, nil, nil
		}
		t.Fatal(err)
	}
	return cli, can, nil
}

// mse.lua does `annotations = obj.annotations` with no nil guard (nginx/higress/aliyun-alb all guard it).
// A stable Ingress without any annotation (selected via spec.ingressClassName) makes every EnsureRoutes
// fail with a Lua error, so the canary Ingress is never created.
func TestAuditC14_3_MseStableIngressWithoutAnnotations(t *testing.T) {
	stable := demoIngress.DeepCopy()
	stable.Annotations = nil
	stable.Spec.IngressClassName = utilpointer.String("mse")
	step := &v1beta1.TrafficRoutingStrategy{Traffic: utilpointer.String("20%")}

	// sibling classes handle the same Ingress
	for _, class := range []string{"nginx", "higress", "aliyun-alb"} {
		_, can, err := auditC14Run3(t, class, stable, []*v1beta1.TrafficRoutingStrategy{step})
		if err != nil || can == nil {
			t.Fatalf("unexpected: class %s failed on annotation-less Ingress: %v", class, err)
		}
	}
	cli, can, err := auditC14Run3(t, "mse", stable, []*v1beta1.TrafficRoutingStrategy{step})
	if err == nil {
		t.Fatalf("not reproduced: mse produced %v", can)
	}
	got := &netv1.Ingress{}
	gerr := cli.Get(context.TODO(), types.NamespacedName{Name: stable.Name + "-canary"}, got)
	if !errors.IsNotFound(gerr) {
		t.Fatalf("not reproduced: canary exists / err=%v", gerr)
	}
	t.Logf("REPRODUCED: class mse, stable Ingress with no annotations: EnsureRoutes(traffic 20%%) fails with %q and no canary Ingress exists in the store, "+
		"while nginx/higress/aliyun-alb build it - the canary Ingress does not contain the stable-service paths for this generated Ingress", firstLine3(err.Error()))
}

func firstLine3(s string) string {
	for i := range s {
		if s[i] == '\n' {
			return s[:i]
		}
	}
	return s
}
