// dest: pkg/controller/batchrelease/zz_audit_C11_2_test.go
package batchrelease

import (
	"context"
	"encoding/json"
	"fmt"
	"testing"

	kruiseappsv1alpha1 "github.com/openkruise/kruise-api/apps/v1alpha1"
	"github.com/openkruise/rollouts/api/v1beta1"
	"github.com/openkruise/rollouts/pkg/util"
	corev1 "k8s.io/api/core/v1"
	metav1 "k8s.io/apimachinery/pkg/apis/meta/v1"
	"k8s.io/apimachinery/pkg/types"
	"k8s.io/apimachinery/pkg/util/intstr"
	"k8s.io/client-go/tools/record"
	"k8s.io/utils/pointer"
	"sigs.k8s.io/controller-runtime/pkg/client"
	"sigs.k8s.io/controller-runtime/pkg/client/fake"
	"sigs.k8s.io/controller-runtime/pkg/reconcile"
)

// C11: "reports Completed only after ... every pod is updated and ready".
//
// The blue-green CloneSet Finalize "waits all pods updated and ready" with the single test
//     status.readyReplicas != status.updatedReadyReplicas  -> retry
// which is satisfied as soon as no OLD pod is ready. It neither requires updatedReplicas == replicas
// nor that the updated pods are ready (the blue-green Deployment sibling requires readyReplicas == updatedReplicas
// and availableReplicas+maxUnavailable >= replicas).
func TestAuditC11_2_BlueGreenCloneSetFinalizeCompletesWithUnreadyOrOldPods(t *testing.T) {
	cases := []struct {
		name   string
		status kruiseappsv1alpha1.CloneSetStatus
	}{
		{
			name: "all pods updated but only 2 of 10 ready",
			status: kruiseappsv1alpha1.CloneSetStatus{ObservedGeneration: 3, Replicas: 10, UpdatedReplicas: 10,
				ReadyReplicas: 2, UpdatedReadyReplicas: 2, AvailableReplicas: 0},
		},
		{
			name: "only 4 of 10 pods updated, the 6 old pods are not ready",
			status: kruiseappsv1alpha1.CloneSetStatus{ObservedGeneration: 3, Replicas: 10, UpdatedReplicas: 4,
				ReadyReplicas: 4, UpdatedReadyReplicas: 4, AvailableReplicas: 0},
		},
		{
			name: "no pod ready at all",
			status: kruiseappsv1alpha1.CloneSetStatus{ObservedGeneration: 3, Replicas: 10, UpdatedReplicas: 5,
				ReadyReplicas: 0, UpdatedReadyReplicas: 0, AvailableReplicas: 0},
		},
	}

	reproduced := 0
	for _, cs := range cases {
		release := &v1beta1.BatchRelease{
			TypeMeta: metav1.TypeMeta{APIVersion: v1beta1.GroupVersion.String(), Kind: "BatchRelease"},
			ObjectMeta: metav1.ObjectMeta{
				Name: "release", Namespace: "application", UID: types.UID("audit-c11-2"),
				Finalizers: []string{ReleaseFinalizer},
			},
			Spec: v1beta1.BatchReleaseSpec{
				WorkloadRef: v1beta1.ObjectRef{APIVersion: "apps.kruise.io/v1alpha1", Kind: "CloneSet", Name: "sample"},
				ReleasePlan: v1beta1.ReleasePlan{
					RollingStyle:   v1beta1.BlueGreenRollingStyle,
					BatchPartition: nil,
					Batches: []v1beta1.ReleaseBatch{
						{CanaryReplicas: intstr.FromString("50%")},
						{CanaryReplicas: intstr.FromString("100%")},
					},
				},
			},
		}
		release.Status.Phase = v1beta1.RolloutPhaseFinalizing
		release.Status.ObservedReleasePlanHash = util.HashReleasePlanBatches(&release.Spec.ReleasePlan)
		release.Status.ObservedWorkloadReplicas = 10
		release.Status.CanaryStatus.CurrentBatch = 1
		release.Status.CanaryStatus.CurrentBatchState = v1beta1.ReadyBatchState

		controlInfo, _ := json.Marshal(metav1.NewControllerRef(release, release.GroupVersionKind()))
		clone := &kruiseappsv1alpha1.CloneSet{
			TypeMeta: metav1.TypeMeta{APIVersion: kruiseappsv1alpha1.SchemeGroupVersion.String(), Kind: "CloneSet"},
			ObjectMeta: metav1.ObjectMeta{
				Name: "sample", Namespace: "application", UID: types.UID("audit-c11-2-c"), Generation: 3,
				Labels: map[string]string{"app": "busybox"},
				Annotations: map[string]string{
					util.BatchReleaseControlAnnotation:           string(controlInfo),
					v1beta1.OriginalDeploymentStrategyAnnotation: `{"maxUnavailable":"20%","maxSurge":"0%","minReadySeconds":0}`,
				},
			},
			Spec: kruiseappsv1alpha1.CloneSetSpec{
				Replicas:        pointer.Int32(10),
				MinReadySeconds: v1beta1.MaxReadySeconds,
				UpdateStrategy: kruiseappsv1alpha1.CloneSetUpdateStrategy{
					Type:           kruiseappsv1alpha1.RecreateCloneSetUpdateStrategyType,
					MaxSurge:       &intstr.IntOrString{Type: intstr.String, StrVal: "100%"},
					MaxUnavailable: &intstr.IntOrString{Type: intstr.Int, IntVal: 0},
				},
				Selector: &metav1.LabelSelector{MatchLabels: map[string]string{"app": "busybox"}},
				Template: corev1.PodTemplateSpec{
					ObjectMeta: metav1.ObjectMeta{Labels: map[string]string{"app": "busybox"}},
					Spec:       corev1.PodSpec{Containers: containers("v2")},
				},
			},
			Status: cs.status,
		}
		clone.Status.UpdateRevision = "rev-v2"
		clone.Status.CurrentRevision = "rev-v1"

		rec := record.NewFakeRecorder(100)
		cli := fake.NewClientBuilder().WithScheme(scheme).WithObjects(release, clone).Build()
		reconciler := &BatchReleaseReconciler{Client: cli, recorder: rec, Scheme: scheme, executor: NewReleasePlanExecutor(cli, rec)}
		key := client.ObjectKeyFromObject(release)

		var br v1beta1.BatchRelease
		for i := 0; i < 3; i++ {
			_, _ = reconciler.Reconcile(context.TODO(), reconcile.Request{NamespacedName: key})
			if err := cli.Get(context.TODO(), key, &br); err != nil {
				t.Fatalf("get release: %v", err)
			}
			if br.Status.Phase == v1beta1.RolloutPhaseCompleted {
				break
			}
		}
		got := &kruiseappsv1alpha1.CloneSet{}
		if err := cli.Get(context.TODO(), client.ObjectKeyFromObject(clone), got); err != nil {
			t.Fatalf("get cloneset: %v", err)
		}
		s := got.Status
		allUpdatedAndReady := s.UpdatedReplicas == s.Replicas && s.ReadyReplicas == s.Replicas && s.UpdatedReadyReplicas == s.Replicas
		if br.Status.Phase == v1beta1.RolloutPhaseCompleted && !allUpdatedAndReady {
			reproduced++
			fmt.Printf("REPRODUCED C11 (Completed although not every pod is updated and ready) [%s]: blue-green CloneSet BatchRelease phase=Completed "+
				"while workload status is replicas=%d updatedReplicas=%d readyReplicas=%d updatedReadyReplicas=%d\n",
				cs.name, s.Replicas, s.UpdatedReplicas, s.ReadyReplicas, s.UpdatedReadyReplicas)
		} else {
			t.Errorf("[%s] not reproduced: phase=%s status=%+v", cs.name, br.Status.Phase, s)
		}
	}
	if reproduced == 0 {
		t.Fatalf("not reproduced")
	}
}
