// dest: pkg/controller/batchrelease/zz_audit_C11_4_test.go
package batchrelease

import (
	"context"
	"encoding/json"
	"fmt"
	"testing"

	kruiseappsv1alpha1 "github.com/openkruise/kruise-api/apps/v1alpha1"
	"github.com/openkruise/rollouts/api/v1beta1"
	"github.com/openkruise/rollouts/pkg/util"
	corev1 "k8s.io/api/core/v1"
	metav1 "k8s.io/apimachinery/pkg/apis/meta/v1"
	"k8s.io/apimachinery/pkg/types"
	"k8s.io/apimachinery/pkg/util/intstr"
	"k8s.io/client-go/tools/record"
	"k8s.io/utils/pointer"
	"sigs.k8s.io/controller-runtime/pkg/client"
	"sigs.k8s.io/controller-runtime/pkg/client/fake"
	"sigs.k8s.io/controller-runtime/pkg/reconcile"
)

// C11: "reports a batch as Ready only while the workload really has at least the number of updated pods that
// batch calls for ... If the workload degrades, scales or the plan changes, the state falls back rather than staying Ready."
//
// syncStatusBeforeExecuting has three sibling "the ground moved" cases. Scaling -> signalRestartBatch (state=Upgrading),
// plan change -> signalRecalculate (state=Upgrading), but "workload revision changed" only overwrites
// status.updateRevision with the NEW revision and stops the round. The status that gets persisted therefore says
// {updateRevision: <new>, currentBatch: 1, currentBatchState: Ready, updatedReplicas: 0}: batch 1 (50 pods) "Ready"
// for a revision of which the workload has zero pods.
func TestAuditC11_4_RevisionChangeKeepsReadyForRevisionWithZeroUpdatedPods(t *testing.T) {
	build := func() (*v1beta1.BatchRelease, *kruiseappsv1alpha1.CloneSet) {
		release := &v1beta1.BatchRelease{
			TypeMeta: metav1.TypeMeta{APIVersion: v1beta1.GroupVersion.String(), Kind: "BatchRelease"},
			ObjectMeta: metav1.ObjectMeta{
				Name: "release", Namespace: "application", UID: types.UID("audit-c11-4"),
				Finalizers: []string{ReleaseFinalizer},
			},
			Spec: v1beta1.BatchReleaseSpec{
				WorkloadRef: v1beta1.ObjectRef{APIVersion: "apps.kruise.io/v1alpha1", Kind: "CloneSet", Name: "sample"},
				ReleasePlan: v1beta1.ReleasePlan{
					RollingStyle:   v1beta1.PartitionRollingStyle,
					BatchPartition: pointer.Int32(1),
					Batches: []v1beta1.ReleaseBatch{
						{CanaryReplicas: intstr.FromString("10%")},
						{CanaryReplicas: intstr.FromString("50%")},
						{CanaryReplicas: intstr.FromString("100%")},
					},
				},
			},
		}
		now := metav1.Now()
		release.Status.Phase = v1beta1.RolloutPhaseProgressing
		release.Status.ObservedReleasePlanHash = util.HashReleasePlanBatches(&release.Spec.ReleasePlan)
		release.Status.ObservedWorkloadReplicas = 100
		release.Status.StableRevision = "rev-v1"
		release.Status.UpdateRevision = "rev-v2"
		release.Status.CanaryStatus.CurrentBatch = 1
		release.Status.CanaryStatus.CurrentBatchState = v1beta1.ReadyBatchState
		release.Status.CanaryStatus.BatchReadyTime = &now
		release.Status.CanaryStatus.UpdatedReplicas = 50
		release.Status.CanaryStatus.UpdatedReadyReplicas = 50

		controlInfo, _ := json.Marshal(metav1.NewControllerRef(release, release.GroupVersionKind()))
		clone := &kruiseappsv1alpha1.CloneSet{
			TypeMeta: metav1.TypeMeta{APIVersion: kruiseappsv1alpha1.SchemeGroupVersion.String(), Kind: "CloneSet"},
			ObjectMeta: metav1.ObjectMeta{
				Name: "sample", Namespace: "application", UID: types.UID("audit-c11-4-c"), Generation: 3,
				Labels:      map[string]string{"app": "busybox"},
				Annotations: map[string]string{util.BatchReleaseControlAnnotation: string(controlInfo)},
			},
			Spec: kruiseappsv1alpha1.CloneSetSpec{
				Replicas: pointer.Int32(100),
				UpdateStrategy: kruiseappsv1alpha1.CloneSetUpdateStrategy{
					Partition: &intstr.IntOrString{Type: intstr.String, StrVal: "50%"},
				},
				Selector: &metav1.LabelSelector{MatchLabels: map[string]string{"app": "busybox"}},
				Template: corev1.PodTemplateSpec{
					ObjectMeta: metav1.ObjectMeta{Labels: map[string]string{"app": "busybox"}},
					Spec:       corev1.PodSpec{Containers: containers("v2")},
				},
			},
			Status: kruiseappsv1alpha1.CloneSetStatus{
				ObservedGeneration: 3, Replicas: 100, ReadyReplicas: 100, UpdatedReplicas: 50, UpdatedReadyReplicas: 50,
				CurrentRevision: "rev-v1", UpdateRevision: "rev-v2",
			},
		}
		return release, clone
	}

	run := func(mutate func(c *kruiseappsv1alpha1.CloneSet)) *v1beta1.BatchRelease {
		release, clone := build()
		mutate(clone)
		rec := record.NewFakeRecorder(100)
		cli := fake.NewClientBuilder().WithScheme(scheme).WithObjects(release, clone).Build()
		reconciler := &BatchReleaseReconciler{Client: cli, recorder: rec, Scheme: scheme, executor: NewReleasePlanExecutor(cli, rec)}
		key := client.ObjectKeyFromObject(release)
		if _, err := reconciler.Reconcile(context.TODO(), reconcile.Request{NamespacedName: key}); err != nil {
			t.Fatalf("reconcile: %v", err)
		}
		br := &v1beta1.BatchRelease{}
		if err := cli.Get(context.TODO(), key, br); err != nil {
			t.Fatal(err)
		}
		return br
	}

	// sibling case for contrast: the workload scales 100 -> 120: state falls back to Upgrading at once.
	scaled := run(func(c *kruiseappsv1alpha1.CloneSet) { c.Spec.Replicas = pointer.Int32(120) })
	t.Logf("scaled:   batch=%d state=%s", scaled.Status.CanaryStatus.CurrentBatch, scaled.Status.CanaryStatus.CurrentBatchState)
	if scaled.Status.CanaryStatus.CurrentBatchState != v1beta1.UpgradingBatchState {
		t.Fatalf("premise: scaling is expected to fall back to Upgrading, got %s", scaled.Status.CanaryStatus.CurrentBatchState)
	}

	// the pod template is changed to v3 (continuous release); CloneSet controller has observed it:
	// updateRevision=rev-v3 and no pod of that revision exists yet.
	changed := run(func(c *kruiseappsv1alpha1.CloneSet) {
		c.Spec.Template.Spec.Containers = containers("v3")
		c.Generation, c.Status.ObservedGeneration = 4, 4
		c.Status.UpdateRevision = "rev-v3"
		c.Status.UpdatedReplicas = 0
		c.Status.UpdatedReadyReplicas = 0
	})
	cs := changed.Status.CanaryStatus
	t.Logf("revision: updateRevision=%s batch=%d state=%s updated=%d updatedReady=%d readyTime=%v",
		changed.Status.UpdateRevision, cs.CurrentBatch, cs.CurrentBatchState, cs.UpdatedReplicas, cs.UpdatedReadyReplicas, cs.BatchReadyTime)

	if changed.Status.UpdateRevision == "rev-v3" && cs.CurrentBatchState == v1beta1.ReadyBatchState && cs.UpdatedReplicas == 0 {
		fmt.Printf("REPRODUCED C11 (Ready without the updated pods; no fall back): after the workload's revision changed, the BatchRelease persisted "+
			"status{updateRevision=%s, currentBatch=%d, currentBatchState=%s, batchReadyTime set=%v, updatedReplicas=%d, updatedReadyReplicas=%d} - "+
			"batch %d calls for 50 updated pods, the workload has 0 of revision %s; the sibling cases (scale, plan change) reset the state to Upgrading in the same round\n",
			changed.Status.UpdateRevision, cs.CurrentBatch, cs.CurrentBatchState, cs.BatchReadyTime != nil, cs.UpdatedReplicas, cs.UpdatedReadyReplicas,
			cs.CurrentBatch, changed.Status.UpdateRevision)
		return
	}
	t.Fatalf("not reproduced: %+v", changed.Status)
}
