// dest: pkg/webhook/workload/mutating/zz_audit_C08_3_test.go
package mutating

import (
	"context"
	"fmt"
	"testing"

	appsv1beta1 "github.com/openkruise/rollouts/api/v1beta1"
	"github.com/openkruise/rollouts/pkg/util"
	"k8s.io/utils/pointer"
	"sigs.k8s.io/controller-runtime/pkg/client/fake"
	"sigs.k8s.io/controller-runtime/pkg/webhook/admission"
)

// C08: "receives a release change (its rollout-id changes or, when no rollout-id is used, its pod template
// changes ...) the admitted object is held back ... and marked in-progress for that Rollout".
//
// The rollout-id of a workload is metadata.labels["rollouts.kruise.io/rollout-id"]: the constant is called
// RolloutIDLabel and documented "is set to workload labels", the Rollout controller reads it from the labels
// (pkg/controller/rollout/rollout_status.go:getRolloutID -> workload.Labels[RolloutIDLabel]) and so do the
// e2e tests (workload.Labels[v1beta1.RolloutIDLabel] = "2"). All four admission handlers, however, look the
// key up in metadata.ANNOTATIONS only. A rollout-id change made where the controller reads it is therefore
// invisible to admission: the update is classified "not a release change" and the workload is neither held
// back nor marked in-progress, so the new release (same template, new rollout-id) is never handed over.
// (test/e2e "only rollout-id changes" has to write the in-progress annotation by hand to get around this.)
func TestAuditC08_3_RolloutIDLabelChangeIsNotSeenByAdmission(t *testing.T) {
	decoder, _ := admission.NewDecoder(scheme)

	// --- CloneSet
	{
		cli := fake.NewClientBuilder().WithScheme(scheme).Build()
		rollout := rolloutDemo.DeepCopy()
		rollout.Spec.WorkloadRef = appsv1beta1.ObjectRef{APIVersion: "apps.kruise.io/v1alpha1", Kind: "CloneSet", Name: "echoserver"}
		if err := cli.Create(context.TODO(), rollout); err != nil {
			t.Fatal(err)
		}
		h := &WorkloadHandler{Client: cli, Decoder: decoder, Finder: util.NewControllerFinder(cli)}

		oldObj := cloneSetDemo.DeepCopy()
		oldObj.Spec.Replicas = pointer.Int32(5)
		oldObj.Status.Replicas, oldObj.Status.UpdatedReplicas = 5, 5
		oldObj.Labels[appsv1beta1.RolloutIDLabel] = "1"
		newObj := oldObj.DeepCopy()
		newObj.Labels[appsv1beta1.RolloutIDLabel] = "2" // the rollout-id changes

		changed, err := h.handleCloneSet(newObj, oldObj)
		if err != nil {
			t.Fatal(err)
		}
		if changed || newObj.Annotations[util.InRolloutProgressingAnnotation] != "" || newObj.Spec.UpdateStrategy.Partition != nil {
			t.Fatalf("NOT reproduced: cloneset was held back / marked")
		}
		fmt.Printf("REPRODUCED: CloneSet (5 running replicas, active matching Rollout %q) had its rollout-id label changed 1 -> 2, "+
			"but was admitted unchanged: partition=%v, %s=%q -- the rollout-id release change is not held back nor marked in-progress\n",
			rollout.Name, newObj.Spec.UpdateStrategy.Partition, util.InRolloutProgressingAnnotation, newObj.Annotations[util.InRolloutProgressingAnnotation])

		// control: the very same edit made in the annotations IS recognised
		ctlOld := cloneSetDemo.DeepCopy()
		ctlOld.Spec.Replicas = pointer.Int32(5)
		ctlOld.Annotations[appsv1beta1.RolloutIDLabel] = "1"
		ctlNew := ctlOld.DeepCopy()
		ctlNew.Annotations[appsv1beta1.RolloutIDLabel] = "2"
		if changed, _ := h.handleCloneSet(ctlNew, ctlOld); !changed {
			t.Fatalf("control failed: annotation based rollout-id change not recognised either")
		}
	}

	// --- Deployment
	{
		cli := fake.NewClientBuilder().WithScheme(scheme).Build()
		rollout := rolloutDemo.DeepCopy()
		if err := cli.Create(context.TODO(), rollout); err != nil {
			t.Fatal(err)
		}
		if err := cli.Create(context.TODO(), rsDemo.DeepCopy()); err != nil {
			t.Fatal(err)
		}
		h := &WorkloadHandler{Client: cli, Decoder: decoder, Finder: util.NewControllerFinder(cli)}
		oldObj := deploymentDemo.DeepCopy()
		oldObj.Spec.Replicas = pointer.Int32(5)
		oldObj.Labels[appsv1beta1.RolloutIDLabel] = "1"
		newObj := oldObj.DeepCopy()
		newObj.Labels[appsv1beta1.RolloutIDLabel] = "2"
		changed, err := h.handleDeployment(newObj, oldObj)
		if err != nil {
			t.Fatal(err)
		}
		if changed || newObj.Spec.Paused || newObj.Annotations[util.InRolloutProgressingAnnotation] != "" {
			t.Fatalf("NOT reproduced: deployment was held back / marked")
		}
		fmt.Printf("REPRODUCED: Deployment (5 running replicas, active matching Rollout %q) had its rollout-id label changed 1 -> 2, "+
			"but was admitted unchanged: paused=%v, %s=%q\n",
			rollout.Name, newObj.Spec.Paused, util.InRolloutProgressingAnnotation, newObj.Annotations[util.InRolloutProgressingAnnotation])
	}
}
