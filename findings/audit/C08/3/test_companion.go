// dest: pkg/controller/rollout/zz_audit_C08_3b_test.go
package rollout

import (
	"fmt"
	"testing"

	"github.com/openkruise/rollouts/api/v1beta1"
	"github.com/openkruise/rollouts/pkg/util"
	metav1 "k8s.io/apimachinery/pkg/apis/meta/v1"
)

// Companion of pkg/webhook/workload/mutating/zz_audit_C08_3_test.go: shows that the Rollout controller's
// notion of a workload's rollout-id is the LABEL (the admission handlers only look at the annotation).
func TestAuditC08_3b_ControllerReadsRolloutIDFromLabels(t *testing.T) {
	byLabel := getRolloutID(&util.Workload{ObjectMeta: metav1.ObjectMeta{Labels: map[string]string{v1beta1.RolloutIDLabel: "2"}}, CanaryRevision: "rev"})
	byAnno := getRolloutID(&util.Workload{ObjectMeta: metav1.ObjectMeta{Annotations: map[string]string{v1beta1.RolloutIDLabel: "2"}}, CanaryRevision: "rev"})
	if byLabel != "2" || byAnno != "rev" {
		t.Fatalf("NOT reproduced: byLabel=%q byAnno=%q", byLabel, byAnno)
	}
	fmt.Printf("REPRODUCED: controller getRolloutID: label rollout-id=2 -> %q, annotation rollout-id=2 -> %q (ignored, falls back to revision); "+
		"admission (isEffectiveDeploymentRevisionChange/handleCloneSet/...) reads the annotation only, so the two halves of the hand-over disagree on what 'rollout-id changes' means\n", byLabel, byAnno)
}
