// dest: pkg/webhook/workload/mutating/zz_audit_C08_2_test.go
package mutating

import (
	"context"
	"fmt"
	"testing"

	kruiseappsv1alpha1 "github.com/openkruise/kruise-api/apps/v1alpha1"
	appsv1beta1 "github.com/openkruise/rollouts/api/v1beta1"
	"github.com/openkruise/rollouts/pkg/util"
	"sigs.k8s.io/controller-runtime/pkg/client/fake"
	"sigs.k8s.io/controller-runtime/pkg/webhook/admission"
)

// C08: "... receives a release change ... the admitted object is held back (paused / full partition)
// and marked in-progress for that Rollout" -- quantified over object shapes incl. "absent strategy blocks".
//
// handleDaemonSet writes newObj.Spec.UpdateStrategy.RollingUpdate.Partition without checking that the
// optional pointer Spec.UpdateStrategy.RollingUpdate is non-nil. An Advanced DaemonSet with
// updateStrategy.type=OnDelete (Kruise's defaulting only fills rollingUpdate for type RollingUpdate) or
// any DaemonSet whose rollingUpdate block is absent makes the admission handler panic instead of
// returning a response. The sibling handlers cope with the same shape (SetStatefulSetPartition creates
// the block; handleStatefulSetLikeWorkload skips OnDelete; CloneSet's partition is not behind a pointer).
// With failurePolicy=Fail every template update of such a DaemonSet is rejected for as long as an
// active Rollout references it.
func TestAuditC08_2_DaemonSetWithoutRollingUpdateBlockPanics(t *testing.T) {
	for _, tc := range []struct {
		name string
		mut  func(ds *kruiseappsv1alpha1.DaemonSet)
	}{
		{"type=OnDelete, rollingUpdate absent", func(ds *kruiseappsv1alpha1.DaemonSet) {
			ds.Spec.UpdateStrategy = kruiseappsv1alpha1.DaemonSetUpdateStrategy{Type: kruiseappsv1alpha1.OnDeleteDaemonSetStrategyType}
		}},
		{"type=RollingUpdate, rollingUpdate absent", func(ds *kruiseappsv1alpha1.DaemonSet) {
			ds.Spec.UpdateStrategy = kruiseappsv1alpha1.DaemonSetUpdateStrategy{Type: kruiseappsv1alpha1.RollingUpdateDaemonSetStrategyType}
		}},
		{"updateStrategy block absent", func(ds *kruiseappsv1alpha1.DaemonSet) {
			ds.Spec.UpdateStrategy = kruiseappsv1alpha1.DaemonSetUpdateStrategy{}
		}},
	} {
		decoder, _ := admission.NewDecoder(scheme)
		cli := fake.NewClientBuilder().WithScheme(scheme).Build()
		rollout := rolloutDemo.DeepCopy()
		rollout.Spec.WorkloadRef = appsv1beta1.ObjectRef{APIVersion: "apps.kruise.io/v1alpha1", Kind: "DaemonSet", Name: "echoserver"}
		if err := cli.Create(context.TODO(), rollout); err != nil {
			t.Fatal(err)
		}
		h := &WorkloadHandler{Client: cli, Decoder: decoder, Finder: util.NewControllerFinder(cli)}

		oldObj := daemonSetDemo.DeepCopy() // 10 scheduled, running pods
		tc.mut(oldObj)
		newObj := oldObj.DeepCopy()
		newObj.Spec.Template.Spec.Containers[0].Image = "echoserver:v2" // release change

		var recovered interface{}
		var changed bool
		var err error
		func() {
			defer func() { recovered = recover() }()
			changed, err = h.handleDaemonSet(newObj, oldObj)
		}()
		if recovered == nil {
			t.Fatalf("NOT reproduced (%s): no panic, changed=%v err=%v partition=%v", tc.name, changed, err, newObj.Spec.UpdateStrategy.RollingUpdate)
		}
		fmt.Printf("REPRODUCED (%s): Advanced DaemonSet with running pods, referenced by active Rollout %q, image v1->v2: "+
			"instead of admitting the object with a full partition and the in-progress mark, handleDaemonSet panicked: %v (in-progress annotation=%q)\n",
			tc.name, rollout.Name, recovered, newObj.Annotations[util.InRolloutProgressingAnnotation])
	}
}
