// dest: pkg/webhook/workload/mutating/zz_audit_C08_1_test.go
package mutating

import (
	"context"
	"fmt"
	"testing"

	appsv1beta1 "github.com/openkruise/rollouts/api/v1beta1"
	"github.com/openkruise/rollouts/pkg/util"
	apps "k8s.io/api/apps/v1"
	"k8s.io/utils/pointer"
	"sigs.k8s.io/controller-runtime/pkg/client/fake"
	"sigs.k8s.io/controller-runtime/pkg/webhook/admission"
)

// C08: "Workloads without a matching active Rollout ... are admitted unchanged" /
// "matching Rollout lookup skipping deleted/disabled".
//
// fetchMatchedRollout decides "disabled" from rollout.Status.Phase only and never looks at
// rollout.Spec.Disabled. The status is written asynchronously by the Rollout controller, so
//   (a) a Rollout the user has disabled (spec.disabled=true) whose status has not (yet) been
//       moved to Disabled is still treated as active: the release is paused and marked
//       in-progress for a Rollout that will never drive it (Healthy+spec.disabled goes straight
//       to phase Disabled in calculateRolloutStatus, without finalising the workload);
//   (b) a Rollout the user has re-enabled (spec.disabled=false) whose status still says
//       Disabled is skipped: the release is admitted un-paused although an active Rollout
//       references the workload.

func auditC08f1Handler(t *testing.T, rollout *appsv1beta1.Rollout, rss ...*apps.ReplicaSet) *WorkloadHandler {
	decoder, _ := admission.NewDecoder(scheme)
	cli := fake.NewClientBuilder().WithScheme(scheme).Build()
	if rollout != nil {
		if err := cli.Create(context.TODO(), rollout); err != nil {
			t.Fatalf("create rollout: %v", err)
		}
	}
	for _, rs := range rss {
		if err := cli.Create(context.TODO(), rs); err != nil {
			t.Fatalf("create rs: %v", err)
		}
	}
	return &WorkloadHandler{Client: cli, Decoder: decoder, Finder: util.NewControllerFinder(cli)}
}

func TestAuditC08_1a_SpecDisabledRolloutStillPausesRelease(t *testing.T) {
	for _, phase := range []appsv1beta1.RolloutPhase{"", appsv1beta1.RolloutPhaseInitial, appsv1beta1.RolloutPhaseHealthy} {
		rollout := rolloutDemo.DeepCopy()
		rollout.Spec.Disabled = true // the user switched the Rollout off
		rollout.Status.Phase = phase // controller has not written "Disabled" yet (or object freshly created)
		h := auditC08f1Handler(t, rollout, rsDemo.DeepCopy())

		oldObj := deploymentDemo.DeepCopy()
		oldObj.Spec.Replicas = pointer.Int32(5)
		newObj := oldObj.DeepCopy()
		newObj.Spec.Template.Spec.Containers[0].Image = "echoserver:v2"

		changed, err := h.handleDeployment(newObj, oldObj)
		if err != nil {
			t.Fatalf("unexpected error: %v", err)
		}
		if !changed && !newObj.Spec.Paused && newObj.Annotations[util.InRolloutProgressingAnnotation] == "" {
			t.Fatalf("NOT reproduced (phase=%q): disabled rollout was skipped, deployment admitted unchanged", phase)
		}
		fmt.Printf("REPRODUCED (phase=%q): the only Rollout referencing the Deployment has spec.disabled=true (not active), "+
			"yet the admitted Deployment was mutated: paused=%v, %s=%s -- it is held back for a Rollout that will not take over\n",
			phase, newObj.Spec.Paused, util.InRolloutProgressingAnnotation, newObj.Annotations[util.InRolloutProgressingAnnotation])
	}
}

func TestAuditC08_1b_ReEnabledRolloutIsSkipped(t *testing.T) {
	rollout := rolloutDemo.DeepCopy()
	rollout.Spec.Disabled = false                           // user re-enabled the Rollout
	rollout.Status.Phase = appsv1beta1.RolloutPhaseDisabled // status still lags behind
	h := auditC08f1Handler(t, rollout, rsDemo.DeepCopy())

	oldObj := deploymentDemo.DeepCopy()
	oldObj.Spec.Replicas = pointer.Int32(5)
	newObj := oldObj.DeepCopy()
	newObj.Spec.Template.Spec.Containers[0].Image = "echoserver:v2"

	changed, err := h.handleDeployment(newObj, oldObj)
	if err != nil {
		t.Fatalf("unexpected error: %v", err)
	}
	if changed || newObj.Spec.Paused || newObj.Annotations[util.InRolloutProgressingAnnotation] != "" {
		t.Fatalf("NOT reproduced: release was paused/marked")
	}
	fmt.Printf("REPRODUCED: Rollout has spec.disabled=false (active) and references the Deployment (5 running replicas), " +
		"template changed v1->v2, but because status.phase is still Disabled the Deployment is admitted with paused=false and " +
		"no in-progress mark: the native controller rolls every pod unsupervised\n")
}
