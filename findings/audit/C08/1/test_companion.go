// dest: pkg/controller/rollout/zz_audit_C08_1c_test.go
package rollout

import (
	"context"
	"fmt"
	"testing"

	"github.com/openkruise/rollouts/api/v1beta1"
	"github.com/openkruise/rollouts/pkg/util"
	apps "k8s.io/api/apps/v1"
	"k8s.io/apimachinery/pkg/types"
	"k8s.io/client-go/tools/record"
	"sigs.k8s.io/controller-runtime/pkg/client/fake"
)

// Companion of zz_audit_C08_1_test.go (webhook side): what happens AFTER the webhook has paused a
// Deployment on behalf of a Rollout with spec.disabled=true whose status.phase was still Healthy.
// calculateRolloutStatus moves Healthy+spec.disabled straight to Disabled (only Progressing goes
// through Disabling, which finalises the workload), so nobody ever un-pauses the Deployment or
// removes the in-progress mark: the release is neither supervised nor released.
func TestAuditC08_1c_DisabledRolloutNeverTakesOverPausedWorkload(t *testing.T) {
	rollout := rolloutDemo.DeepCopy()
	rollout.Spec.Disabled = true
	rollout.Status = v1beta1.RolloutStatus{Phase: v1beta1.RolloutPhaseHealthy}

	// the Deployment exactly as the webhook admitted it (see TestAuditC08_1a)
	dep := deploymentDemo.DeepCopy()
	dep.Spec.Template.Spec.Containers[0].Image = "echoserver:v2"
	dep.Spec.Paused = true
	if dep.Annotations == nil {
		dep.Annotations = map[string]string{}
	}
	dep.Annotations[util.InRolloutProgressingAnnotation] = `{"rolloutName":"rollout-demo"}`
	dep.Status.ObservedGeneration = dep.Generation
	rs := rsDemo.DeepCopy()

	fc := fake.NewClientBuilder().WithScheme(scheme).WithObjects(rollout, dep, rs).Build()
	r := &RolloutReconciler{Client: fc, Scheme: scheme, Recorder: record.NewFakeRecorder(10), finder: util.NewControllerFinder(fc)}

	// first reconcile: same sequence as Reconcile() - calculate status, dispatch on the OLD phase, write status
	for i := 0; i < 3; i++ {
		cur := &v1beta1.Rollout{}
		if err := fc.Get(context.TODO(), types.NamespacedName{Name: rollout.Name}, cur); err != nil {
			t.Fatal(err)
		}
		retry, newStatus, err := r.calculateRolloutStatus(cur)
		if err != nil || retry || newStatus == nil {
			t.Fatalf("calculateRolloutStatus: retry=%v err=%v", retry, err)
		}
		switch cur.Status.Phase {
		case v1beta1.RolloutPhaseProgressing, v1beta1.RolloutPhaseTerminating, v1beta1.RolloutPhaseDisabling:
			t.Fatalf("NOT reproduced: controller entered phase %s and would handle the workload", cur.Status.Phase)
		}
		if err := r.updateRolloutStatusInternal(cur, *newStatus); err != nil {
			t.Fatal(err)
		}
	}
	cur := &v1beta1.Rollout{}
	_ = fc.Get(context.TODO(), types.NamespacedName{Name: rollout.Name}, cur)
	got := &apps.Deployment{}
	_ = fc.Get(context.TODO(), types.NamespacedName{Name: dep.Name}, got)
	if cur.Status.Phase != v1beta1.RolloutPhaseDisabled || !got.Spec.Paused || got.Annotations[util.InRolloutProgressingAnnotation] == "" {
		t.Fatalf("NOT reproduced: phase=%s paused=%v anno=%q", cur.Status.Phase, got.Spec.Paused, got.Annotations[util.InRolloutProgressingAnnotation])
	}
	fmt.Printf("REPRODUCED: after 3 reconciles the Rollout is in phase %s, while the Deployment the webhook paused for it is still paused=%v "+
		"and still marked %s=%s: held back, but no rollout controller ever takes over (stuck release)\n",
		cur.Status.Phase, got.Spec.Paused, util.InRolloutProgressingAnnotation, got.Annotations[util.InRolloutProgressingAnnotation])
}
