// dest: pkg/webhook/workload/mutating/zz_audit_C08_4_test.go
package mutating

import (
	"context"
	"encoding/json"
	"fmt"
	"strings"
	"testing"

	"github.com/openkruise/rollouts/pkg/util"
	"github.com/openkruise/rollouts/pkg/webhook/util/configuration"
	admissionv1 "k8s.io/api/admission/v1"
	admregv1 "k8s.io/api/admissionregistration/v1"
	apps "k8s.io/api/apps/v1"
	metav1 "k8s.io/apimachinery/pkg/apis/meta/v1"
	"k8s.io/apimachinery/pkg/runtime"
	"k8s.io/utils/pointer"
	"sigs.k8s.io/controller-runtime/pkg/client/fake"
	"sigs.k8s.io/controller-runtime/pkg/webhook/admission"
)

// C08: "Whenever a workload with running replicas ... referenced by an active Rollout receives a release change
// ... the admitted object is held back (paused) and marked in-progress ... so the native controller cannot update
// a single pod".
//
// handleDeployment looks up the Deployment's ReplicaSets with Finder.GetReplicaSetsForDeployment(newObj), which
// keeps only ReplicaSets whose controller ownerReference UID == newObj.UID, and treats "none found" as "no pods,
// no need to roll". newObj is the object exactly as SUBMITTED: on a PUT (kubectl replace -f deploy.yaml, or any
// client that builds the object from a manifest) metadata.uid is legitimately absent -- the apiserver only copies
// it from the stored object in rest.BeforeUpdate, which runs AFTER mutating admission (registry/store.go:
// objInfo.UpdatedObject(...) -> admission, then rest.BeforeUpdate). With an empty UID no ReplicaSet matches, the
// handler returns "unchanged", and the new template is admitted un-paused and un-marked: the native Deployment
// controller performs the whole rolling update with no Rollout supervision. oldObj.UID (always set) is ignored.
func TestAuditC08_4_DeploymentSubmittedWithoutUIDIsReleasedUnsupervised(t *testing.T) {
	decoder, _ := admission.NewDecoder(scheme)
	cli := fake.NewClientBuilder().WithScheme(scheme).Build()
	h := &WorkloadHandler{Client: cli, Decoder: decoder, Finder: util.NewControllerFinder(cli)}

	mwc := &admregv1.MutatingWebhookConfiguration{
		ObjectMeta: metav1.ObjectMeta{Name: configuration.MutatingWebhookConfigurationName},
		Webhooks: []admregv1.MutatingWebhook{{
			Name: "mdeployment.kb.io",
			Rules: []admregv1.RuleWithOperations{{
				Rule:       admregv1.Rule{APIGroups: []string{"apps"}, APIVersions: []string{"v1"}, Resources: []string{"deployments"}},
				Operations: []admregv1.OperationType{admregv1.Update},
			}},
			ObjectSelector: &metav1.LabelSelector{MatchLabels: map[string]string{util.WorkloadTypeLabel: "deployment"}},
		}},
	}
	rollout := rolloutDemo.DeepCopy()
	rollout.Namespace = "default"
	rs := rsDemo.DeepCopy() // 5 running v1 replicas, owned by deploymentDemo.UID
	rs.Namespace = "default"
	for _, o := range []interface{}{mwc, rollout, rs} {
		if err := cli.Create(context.TODO(), o.(interface {
			runtime.Object
			metav1.Object
		})); err != nil {
			t.Fatal(err)
		}
	}

	stored := deploymentDemo.DeepCopy() // what is in etcd: has metadata.uid
	stored.Namespace = "default"
	stored.Labels[util.WorkloadTypeLabel] = "deployment"
	stored.Spec.Replicas = pointer.Int32(5)

	build := func(newObj *apps.Deployment) admission.Request {
		rawNew, _ := json.Marshal(newObj)
		rawOld, _ := json.Marshal(stored)
		return admission.Request{AdmissionRequest: admissionv1.AdmissionRequest{
			Kind:      metav1.GroupVersionKind{Group: "apps", Version: "v1", Kind: "Deployment"},
			Resource:  metav1.GroupVersionResource{Group: "apps", Version: "v1", Resource: "deployments"},
			Name:      stored.Name,
			Namespace: stored.Namespace,
			Operation: admissionv1.Update,
			Object:    runtime.RawExtension{Raw: rawNew},
			OldObject: runtime.RawExtension{Raw: rawOld},
			DryRun:    pointer.Bool(false),
		}}
	}

	// control: same release change submitted as a patched copy of the stored object (uid present) -> paused + marked
	ctl := stored.DeepCopy()
	ctl.Spec.Template.Spec.Containers[0].Image = "echoserver:v2"
	resp := h.Handle(context.TODO(), build(ctl))
	ctlPatches, _ := json.Marshal(resp.Patches)
	if !resp.Allowed || !strings.Contains(string(ctlPatches), "/spec/paused") || !strings.Contains(string(ctlPatches), "in-progressing") {
		t.Fatalf("control failed: allowed=%v patches=%s result=%v", resp.Allowed, ctlPatches, resp.Result)
	}

	// the manifest as a user keeps it in git and PUTs it with `kubectl replace`: no metadata.uid
	submitted := stored.DeepCopy()
	submitted.UID = ""
	submitted.Spec.Template.Spec.Containers[0].Image = "echoserver:v2"
	resp = h.Handle(context.TODO(), build(submitted))
	patches, _ := json.Marshal(resp.Patches)
	if !resp.Allowed || len(resp.Patches) != 0 || len(resp.Patch) != 0 {
		t.Fatalf("NOT reproduced: allowed=%v patches=%s", resp.Allowed, patches)
	}
	fmt.Printf("REPRODUCED: Deployment default/echoserver (5 running replicas in ReplicaSet %s, webhook-selected, referenced by active Rollout %q) "+
		"received a pod-template change v1->v2 in an update whose body carries no metadata.uid; admission answered allowed=%v with %d patches "+
		"(control request with uid got: %s) -- the object is admitted with paused=false and without %s, so the native controller rolls all pods unsupervised\n",
		rs.Name, rollout.Name, resp.Allowed, len(resp.Patches), ctlPatches, util.InRolloutProgressingAnnotation)

	// 4b - same PUT-of-a-manifest scenario, second gap: the webhook's objectSelector keys on the label
	// rollouts.kruise.io/workload-type, which the Rollout controller patches onto the stored workload; a manifest from
	// git does not carry it. The apiserver still calls the webhook (objectSelector matches if EITHER the old or the new
	// object matches), but checkWorkloadRules re-evaluates the selector against the NEW object's labels only and
	// answers "not selected" -> admitted unchanged. (uid kept here to isolate the effect.)
	noLabel := stored.DeepCopy()
	delete(noLabel.Labels, util.WorkloadTypeLabel)
	noLabel.Spec.Template.Spec.Containers[0].Image = "echoserver:v2"
	resp = h.Handle(context.TODO(), build(noLabel))
	if !resp.Allowed || len(resp.Patches) != 0 || len(resp.Patch) != 0 {
		p, _ := json.Marshal(resp.Patches)
		t.Fatalf("NOT reproduced (4b): allowed=%v patches=%s", resp.Allowed, p)
	}
	fmt.Printf("REPRODUCED (4b): stored Deployment carries %s (so the apiserver selects the webhook for this update), the submitted body does not; "+
		"template v1->v2, active Rollout %q: admission answered allowed=%v with %d patches -- released unsupervised because the handler "+
		"re-checks the objectSelector on the new object's labels only\n", util.WorkloadTypeLabel, rollout.Name, resp.Allowed, len(resp.Patches))
}
