// dest: pkg/controller/rollout/zz_audit_C05_1_test.go
package rollout

import (
	"context"
	"fmt"
	"testing"
	"time"

	"github.com/openkruise/rollouts/api/v1alpha1"
	"github.com/openkruise/rollouts/api/v1beta1"
	"github.com/openkruise/rollouts/pkg/trafficrouting"
	"github.com/openkruise/rollouts/pkg/util"
	apps "k8s.io/api/apps/v1"
	corev1 "k8s.io/api/core/v1"
	netv1 "k8s.io/api/networking/v1"
	"k8s.io/apimachinery/pkg/api/errors"
	metav1 "k8s.io/apimachinery/pkg/apis/meta/v1"
	"k8s.io/client-go/tools/record"
	utilpointer "k8s.io/utils/pointer"
	"sigs.k8s.io/controller-runtime/pkg/client"
	"sigs.k8s.io/controller-runtime/pkg/client/fake"
)

// Audit C05 finding 1.
//
// The finalising task list is chosen per exit reason (nextCanaryTask / nextBlueGreenTask), but the
// position inside the list (status.FinalisingStep) is persisted and is NOT reset when the exit
// reason changes. When a second exit reason arrives while the first one is still being finalised
// (rollback in progress -> rollout deleted or disabled; blue-green success in progress -> rollout
// disabled), the persisted step is looked up in the OTHER reason's list, whose order is different,
// so the remaining tasks of the first list are skipped and the rollout reports "done" with the
// cluster only half restored.

type auditC05Env struct {
	fc client.WithWatch
	r  *RolloutReconciler
}

func auditC05NewEnv(rollout *v1beta1.Rollout, objs ...client.Object) *auditC05Env {
	fc := fake.NewClientBuilder().WithScheme(scheme).WithObjects(rollout, demoConf.DeepCopy()).Build()
	for _, o := range objs {
		if err := fc.Create(context.TODO(), o); err != nil {
			panic(err)
		}
	}
	r := &RolloutReconciler{
		Client:                fc,
		Scheme:                scheme,
		Recorder:              record.NewFakeRecorder(100),
		finder:                util.NewControllerFinder(fc),
		trafficRoutingManager: trafficrouting.NewTrafficRoutingManager(fc),
	}
	r.canaryManager = &canaryReleaseManager{Client: fc, trafficRoutingManager: r.trafficRoutingManager, recorder: r.Recorder}
	r.blueGreenManager = &blueGreenReleaseManager{Client: fc, trafficRoutingManager: r.trafficRoutingManager, recorder: r.Recorder}
	return &auditC05Env{fc: fc, r: r}
}

// the cluster in the middle of a canary rollout (step 1 paused): stable Service pinned to the stable
// revision, canary Service and canary Ingress present; the user has just reverted the template to v1.
func auditC05CanaryMidRollout() (*v1beta1.Rollout, []client.Object) {
	rollout := rolloutDemo.DeepCopy()
	rollout.Finalizers = []string{util.KruiseRolloutFinalizer}
	rollout.Status.CanaryStatus.ObservedWorkloadGeneration = 2
	rollout.Status.CanaryStatus.RolloutHash = rollout.Annotations[util.RolloutHashAnnotation]
	rollout.Status.CanaryStatus.StableRevision = "pod-template-hash-v1"
	rollout.Status.CanaryStatus.CanaryRevision = "88bd5dbfd"
	rollout.Status.CanaryStatus.PodTemplateHash = "pod-template-hash-v2"
	rollout.Status.CanaryStatus.CurrentStepIndex = 1
	rollout.Status.CanaryStatus.NextStepIndex = 2
	rollout.Status.CanaryStatus.CurrentStepState = v1beta1.CanaryStepStatePaused
	rollout.Status.CanaryStatus.LastUpdateTime = &metav1.Time{Time: time.Now().Add(-time.Hour)}
	cond := util.GetRolloutCondition(rollout.Status, v1beta1.RolloutConditionProgressing)
	cond.Reason = v1alpha1.ProgressingReasonInRolling
	util.SetRolloutCondition(&rollout.Status, *cond)

	// the user rolled the template back to v1 (same as the stable ReplicaSet)
	dep1 := deploymentDemo.DeepCopy()
	dep1.Spec.Template.Spec.Containers[0].Image = "echoserver:v1"
	dep2 := deploymentDemo.DeepCopy()
	dep2.UID = "1ca4d850-9ec3-48bd-84cb-19f2e8cf4180"
	dep2.Name = dep1.Name + "-canary"
	dep2.Labels[util.CanaryDeploymentLabel] = dep1.Name
	rs1 := rsDemo.DeepCopy()
	rs2 := rsDemo.DeepCopy()
	rs2.Name = "echoserver-canary-2"
	rs2.OwnerReferences = []metav1.OwnerReference{{APIVersion: "apps/v1", Kind: "Deployment", Name: dep2.Name,
		UID: "1ca4d850-9ec3-48bd-84cb-19f2e8cf4180", Controller: utilpointer.Bool(true)}}
	rs2.Labels["pod-template-hash"] = "pod-template-hash-v2"
	rs2.Spec.Template.Spec.Containers[0].Image = "echoserver:v2"

	stable := demoService.DeepCopy()
	stable.Spec.Selector[apps.DefaultDeploymentUniqueLabelKey] = "pod-template-hash-v1" // patched by the rollout
	canary := demoService.DeepCopy()
	canary.Name = "echoserver-canary"
	canary.Spec.Selector[apps.DefaultDeploymentUniqueLabelKey] = "pod-template-hash-v2"
	ing := demoIngress.DeepCopy()
	cIng := demoIngress.DeepCopy()
	cIng.Name = "echoserver-canary"
	cIng.Annotations["nginx.ingress.kubernetes.io/canary"] = "true"
	cIng.Annotations["nginx.ingress.kubernetes.io/canary-weight"] = "5"
	cIng.Spec.Rules[0].HTTP.Paths[0].Backend.Service.Name = "echoserver-canary"
	return rollout, []client.Object{rs1, rs2, dep1, dep2, stable, canary, ing, cIng}
}

// emulate "the user deletes the Rollout" and run the terminating reconcile until it reports completion
func (e *auditC05Env) deleteRolloutAndFinalise(t *testing.T, rollout *v1beta1.Rollout) {
	now := metav1.Now()
	rollout.DeletionTimestamp = &now
	_, newStatus, err := e.r.calculateRolloutStatus(rollout)
	if err != nil {
		t.Fatalf("calculateRolloutStatus: %v", err)
	}
	rollout.Status = *newStatus
	if rollout.Status.Phase != v1beta1.RolloutPhaseTerminating {
		t.Fatalf("expected Terminating, got %s", rollout.Status.Phase)
	}
	for i := 0; i < 30; i++ {
		ns := rollout.Status.DeepCopy()
		if _, err := e.r.reconcileRolloutTerminating(rollout, ns); err != nil {
			t.Fatalf("reconcileRolloutTerminating: %v", err)
		}
		rollout.Status = *ns
		c := util.GetRolloutCondition(rollout.Status, v1beta1.RolloutConditionTerminating)
		if c != nil && c.Reason == v1alpha1.TerminatingReasonCompleted {
			return
		}
	}
	t.Fatalf("terminating did not complete")
}

func (e *auditC05Env) leftovers() []string {
	var out []string
	svc := &corev1.Service{}
	if err := e.fc.Get(context.TODO(), client.ObjectKey{Name: "echoserver"}, svc); err == nil {
		if v, ok := svc.Spec.Selector[apps.DefaultDeploymentUniqueLabelKey]; ok {
			out = append(out, fmt.Sprintf("stable Service selector still pinned to %s=%s", apps.DefaultDeploymentUniqueLabelKey, v))
		}
	}
	if err := e.fc.Get(context.TODO(), client.ObjectKey{Name: "echoserver-canary"}, &corev1.Service{}); err == nil {
		out = append(out, "canary Service echoserver-canary still exists")
	} else if !errors.IsNotFound(err) {
		out = append(out, err.Error())
	}
	if err := e.fc.Get(context.TODO(), client.ObjectKey{Name: "echoserver-canary"}, &netv1.Ingress{}); err == nil {
		out = append(out, "canary Ingress echoserver-canary still exists")
	}
	if err := e.fc.Get(context.TODO(), client.ObjectKey{Name: "rollout-demo"}, &v1beta1.BatchRelease{}); err == nil {
		out = append(out, "BatchRelease rollout-demo still exists")
	}
	return out
}

// control: deletion straight from the paused step restores everything (so the harness is sound)
func TestAuditC05_1_Control_DeleteWhilePaused(t *testing.T) {
	rollout, objs := auditC05CanaryMidRollout()
	e := auditC05NewEnv(rollout, objs...)
	e.deleteRolloutAndFinalise(t, rollout)
	if l := e.leftovers(); len(l) != 0 {
		t.Fatalf("control failed, leftovers: %v", l)
	}
}

// history: step 1 paused -> user reverts the template (rollback, Cancelling) -> the first rollback task
// (RouteTrafficToStable) completes -> user deletes the Rollout -> terminating finaliser reports done.
func TestAuditC05_1_CanaryRollbackThenDelete(t *testing.T) {
	rollout, objs := auditC05CanaryMidRollout()
	e := auditC05NewEnv(rollout, objs...)

	// run the progressing reconcile until the rollback finaliser has finished its first task
	reached := false
	for i := 0; i < 10; i++ {
		ns := rollout.Status.DeepCopy()
		if _, err := e.r.reconcileRolloutProgressing(rollout, ns); err != nil {
			t.Fatalf("reconcileRolloutProgressing: %v", err)
		}
		rollout.Status = *ns
		if rollout.Status.CanaryStatus.FinalisingStep == v1beta1.FinalisingStepResumeWorkload {
			reached = true
			break
		}
	}
	cond := util.GetRolloutCondition(rollout.Status, v1beta1.RolloutConditionProgressing)
	if !reached || cond.Reason != v1alpha1.ProgressingReasonCancelling {
		t.Fatalf("could not reach Cancelling/ResumeWorkload: reason=%s step=%s", cond.Reason, rollout.Status.CanaryStatus.FinalisingStep)
	}

	e.deleteRolloutAndFinalise(t, rollout)
	l := e.leftovers()
	if len(l) == 0 {
		t.Fatalf("not reproduced: everything was restored")
	}
	fmt.Printf("REPRODUCED (C05, canary, rollback then delete): the Rollout finaliser reported completion (finalisingStep=%s, the "+
		"kruise finalizer is removed next) but the exit path did not leave the cluster as configured: %v. "+
		"RestoreStableService and RemoveCanaryService of the rollback task list were skipped because the persisted step %q was "+
		"looked up in the task list of the new reason.\n",
		rollout.Status.CanaryStatus.FinalisingStep, l, v1beta1.FinalisingStepResumeWorkload)
}

// same history but the rollout is disabled (spec.disabled=true) instead of deleted: nothing is garbage collected
// in that case, so the leftovers are permanent.
func TestAuditC05_1_CanaryRollbackThenDisable(t *testing.T) {
	rollout, objs := auditC05CanaryMidRollout()
	e := auditC05NewEnv(rollout, objs...)
	for i := 0; i < 10; i++ {
		ns := rollout.Status.DeepCopy()
		if _, err := e.r.reconcileRolloutProgressing(rollout, ns); err != nil {
			t.Fatalf("reconcileRolloutProgressing: %v", err)
		}
		rollout.Status = *ns
		if rollout.Status.CanaryStatus.FinalisingStep == v1beta1.FinalisingStepResumeWorkload {
			break
		}
	}
	if rollout.Status.CanaryStatus.FinalisingStep != v1beta1.FinalisingStepResumeWorkload {
		t.Fatalf("could not reach ResumeWorkload")
	}
	rollout.Spec.Disabled = true
	_, ns, err := e.r.calculateRolloutStatus(rollout)
	if err != nil {
		t.Fatal(err)
	}
	rollout.Status = *ns
	if rollout.Status.Phase != v1beta1.RolloutPhaseDisabling {
		t.Fatalf("expected Disabling, got %s", rollout.Status.Phase)
	}
	for i := 0; i < 30 && rollout.Status.Phase == v1beta1.RolloutPhaseDisabling; i++ {
		ns := rollout.Status.DeepCopy()
		if _, err := e.r.reconcileRolloutDisabling(rollout, ns); err != nil {
			t.Fatal(err)
		}
		rollout.Status = *ns
	}
	if rollout.Status.Phase != v1beta1.RolloutPhaseDisabled {
		t.Fatalf("disabling did not complete: %s", rollout.Status.Phase)
	}
	l := e.leftovers()
	if len(l) == 0 {
		t.Fatalf("not reproduced")
	}
	fmt.Printf("REPRODUCED (C05, canary, rollback then disable): rollout phase is %s but: %v\n", rollout.Status.Phase, l)
}

// blue-green: the rollout succeeded and is finalising (reason Success, first task RouteTrafficToNew in progress);
// the user disables the rollout. RouteTrafficToNew is not a member of the "disabled" task list, so the next task is END:
// every restore task is skipped.
func TestAuditC05_1_BlueGreenSuccessThenDisable(t *testing.T) {
	rollout := rolloutDemoBlueGreen.DeepCopy()
	rollout.Finalizers = []string{util.KruiseRolloutFinalizer}
	steps := int32(len(rollout.Spec.Strategy.BlueGreen.Steps))
	rollout.Status.BlueGreenStatus.ObservedWorkloadGeneration = 2
	rollout.Status.BlueGreenStatus.RolloutHash = rollout.Annotations[util.RolloutHashAnnotation]
	rollout.Status.BlueGreenStatus.StableRevision = "pod-template-hash-v1"
	rollout.Status.BlueGreenStatus.UpdatedRevision = "6f8cc56547"
	rollout.Status.BlueGreenStatus.PodTemplateHash = "pod-template-hash-v2"
	rollout.Status.BlueGreenStatus.CurrentStepIndex = steps
	rollout.Status.BlueGreenStatus.NextStepIndex = -1
	rollout.Status.BlueGreenStatus.CurrentStepState = v1beta1.CanaryStepStateCompleted
	rollout.Status.BlueGreenStatus.LastUpdateTime = &metav1.Time{Time: time.Now().Add(-time.Hour)}
	cond := util.GetRolloutCondition(rollout.Status, v1beta1.RolloutConditionProgressing)
	cond.Reason = v1alpha1.ProgressingReasonFinalising
	util.SetRolloutCondition(&rollout.Status, *cond)

	dep := deploymentDemo.DeepCopy()
	rs1 := rsDemo.DeepCopy()
	rs2 := rsDemo.DeepCopy()
	rs2.Name = "echoserver-2"
	rs2.Labels["pod-template-hash"] = "pod-template-hash-v2"
	rs2.Spec.Template.Spec.Containers[0].Image = "echoserver:v2"
	stable := demoService.DeepCopy()
	stable.Spec.Selector[apps.DefaultDeploymentUniqueLabelKey] = "pod-template-hash-v1"
	canary := demoService.DeepCopy()
	canary.Name = "echoserver-canary"
	canary.Spec.Selector[apps.DefaultDeploymentUniqueLabelKey] = "pod-template-hash-v2"
	ing := demoIngress.DeepCopy()
	cIng := demoIngress.DeepCopy()
	cIng.Name = "echoserver-canary"
	cIng.Annotations["nginx.ingress.kubernetes.io/canary"] = "true"
	cIng.Annotations["nginx.ingress.kubernetes.io/canary-weight"] = "50"
	cIng.Spec.Rules[0].HTTP.Paths[0].Backend.Service.Name = "echoserver-canary"
	br := batchDemo.DeepCopy()
	br.Spec.ReleasePlan.RollingStyle = v1beta1.BlueGreenRollingStyle
	br.Spec.ReleasePlan.BatchPartition = utilpointer.Int32(steps - 1)

	e := auditC05NewEnv(rollout, rs1, rs2, dep, stable, canary, ing, cIng, br)

	// one success-finalising reconcile: starts RouteTrafficToNew (patches the canary ingress to 100%, asks for a retry)
	ns := rollout.Status.DeepCopy()
	if _, err := e.r.reconcileRolloutProgressing(rollout, ns); err != nil {
		t.Fatalf("reconcileRolloutProgressing: %v", err)
	}
	rollout.Status = *ns
	if rollout.Status.BlueGreenStatus.FinalisingStep != v1beta1.FinalisingStepRouteTrafficToNew {
		t.Fatalf("expected to be in RouteTrafficToNew, got %q", rollout.Status.BlueGreenStatus.FinalisingStep)
	}

	// the user disables the rollout now
	rollout.Spec.Disabled = true
	_, ns, err := e.r.calculateRolloutStatus(rollout)
	if err != nil {
		t.Fatal(err)
	}
	rollout.Status = *ns
	if rollout.Status.Phase != v1beta1.RolloutPhaseDisabling {
		t.Fatalf("expected Disabling, got %s", rollout.Status.Phase)
	}
	for i := 0; i < 30 && rollout.Status.Phase == v1beta1.RolloutPhaseDisabling; i++ {
		ns := rollout.Status.DeepCopy()
		if _, err := e.r.reconcileRolloutDisabling(rollout, ns); err != nil {
			t.Fatal(err)
		}
		rollout.Status = *ns
	}
	if rollout.Status.Phase != v1beta1.RolloutPhaseDisabled {
		t.Fatalf("disabling did not complete: %s", rollout.Status.Phase)
	}
	l := e.leftovers()
	if len(l) < 4 {
		t.Fatalf("not reproduced, leftovers: %v", l)
	}
	fmt.Printf("REPRODUCED (C05, blue-green, success-finalising then disable): rollout phase is %s with finalisingStep=%s, "+
		"but NOTHING was cleaned up or restored: %v (and, since the BatchRelease was never finalised, the workload keeps its "+
		"control-info marker and blue-green minReadySeconds/maxSurge/progressDeadline settings and the HPA stays disabled).\n",
		rollout.Status.Phase, rollout.Status.BlueGreenStatus.FinalisingStep, l)
}
