// dest: pkg/controller/batchrelease/control/bluegreenstyle/deployment/zz_audit_C05_4_test.go
package deployment

import (
	"context"
	"fmt"
	"testing"

	"github.com/openkruise/rollouts/api/v1beta1"
	partitiondeployment "github.com/openkruise/rollouts/pkg/controller/batchrelease/control/partitionstyle/deployment"
	"github.com/openkruise/rollouts/pkg/util"
	apps "k8s.io/api/apps/v1"
	"sigs.k8s.io/controller-runtime/pkg/client/fake"
)

// Audit C05 finding 4: a Deployment whose user-configured spec.strategy.type is Recreate does not get it back.
//
// Blue-green: Initialize (patchDeployment) overwrites spec.strategy with {type: RollingUpdate, rollingUpdate:{1,0}}.
// The saved original (rollouts.kruise.io/original-deployment-strategy, control.OriginalDeploymentStrategy) has no field
// for the strategy type, and Finalize only patches maxSurge/maxUnavailable/minReadySeconds/progressDeadlineSeconds, so
// the Deployment is released as RollingUpdate 25%/25%.
// Partition-style: Initialize sets type Recreate for every Deployment (to disable the native controller) and Finalize
// turns every Recreate into RollingUpdate, because it cannot tell "Recreate written by me" from "Recreate written by the user".
// Nothing (rollout validating webhook, workload webhook) rejects a Rollout for a Recreate Deployment.

func TestAuditC05_4_BlueGreenRecreateStrategyNotRestored(t *testing.T) {
	release := releaseDemo.DeepCopy()
	d := deploymentDemo.DeepCopy()
	d.Spec.Strategy = apps.DeploymentStrategy{Type: apps.RecreateDeploymentStrategyType} // the user's configuration
	stableRs, canaryRs := makeStableReplicaSets(d), makeCanaryReplicaSets(d)
	cli := fake.NewClientBuilder().WithScheme(scheme).WithObjects(release, d, stableRs, canaryRs).Build()

	build := func() *realController {
		c := NewController(cli, deploymentKey, d.GroupVersionKind()).(*realController)
		if _, err := c.BuildController(); err != nil {
			t.Fatal(err)
		}
		return c
	}
	if err := build().Initialize(release); err != nil {
		t.Fatal(err)
	}
	got := &apps.Deployment{}
	_ = cli.Get(context.TODO(), deploymentKey, got)
	saved := got.Annotations[v1beta1.OriginalDeploymentStrategyAnnotation]

	// the rollout ends (success / rollback / delete / disable): batchPartition=null -> Finalize
	release.Spec.ReleasePlan.BatchPartition = nil
	_ = build().Finalize(release) // a retry error ("wait all pods updated and ready") is fine, the restore patch is already applied

	_ = cli.Get(context.TODO(), deploymentKey, got)
	if got.Annotations[util.BatchReleaseControlAnnotation] != "" || got.Annotations[v1beta1.OriginalDeploymentStrategyAnnotation] != "" {
		t.Fatalf("workload not released: %v", got.Annotations)
	}
	if got.Spec.Strategy.Type == apps.RecreateDeploymentStrategyType {
		t.Fatalf("not reproduced: strategy restored")
	}
	fmt.Printf("REPRODUCED (C05, workload strategy fields not back to the user's configuration, blue-green Deployment): the user configured "+
		"spec.strategy={type: Recreate}; saved original was %s (no type); after Finalize the markers are removed and spec.strategy=%s. "+
		"The native controller will from now on roll this Deployment with old and new pods side by side, which Recreate was chosen to prevent.\n",
		saved, util.DumpJSON(got.Spec.Strategy))
}

func TestAuditC05_4_PartitionStyleRecreateStrategyNotRestored(t *testing.T) {
	release := releaseDemo.DeepCopy()
	d := deploymentDemo.DeepCopy()
	d.Spec.Paused = true // set by the workload webhook when the release starts
	d.Spec.Strategy = apps.DeploymentStrategy{Type: apps.RecreateDeploymentStrategyType} // the user's configuration
	cli := fake.NewClientBuilder().WithScheme(scheme).WithObjects(release, d).Build()

	c, err := partitiondeployment.NewController(cli, deploymentKey, d.GroupVersionKind()).BuildController()
	if err != nil {
		t.Fatal(err)
	}
	if err := c.Initialize(release); err != nil {
		t.Fatal(err)
	}
	release.Spec.ReleasePlan.BatchPartition = nil
	c, err = partitiondeployment.NewController(cli, deploymentKey, d.GroupVersionKind()).BuildController()
	if err != nil {
		t.Fatal(err)
	}
	if err := c.Finalize(release); err != nil {
		t.Fatal(err)
	}
	got := &apps.Deployment{}
	_ = cli.Get(context.TODO(), deploymentKey, got)
	if got.Annotations[util.BatchReleaseControlAnnotation] != "" {
		t.Fatalf("workload not released")
	}
	if got.Spec.Strategy.Type == apps.RecreateDeploymentStrategyType {
		t.Fatalf("not reproduced: strategy restored")
	}
	fmt.Printf("REPRODUCED (C05, partition-style Deployment): user's spec.strategy={type: Recreate} came back as %s (paused=%v)\n",
		util.DumpJSON(got.Spec.Strategy), got.Spec.Paused)
}
