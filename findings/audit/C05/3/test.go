// dest: pkg/controller/batchrelease/control/bluegreenstyle/cloneset/zz_audit_C05_3_test.go
package cloneset

import (
	"context"
	"fmt"
	"testing"

	kruiseappsv1alpha1 "github.com/openkruise/kruise-api/apps/v1alpha1"
	"github.com/openkruise/rollouts/api/v1beta1"
	"github.com/openkruise/rollouts/pkg/util"
	"k8s.io/apimachinery/pkg/util/intstr"
	"sigs.k8s.io/controller-runtime/pkg/client"
	"sigs.k8s.io/controller-runtime/pkg/client/fake"
)

// Audit C05 finding 3: blue-green CloneSet Finalize never resets spec.updateStrategy.partition.
//
// The workload webhook (pkg/webhook/workload/mutating/workload_update_handler.go:handleCloneSet) writes
// partition="100%" on EVERY effective template change of a CloneSet matched by a Rollout - the initial release and
// also the user's rollback edit in the middle of a blue-green release (handleCloneSet does not look at the
// in-progress annotation). The only blue-green code that clears partition is UpgradeBatch (UpdatePartiton(nil)).
// Finalize restores minReadySeconds/maxSurge/maxUnavailable and removes the markers but leaves partition alone
// (its partition-style sibling sets partition back to nil). So when Finalize runs with no UpgradeBatch after the
// last webhook write - rollback, or delete/disable before the first batch - the CloneSet is handed back to its native
// controller with partition=100%, a value the user never configured and that freezes native updates.

func auditC05Partition(cli client.Client) string {
	cs := &kruiseappsv1alpha1.CloneSet{}
	if err := cli.Get(context.TODO(), cloneKey, cs); err != nil {
		panic(err)
	}
	if cs.Spec.UpdateStrategy.Partition == nil {
		return "<nil>"
	}
	return cs.Spec.UpdateStrategy.Partition.String()
}

// what the webhook does to the CloneSet on a template change (see handleCloneSet)
func auditC05Webhook(t *testing.T, cli client.Client, image string) {
	cs := &kruiseappsv1alpha1.CloneSet{}
	if err := cli.Get(context.TODO(), cloneKey, cs); err != nil {
		t.Fatal(err)
	}
	cs.Spec.Template.Spec.Containers[0].Image = image
	cs.Spec.UpdateStrategy.Partition = &intstr.IntOrString{Type: intstr.String, StrVal: "100%"}
	if cs.Annotations == nil {
		cs.Annotations = map[string]string{}
	}
	cs.Annotations[util.InRolloutProgressingAnnotation] = `{"rolloutName":"rollout-demo"}`
	if err := cli.Update(context.TODO(), cs); err != nil {
		t.Fatal(err)
	}
}

func auditC05Build(t *testing.T, cli client.Client) *realController {
	c := NewController(cli, cloneKey, cloneDemo.GroupVersionKind()).(*realController)
	if _, err := c.BuildController(); err != nil {
		t.Fatal(err)
	}
	return c
}

func auditC05UserCloneSet() *kruiseappsv1alpha1.CloneSet {
	clone := cloneDemo.DeepCopy()
	// the user's configuration: no partition, not paused
	clone.Spec.UpdateStrategy.Type = kruiseappsv1alpha1.RecreateCloneSetUpdateStrategyType
	clone.Spec.UpdateStrategy.Partition = nil
	clone.Spec.UpdateStrategy.Paused = false
	clone.Spec.Template.Spec.Containers[0].Image = "busybox:v1"
	return clone
}

// finalize as the BatchRelease executor does: call Finalize with a freshly built controller until it returns nil
func auditC05Finalize(t *testing.T, cli client.Client, release *v1beta1.BatchRelease) {
	release = release.DeepCopy()
	release.Spec.ReleasePlan.BatchPartition = nil // rollout controller patched batchPartition:null (ResumeWorkload)
	var err error
	for i := 0; i < 3; i++ {
		if err = auditC05Build(t, cli).Finalize(release); err == nil {
			return
		}
	}
	t.Fatalf("Finalize did not complete: %v", err)
}

func TestAuditC05_3_BlueGreenCloneSetRollbackLeavesPartition(t *testing.T) {
	release := releaseDemo.DeepCopy()
	clone := auditC05UserCloneSet()
	// all pods ready and (after the rollback) of the update revision, so that Finalize's wait is satisfied
	clone.Status.UpdatedReadyReplicas = clone.Status.ReadyReplicas
	cli := fake.NewClientBuilder().WithScheme(scheme).WithObjects(release, clone, hpaDemo.DeepCopy()).Build()
	before := auditC05Partition(cli)

	auditC05Webhook(t, cli, "busybox:v2") // user releases v2 -> webhook: partition=100%, in-progress marker
	if err := auditC05Build(t, cli).Initialize(release); err != nil {
		t.Fatal(err)
	}
	c := auditC05Build(t, cli)
	ctx, err := c.CalculateBatchContext(release)
	if err != nil {
		t.Fatal(err)
	}
	if err := c.UpgradeBatch(ctx); err != nil { // first batch: maxSurge=10%, partition cleared
		t.Fatal(err)
	}
	if p := auditC05Partition(cli); p != "<nil>" {
		t.Fatalf("expected UpgradeBatch to clear partition, got %s", p)
	}
	auditC05Webhook(t, cli, "busybox:v1") // user rolls back to v1 -> webhook writes partition=100% again
	auditC05Finalize(t, cli, release)     // rollout Cancelling -> ResumeWorkload -> BatchRelease Finalize

	cs := &kruiseappsv1alpha1.CloneSet{}
	_ = cli.Get(context.TODO(), cloneKey, cs)
	if cs.Annotations[util.BatchReleaseControlAnnotation] != "" || cs.Annotations[v1beta1.OriginalDeploymentStrategyAnnotation] != "" {
		t.Fatalf("finalize did not release the workload")
	}
	after := auditC05Partition(cli)
	if after == before {
		t.Fatalf("not reproduced: partition restored to %s", after)
	}
	fmt.Printf("REPRODUCED (C05, workload partition not back to the user's configuration): blue-green CloneSet rolled back; Finalize "+
		"returned nil, control-info and original-setting markers are gone, minReadySeconds=%d maxSurge=%s are restored, but "+
		"spec.updateStrategy.partition is %s (user's value before the rollout: %s). The CloneSet is handed to its native controller "+
		"frozen: with partition=100%% it will not move any pod to a new revision.\n",
		cs.Spec.MinReadySeconds, cs.Spec.UpdateStrategy.MaxSurge.String(), after, before)
}

func TestAuditC05_3_BlueGreenCloneSetExitBeforeFirstBatchLeavesPartition(t *testing.T) {
	release := releaseDemo.DeepCopy()
	clone := auditC05UserCloneSet()
	clone.Status.UpdatedReadyReplicas = clone.Status.ReadyReplicas
	cli := fake.NewClientBuilder().WithScheme(scheme).WithObjects(release, clone).Build()
	before := auditC05Partition(cli)

	auditC05Webhook(t, cli, "busybox:v2")
	if err := auditC05Build(t, cli).Initialize(release); err != nil {
		t.Fatal(err)
	}
	// the Rollout is deleted / disabled before the BatchRelease executed its first UpgradeBatch
	auditC05Finalize(t, cli, release)
	after := auditC05Partition(cli)
	if after == before {
		t.Fatalf("not reproduced: partition restored to %s", after)
	}
	fmt.Printf("REPRODUCED (C05, rollout deleted/disabled right after blue-green Initialize): workload released from control with "+
		"partition=%s (user's value: %s); the native CloneSet controller will never roll the pods to the user's desired revision v2.\n",
		after, before)
}
