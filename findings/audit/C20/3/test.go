// dest: api/v1alpha1/zz_audit_C20_3_test.go
package v1alpha1

// Audit C20, finding 3: the TrafficRouting reference of a canary-strategy v1beta1
// Rollout does not survive a no-op read-modify-write through v1alpha1.
// v1alpha1 expresses spec.strategy.canary.trafficRoutingRef as the annotation
// rollouts.kruise.io/trafficrouting. ConvertTo copies annotation -> field but leaves
// the annotation in the v1beta1 metadata, and ConvertFrom copies field -> annotation
// only when the field is non-empty and never removes a left-over annotation. So the
// two carriers of the same information can disagree in the stored object, and each
// conversion "heals" the disagreement by resurrecting the value that was cleared.

import (
	"encoding/json"
	"fmt"
	"testing"

	"github.com/openkruise/rollouts/api/v1beta1"
	"k8s.io/apimachinery/pkg/util/intstr"
)

func auditC20n3Stored(annotations map[string]string, ref string) *v1beta1.Rollout {
	replicas := intstr.FromString("20%")
	r := &v1beta1.Rollout{}
	r.Name, r.Namespace = "demo", "default"
	r.Annotations = annotations
	r.Spec.WorkloadRef = v1beta1.ObjectRef{APIVersion: "apps/v1", Kind: "Deployment", Name: "demo"}
	r.Spec.Strategy.Canary = &v1beta1.CanaryStrategy{
		Steps:             []v1beta1.CanaryStep{{Replicas: &replicas}},
		TrafficRoutingRef: ref,
	}
	return r
}

// read through v1alpha1, send the object back unchanged, store as v1beta1
func auditC20n3NoopRoundTrip(t *testing.T, stored *v1beta1.Rollout) *v1beta1.Rollout {
	// the conversion webhook always works on freshly decoded objects
	wire, _ := json.Marshal(stored)
	fresh := &v1beta1.Rollout{}
	if err := json.Unmarshal(wire, fresh); err != nil {
		t.Fatal(err)
	}
	view := &Rollout{}
	if err := view.ConvertFrom(fresh); err != nil {
		t.Fatalf("ConvertFrom: %v", err)
	}
	wire, _ = json.Marshal(view)
	sent := &Rollout{}
	if err := json.Unmarshal(wire, sent); err != nil {
		t.Fatal(err)
	}
	out := &v1beta1.Rollout{}
	if err := sent.ConvertTo(out); err != nil {
		t.Fatalf("ConvertTo: %v", err)
	}
	return out
}

func TestAuditC20_3_ClearedTrafficRoutingRefResurrectedFromStaleAnnotation(t *testing.T) {
	// History: the Rollout was created through v1alpha1 with the annotation ...
	created := &Rollout{}
	created.Name, created.Namespace = "demo", "default"
	created.Annotations = map[string]string{TrafficRoutingAnnotation: "tr-demo", RolloutStyleAnnotation: "partition"}
	w := int32(20)
	created.Spec.ObjectRef.WorkloadRef = &WorkloadRef{APIVersion: "apps/v1", Kind: "Deployment", Name: "demo"}
	created.Spec.Strategy.Canary = &CanaryStrategy{Steps: []CanaryStep{{TrafficRoutingStrategy: TrafficRoutingStrategy{Weight: &w}}}}
	stored := &v1beta1.Rollout{}
	if err := created.ConvertTo(stored); err != nil {
		t.Fatal(err)
	}
	if stored.Spec.Strategy.Canary.TrafficRoutingRef != "tr-demo" || stored.Annotations[TrafficRoutingAnnotation] != "tr-demo" {
		t.Fatalf("unexpected stored object: ref=%q annotations=%v", stored.Spec.Strategy.Canary.TrafficRoutingRef, stored.Annotations)
	}
	// ... then a v1beta1 client detaches the TrafficRouting in the v1beta1 way: it clears the field.
	stored.Spec.Strategy.Canary.TrafficRoutingRef = ""

	after := auditC20n3NoopRoundTrip(t, stored)
	if after.Spec.Strategy.Canary.TrafficRoutingRef == "" {
		t.Fatalf("defect not present: trafficRoutingRef stayed empty")
	}
	fmt.Printf("REPRODUCED C20 (a canary-strategy v1beta1 object survives a read-modify-write through v1alpha1; traffic routing references): "+
		"v1beta1 Rollout with spec.strategy.canary.trafficRoutingRef=\"\" (cleared by a v1beta1 client, annotation %s=tr-demo left over from its v1alpha1 creation) "+
		"comes back from a no-op v1alpha1 round trip with trafficRoutingRef=%q\n", TrafficRoutingAnnotation, after.Spec.Strategy.Canary.TrafficRoutingRef)
}

func TestAuditC20_3_RemovedTrafficRoutingAnnotationResurrectedFromField(t *testing.T) {
	// The controller (pkg/controller/rollout/rollout_progressing.go) only looks at the
	// annotation of the v1beta1 object, so a v1beta1 user detaches a TrafficRouting by
	// removing the annotation. The field still says tr-demo.
	stored := auditC20n3Stored(nil, "tr-demo")

	after := auditC20n3NoopRoundTrip(t, stored)
	if _, ok := after.Annotations[TrafficRoutingAnnotation]; !ok {
		t.Fatalf("defect not present: annotation not re-created")
	}
	fmt.Printf("REPRODUCED C20 (a canary-strategy v1beta1 object survives a read-modify-write through v1alpha1; traffic routing references): "+
		"v1beta1 Rollout without the %s annotation (trafficRoutingRef=tr-demo) comes back from a no-op v1alpha1 round trip with "+
		"metadata.annotations[%s]=%q, the key the rollout controller acts on - the detached TrafficRouting is attached again\n",
		TrafficRoutingAnnotation, TrafficRoutingAnnotation, after.Annotations[TrafficRoutingAnnotation])
}
