// dest: api/v1alpha1/zz_audit_C20_1_test.go
package v1alpha1

// Audit C20, finding 1: ConvertTo (v1alpha1 -> v1beta1) dereferences optional
// blocks of the v1alpha1 object without a nil check and panics on objects that
// the v1alpha1 CRD schema admits:
//   - Rollout     spec.objectRef.workloadRef absent
//   - Rollout     spec.strategy.canary absent
//   - BatchRelease spec.targetReference.workloadRef absent
// The first shape is not exotic: it is exactly what Rollout.ConvertFrom itself
// produces for every blue-green v1beta1 Rollout, so any read-modify-write of a
// blue-green Rollout through the v1alpha1 endpoint crashes the converter.

import (
	"encoding/json"
	"fmt"
	"os"
	"testing"

	"github.com/openkruise/rollouts/api/v1beta1"
	"k8s.io/apimachinery/pkg/util/intstr"
	"sigs.k8s.io/controller-runtime/pkg/conversion"
	"sigs.k8s.io/yaml"
)

// auditC20n1SchemaViolations checks the structural part of the generated CRD
// schema (required keys and property types) for one served version.
func auditC20n1SchemaViolations(t *testing.T, crdFile, version string, obj interface{}) []string {
	raw, err := os.ReadFile(crdFile)
	if err != nil {
		t.Fatalf("read CRD: %v", err)
	}
	crd := map[string]interface{}{}
	if err := yaml.Unmarshal(raw, &crd); err != nil {
		t.Fatalf("parse CRD: %v", err)
	}
	var schema map[string]interface{}
	for _, v := range crd["spec"].(map[string]interface{})["versions"].([]interface{}) {
		vm := v.(map[string]interface{})
		if vm["name"] == version {
			schema = vm["schema"].(map[string]interface{})["openAPIV3Schema"].(map[string]interface{})
		}
	}
	if schema == nil {
		t.Fatalf("version %s not in %s", version, crdFile)
	}
	b, err := json.Marshal(obj)
	if err != nil {
		t.Fatalf("marshal: %v", err)
	}
	var u interface{}
	if err := json.Unmarshal(b, &u); err != nil {
		t.Fatalf("unmarshal: %v", err)
	}
	var out []string
	var walk func(path string, s map[string]interface{}, v interface{})
	walk = func(path string, s map[string]interface{}, v interface{}) {
		switch s["type"] {
		case "object":
			m, ok := v.(map[string]interface{})
			if !ok {
				out = append(out, path+": not an object")
				return
			}
			if req, ok := s["required"].([]interface{}); ok {
				for _, k := range req {
					if _, present := m[k.(string)]; !present {
						out = append(out, path+"."+k.(string)+": required")
					}
				}
			}
			props, _ := s["properties"].(map[string]interface{})
			for k, sub := range props {
				if child, present := m[k]; present && path+"."+k != ".metadata" {
					walk(path+"."+k, sub.(map[string]interface{}), child)
				}
			}
		case "array":
			l, ok := v.([]interface{})
			if !ok {
				out = append(out, path+": not an array")
				return
			}
			if items, ok := s["items"].(map[string]interface{}); ok {
				for i, e := range l {
					walk(fmt.Sprintf("%s[%d]", path, i), items, e)
				}
			}
		case "string":
			if _, ok := v.(string); !ok {
				out = append(out, path+": not a string")
			}
		case "boolean":
			if _, ok := v.(bool); !ok {
				out = append(out, path+": not a boolean")
			}
		case "integer":
			if _, ok := v.(float64); !ok {
				out = append(out, path+": not a number")
			}
		}
	}
	walk("", schema, u)
	return out
}

func auditC20n1ConvertToPanics(src conversion.Convertible, dst conversion.Hub) (panicked bool, msg string) {
	defer func() {
		if r := recover(); r != nil {
			panicked = true
			msg = fmt.Sprint(r)
		}
	}()
	if err := src.ConvertTo(dst); err != nil {
		return false, "error: " + err.Error()
	}
	return false, ""
}

const (
	auditC20n1RolloutCRD = "../../config/crd/bases/rollouts.kruise.io_rollouts.yaml"
	auditC20n1BRCRD      = "../../config/crd/bases/rollouts.kruise.io_batchreleases.yaml"
)

func TestAuditC20_1_RolloutConvertToPanicsWithoutWorkloadRef(t *testing.T) {
	src := &Rollout{}
	manifest := `{"apiVersion":"rollouts.kruise.io/v1alpha1","kind":"Rollout","metadata":{"name":"demo","namespace":"default"},
	  "spec":{"objectRef":{},"strategy":{"canary":{"steps":[{"weight":20,"pause":{}}]}}}}`
	if err := json.Unmarshal([]byte(manifest), src); err != nil {
		t.Fatal(err)
	}
	if v := auditC20n1SchemaViolations(t, auditC20n1RolloutCRD, "v1alpha1", src); len(v) != 0 {
		t.Fatalf("input is not admitted by the v1alpha1 schema, test is void: %v", v)
	}
	panicked, msg := auditC20n1ConvertToPanics(src, &v1beta1.Rollout{})
	if !panicked {
		t.Fatalf("defect not present: ConvertTo returned without panic (%s)", msg)
	}
	fmt.Printf("REPRODUCED C20 (converting never fails or crashes on any object either version's schema admits): "+
		"a v1alpha1 Rollout with spec.objectRef={} (workloadRef is optional in the CRD) makes Rollout.ConvertTo panic: %s\n", msg)
}

func TestAuditC20_1_RolloutConvertToPanicsWithoutCanary(t *testing.T) {
	src := &Rollout{}
	manifest := `{"apiVersion":"rollouts.kruise.io/v1alpha1","kind":"Rollout","metadata":{"name":"demo","namespace":"default"},
	  "spec":{"objectRef":{"workloadRef":{"apiVersion":"apps/v1","kind":"Deployment","name":"demo"}},"strategy":{"paused":true}}}`
	if err := json.Unmarshal([]byte(manifest), src); err != nil {
		t.Fatal(err)
	}
	if v := auditC20n1SchemaViolations(t, auditC20n1RolloutCRD, "v1alpha1", src); len(v) != 0 {
		t.Fatalf("input is not admitted by the v1alpha1 schema, test is void: %v", v)
	}
	panicked, msg := auditC20n1ConvertToPanics(src, &v1beta1.Rollout{})
	if !panicked {
		t.Fatalf("defect not present: ConvertTo returned without panic (%s)", msg)
	}
	fmt.Printf("REPRODUCED C20 (converting never fails or crashes ...): "+
		"a v1alpha1 Rollout with spec.strategy={paused:true} (canary is +optional) makes Rollout.ConvertTo panic: %s\n", msg)
}

func TestAuditC20_1_BatchReleaseConvertToPanicsWithoutWorkloadRef(t *testing.T) {
	src := &BatchRelease{}
	manifest := `{"apiVersion":"rollouts.kruise.io/v1alpha1","kind":"BatchRelease","metadata":{"name":"demo","namespace":"default"},
	  "spec":{"targetReference":{},"releasePlan":{"batches":[{"canaryReplicas":"10%"}],"enableExtraWorkloadForCanary":false}}}`
	if err := json.Unmarshal([]byte(manifest), src); err != nil {
		t.Fatal(err)
	}
	if v := auditC20n1SchemaViolations(t, auditC20n1BRCRD, "v1alpha1", src); len(v) != 0 {
		t.Fatalf("input is not admitted by the v1alpha1 schema, test is void: %v", v)
	}
	panicked, msg := auditC20n1ConvertToPanics(src, &v1beta1.BatchRelease{})
	if !panicked {
		t.Fatalf("defect not present: ConvertTo returned without panic (%s)", msg)
	}
	fmt.Printf("REPRODUCED C20 (converting never fails or crashes ...): "+
		"a v1alpha1 BatchRelease with spec.targetReference={} (workloadRef is optional in the CRD) makes BatchRelease.ConvertTo panic: %s\n", msg)
}

// The realistic history: a blue-green Rollout stored as v1beta1 is read through
// v1alpha1 (ConvertFrom deliberately returns only the metadata), the client
// changes nothing but a label / patches the status (old kubectl-kruise
// "rollout approve" talks v1alpha1) and the API server converts the result
// back to the storage version.
func TestAuditC20_1_BlueGreenReadModifyWriteThroughV1alpha1Panics(t *testing.T) {
	replicas := intstr.FromString("50%")
	stored := &v1beta1.Rollout{}
	stored.Name, stored.Namespace = "bg", "default"
	stored.Spec.WorkloadRef = v1beta1.ObjectRef{APIVersion: "apps/v1", Kind: "Deployment", Name: "bg"}
	stored.Spec.Strategy.BlueGreen = &v1beta1.BlueGreenStrategy{
		Steps: []v1beta1.CanaryStep{{Replicas: &replicas}},
	}

	read := &Rollout{}
	if err := read.ConvertFrom(stored); err != nil {
		t.Fatalf("ConvertFrom: %v", err)
	}
	// what the v1alpha1 client receives and sends back
	wire, _ := json.Marshal(read)
	back := &Rollout{}
	if err := json.Unmarshal(wire, back); err != nil {
		t.Fatal(err)
	}
	if back.Labels == nil {
		back.Labels = map[string]string{}
	}
	back.Labels["touched"] = "true"
	if v := auditC20n1SchemaViolations(t, auditC20n1RolloutCRD, "v1alpha1", back); len(v) != 0 {
		t.Fatalf("the v1alpha1 view of a blue-green rollout is not admitted by the v1alpha1 schema, test is void: %v", v)
	}
	panicked, msg := auditC20n1ConvertToPanics(back, &v1beta1.Rollout{})
	if !panicked {
		t.Fatalf("defect not present: ConvertTo returned without panic (%s)", msg)
	}
	fmt.Printf("REPRODUCED C20 (converting never fails or crashes ...): the v1alpha1 view of a blue-green v1beta1 Rollout is %s ; "+
		"it passes the v1alpha1 schema, and writing it back (label edit, status patch) makes Rollout.ConvertTo panic: %s\n", string(wire), msg)
}
