// dest: api/v1alpha1/zz_audit_C20_2_test.go
package v1alpha1

// Audit C20, finding 2: Rollout.ConvertFrom (v1beta1 -> v1alpha1) panics on a
// v1beta1 Rollout whose spec.strategy carries neither `canary` nor `blueGreen`.
// Both blocks are +optional in the v1beta1 CRD schema, so the object is admitted
// by the schema; ConvertFrom asks IsCanaryStragegy() -> GetRollingStyle(), which
// dereferences r.Canary unconditionally.

import (
	"encoding/json"
	"fmt"
	"os"
	"testing"

	"github.com/openkruise/rollouts/api/v1beta1"
	"sigs.k8s.io/yaml"
)

// auditC20n2MissingRequired walks the generated CRD schema of one served version
// and reports `required` keys that are missing from obj.
func auditC20n2MissingRequired(t *testing.T, crdFile, version string, obj interface{}) []string {
	raw, err := os.ReadFile(crdFile)
	if err != nil {
		t.Fatalf("read CRD: %v", err)
	}
	crd := map[string]interface{}{}
	if err := yaml.Unmarshal(raw, &crd); err != nil {
		t.Fatalf("parse CRD: %v", err)
	}
	var schema map[string]interface{}
	for _, v := range crd["spec"].(map[string]interface{})["versions"].([]interface{}) {
		vm := v.(map[string]interface{})
		if vm["name"] == version {
			schema = vm["schema"].(map[string]interface{})["openAPIV3Schema"].(map[string]interface{})
		}
	}
	if schema == nil {
		t.Fatalf("version %s not in %s", version, crdFile)
	}
	b, _ := json.Marshal(obj)
	var u interface{}
	_ = json.Unmarshal(b, &u)
	var out []string
	var walk func(path string, s map[string]interface{}, v interface{})
	walk = func(path string, s map[string]interface{}, v interface{}) {
		switch s["type"] {
		case "object":
			m, ok := v.(map[string]interface{})
			if !ok {
				out = append(out, path+": not an object")
				return
			}
			if req, ok := s["required"].([]interface{}); ok {
				for _, k := range req {
					if _, present := m[k.(string)]; !present {
						out = append(out, path+"."+k.(string)+": required")
					}
				}
			}
			props, _ := s["properties"].(map[string]interface{})
			for k, sub := range props {
				if child, present := m[k]; present && path+"."+k != ".metadata" {
					walk(path+"."+k, sub.(map[string]interface{}), child)
				}
			}
		case "array":
			if l, ok := v.([]interface{}); ok {
				if items, ok := s["items"].(map[string]interface{}); ok {
					for i, e := range l {
						walk(fmt.Sprintf("%s[%d]", path, i), items, e)
					}
				}
			}
		}
	}
	walk("", schema, u)
	return out
}

func TestAuditC20_2_RolloutConvertFromPanicsOnEmptyStrategy(t *testing.T) {
	stored := &v1beta1.Rollout{}
	manifest := `{"apiVersion":"rollouts.kruise.io/v1beta1","kind":"Rollout","metadata":{"name":"demo","namespace":"default"},
	  "spec":{"workloadRef":{"apiVersion":"apps/v1","kind":"Deployment","name":"demo"},"strategy":{"paused":true}}}`
	if err := json.Unmarshal([]byte(manifest), stored); err != nil {
		t.Fatal(err)
	}
	if v := auditC20n2MissingRequired(t, "../../config/crd/bases/rollouts.kruise.io_rollouts.yaml", "v1beta1", stored); len(v) != 0 {
		t.Fatalf("input is not admitted by the v1beta1 schema, test is void: %v", v)
	}

	panicked, msg := func() (p bool, m string) {
		defer func() {
			if r := recover(); r != nil {
				p, m = true, fmt.Sprint(r)
			}
		}()
		dst := &Rollout{}
		if err := dst.ConvertFrom(stored); err != nil {
			return false, "error: " + err.Error()
		}
		return false, ""
	}()
	if !panicked {
		t.Fatalf("defect not present: ConvertFrom returned without panic (%s)", msg)
	}
	fmt.Printf("REPRODUCED C20 (converting never fails or crashes on any object either version's schema admits): "+
		"a v1beta1 Rollout with spec.strategy={paused:true} (neither canary nor blueGreen; both are optional in the CRD) "+
		"makes Rollout.ConvertFrom panic in RolloutStrategy.GetRollingStyle: %s\n", msg)
}
