// dest: pkg/controller/rollout/zz_audit_C03_3_test.go
package rollout

import (
	"context"
	"testing"
	"time"

	"github.com/openkruise/rollouts/api/v1beta1"
	"github.com/openkruise/rollouts/pkg/trafficrouting"
	"github.com/openkruise/rollouts/pkg/util"
	"github.com/openkruise/rollouts/pkg/util/grace"
	corev1 "k8s.io/api/core/v1"
	netv1 "k8s.io/api/networking/v1"
	"k8s.io/apimachinery/pkg/api/errors"
	metav1 "k8s.io/apimachinery/pkg/apis/meta/v1"
	"k8s.io/apimachinery/pkg/types"
	"k8s.io/apimachinery/pkg/util/intstr"
	"k8s.io/client-go/tools/record"
	utilpointer "k8s.io/utils/pointer"
	"sigs.k8s.io/controller-runtime/pkg/client"
	"sigs.k8s.io/controller-runtime/pkg/client/fake"
)

const (
	auditC03StableF3 = "stable-v1"
	auditC03CanaryF3 = "canary-v2"
	auditC03RevKeyF3 = "controller-revision-hash"
)

func auditC03WorkloadF3(replicas int32) *util.Workload {
	return &util.Workload{
		ObjectMeta:           metav1.ObjectMeta{Name: "echoserver", Namespace: "default", Labels: map[string]string{}},
		Replicas:             replicas,
		StableRevision:       auditC03StableF3,
		CanaryRevision:       auditC03CanaryF3,
		PodTemplateHash:      auditC03CanaryF3,
		RevisionLabelKey:     auditC03RevKeyF3,
		InRolloutProgressing: true,
		IsStatusConsistent:   true,
	}
}

// partition-style canary Rollout on a CloneSet
func auditC03CanaryRolloutF3(steps []v1beta1.CanaryStep, graceSeconds int32) *v1beta1.Rollout {
	r := rolloutDemo.DeepCopy()
	r.Namespace = "default"
	r.UID = "audit-c03-rollout-uid"
	r.Spec.WorkloadRef = v1beta1.ObjectRef{APIVersion: "apps.kruise.io/v1alpha1", Kind: "CloneSet", Name: "echoserver"}
	r.Spec.Strategy.Canary.EnableExtraWorkloadForCanary = false
	r.Spec.Strategy.Canary.Steps = steps
	r.Spec.Strategy.Canary.TrafficRoutings[0].GracePeriodSeconds = graceSeconds
	r.Status.CanaryStatus = &v1beta1.CanaryStatus{}
	r.Status.CanaryStatus.StableRevision = auditC03StableF3
	r.Status.CanaryStatus.CanaryRevision = auditC03CanaryF3
	r.Status.CanaryStatus.PodTemplateHash = auditC03CanaryF3
	r.Status.CanaryStatus.ObservedRolloutID = auditC03CanaryF3
	r.Status.CanaryStatus.CurrentStepIndex = 1
	r.Status.CanaryStatus.NextStepIndex = 2
	r.Status.CanaryStatus.CurrentStepState = v1beta1.CanaryStepStateInit
	return r
}

func auditC03EnvF3(t *testing.T, rollout *v1beta1.Rollout) (client.Client, *RolloutReconciler) {
	svc := demoService.DeepCopy()
	svc.Namespace = "default"
	svc.UID = types.UID("audit-c03-svc-" + t.Name())
	ing := demoIngress.DeepCopy()
	ing.Namespace = "default"
	fc := fake.NewClientBuilder().WithScheme(scheme).WithObjects(rollout, demoConf.DeepCopy(), svc, ing).Build()
	r := &RolloutReconciler{
		Client:                fc,
		Scheme:                scheme,
		Recorder:              record.NewFakeRecorder(1000),
		finder:                util.NewControllerFinder(fc),
		trafficRoutingManager: trafficrouting.NewTrafficRoutingManager(fc),
	}
	r.canaryManager = &canaryReleaseManager{Client: fc, trafficRoutingManager: r.trafficRoutingManager, recorder: r.Recorder}
	r.blueGreenManager = &blueGreenReleaseManager{Client: fc, trafficRoutingManager: r.trafficRoutingManager, recorder: r.Recorder}
	return fc, r
}

func auditC03StableSelectorF3(t *testing.T, fc client.Client) string {
	svc := &corev1.Service{}
	if err := fc.Get(context.TODO(), types.NamespacedName{Namespace: "default", Name: "echoserver"}, svc); err != nil {
		t.Fatalf("get stable svc: %v", err)
	}
	return svc.Spec.Selector[auditC03RevKeyF3]
}

// returns (exists, canary-weight annotation)
func auditC03CanaryWeightF3(t *testing.T, fc client.Client) (bool, string) {
	ing := &netv1.Ingress{}
	err := fc.Get(context.TODO(), types.NamespacedName{Namespace: "default", Name: "echoserver-canary"}, ing)
	if errors.IsNotFound(err) {
		return false, ""
	} else if err != nil {
		t.Fatalf("get canary ingress: %v", err)
	}
	return true, ing.Annotations["nginx.ingress.kubernetes.io/canary-weight"]
}

// Finding: first step configures traffic AND needs all replicas (1-replica workload, replicas "50%" rounds up to 1)
// under partition style. StepInit first calls RestoreStableService (ingress-nginx workaround) and then, because
// it is step 1, PatchStableService. The two undo each other.
func TestAuditC03FirstStepFullReplicasSelectorFlipFlop(t *testing.T) {
	grace.ResetExpectations()
	half := intstr.FromString("50%")
	full := intstr.FromString("100%")
	steps := []v1beta1.CanaryStep{
		{Replicas: &half, TrafficRoutingStrategy: v1beta1.TrafficRoutingStrategy{Traffic: utilpointer.String("20%")}},
		{Replicas: &full},
	}
	// default-like grace period (1s instead of 3s to keep the test short)
	rollout := auditC03CanaryRolloutF3(steps, 1)
	fc, r := auditC03EnvF3(t, rollout)
	status := rollout.Status.DeepCopy()
	var history []string
	for i := 0; i < 9; i++ {
		c := &RolloutContext{Rollout: rollout, NewStatus: status, Workload: auditC03WorkloadF3(1)}
		if err := r.canaryManager.runCanary(c); err != nil {
			t.Fatalf("runCanary: %v", err)
		}
		sel := auditC03StableSelectorF3(t, fc)
		if sel == "" {
			sel = "<unpinned>"
		}
		history = append(history, sel)
		if status.CanaryStatus.CurrentStepState != v1beta1.CanaryStepStateInit {
			break
		}
		time.Sleep(1100 * time.Millisecond)
	}
	flips := 0
	for i := 1; i < len(history); i++ {
		if history[i] != history[i-1] {
			flips++
		}
	}
	if status.CanaryStatus.CurrentStepState == v1beta1.CanaryStepStateInit && flips >= 3 {
		t.Logf("REPRODUCED: 1-replica workload, first step {replicas:50%%, traffic:20%%}, partition style: after %d reconciles (each after the grace period) "+
			"the rollout is still in %s and the stable Service selector[%s] was rewritten %d times: %v - the stable Service is never stably pinned before the first step's pods "+
			"are created; RestoreStableService and PatchStableService in StepInit undo each other forever", len(history), status.CanaryStatus.CurrentStepState, auditC03RevKeyF3, flips, history)
		return
	}
	t.Fatalf("not reproduced: state=%s history=%v", status.CanaryStatus.CurrentStepState, history)
}

// Same configuration, gracePeriodSeconds=0 (allowed and "respected"): StepInit now falls through, the step's pods are
// upgraded, StepTrafficRouting is skipped, and the step is reported as routed although nothing was written to the gateway.
func TestAuditC03FirstStepFullReplicasRoutedWithoutTraffic(t *testing.T) {
	grace.ResetExpectations()
	half := intstr.FromString("50%")
	full := intstr.FromString("100%")
	steps := []v1beta1.CanaryStep{
		{Replicas: &half, TrafficRoutingStrategy: v1beta1.TrafficRoutingStrategy{Traffic: utilpointer.String("20%")}},
		{Replicas: &full},
	}
	rollout := auditC03CanaryRolloutF3(steps, 0)
	fc, r := auditC03EnvF3(t, rollout)
	status := rollout.Status.DeepCopy()
	for i := 0; i < 8; i++ {
		c := &RolloutContext{Rollout: rollout, NewStatus: status, Workload: auditC03WorkloadF3(1)}
		if err := r.canaryManager.runCanary(c); err != nil {
			t.Fatalf("runCanary: %v", err)
		}
		if status.CanaryStatus.CurrentStepState == v1beta1.CanaryStepStateUpgrade {
			// play the BatchRelease controller: the single pod is upgraded and ready
			br := &v1beta1.BatchRelease{}
			if err := fc.Get(context.TODO(), types.NamespacedName{Namespace: "default", Name: rollout.Name}, br); err == nil {
				br.Status.ObservedReleasePlanHash = util.HashReleasePlanBatches(&br.Spec.ReleasePlan)
				br.Status.ObservedGeneration = br.Generation
				br.Status.CanaryStatus.CurrentBatch = 0
				br.Status.CanaryStatus.CurrentBatchState = v1beta1.ReadyBatchState
				br.Status.CanaryStatus.UpdatedReplicas = 1
				br.Status.CanaryStatus.UpdatedReadyReplicas = 1
				if err = fc.Update(context.TODO(), br); err != nil {
					t.Fatalf("update br: %v", err)
				}
			}
		}
		if status.CanaryStatus.CurrentStepState == v1beta1.CanaryStepStatePaused {
			break
		}
		if status.CanaryStatus.CurrentStepState == v1beta1.CanaryStepStateTrafficRouting {
			t.Fatalf("not reproduced: StepTrafficRouting was entered")
		}
	}
	exists, weight := auditC03CanaryWeightF3(t, fc)
	sel := auditC03StableSelectorF3(t, fc)
	canarySvcErr := fc.Get(context.TODO(), types.NamespacedName{Namespace: "default", Name: "echoserver-canary"}, &corev1.Service{})
	if status.CanaryStatus.CurrentStepState == v1beta1.CanaryStepStatePaused && weight != "20" {
		t.Logf("REPRODUCED: 1-replica workload, first step {replicas:50%%, traffic:20%%}, partition style, gracePeriodSeconds=0: step 1 is past StepTrafficRouting (state=%s, i.e. reported routed) "+
			"but the gateway was never written: canary ingress exists=%v canary-weight=%q (want 20), canary Service notFound=%v; "+
			"stable Service is pinned to %s=%q although the only pod is now the new revision (no endpoints)",
			status.CanaryStatus.CurrentStepState, exists, weight, errors.IsNotFound(canarySvcErr), auditC03RevKeyF3, sel)
		return
	}
	t.Fatalf("not reproduced: state=%s canaryIngress=%v weight=%q", status.CanaryStatus.CurrentStepState, exists, weight)
}
