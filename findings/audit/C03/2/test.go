// dest: pkg/controller/rollout/zz_audit_C03_2_test.go
package rollout

import (
	"context"
	"testing"
	"time"

	"github.com/openkruise/rollouts/api/v1beta1"
	"github.com/openkruise/rollouts/pkg/trafficrouting"
	"github.com/openkruise/rollouts/pkg/util"
	"github.com/openkruise/rollouts/pkg/util/grace"
	corev1 "k8s.io/api/core/v1"
	netv1 "k8s.io/api/networking/v1"
	"k8s.io/apimachinery/pkg/api/errors"
	metav1 "k8s.io/apimachinery/pkg/apis/meta/v1"
	"k8s.io/apimachinery/pkg/types"
	"k8s.io/apimachinery/pkg/util/intstr"
	"k8s.io/client-go/tools/record"
	utilpointer "k8s.io/utils/pointer"
	"sigs.k8s.io/controller-runtime/pkg/client"
	"sigs.k8s.io/controller-runtime/pkg/client/fake"
)

const (
	auditC03StableF2 = "stable-v1"
	auditC03CanaryF2 = "canary-v2"
	auditC03RevKeyF2 = "controller-revision-hash"
)

func auditC03WorkloadF2(replicas int32) *util.Workload {
	return &util.Workload{
		ObjectMeta:           metav1.ObjectMeta{Name: "echoserver", Namespace: "default", Labels: map[string]string{}},
		Replicas:             replicas,
		StableRevision:       auditC03StableF2,
		CanaryRevision:       auditC03CanaryF2,
		PodTemplateHash:      auditC03CanaryF2,
		RevisionLabelKey:     auditC03RevKeyF2,
		InRolloutProgressing: true,
		IsStatusConsistent:   true,
	}
}

// partition-style canary Rollout on a CloneSet
func auditC03CanaryRolloutF2(steps []v1beta1.CanaryStep, graceSeconds int32) *v1beta1.Rollout {
	r := rolloutDemo.DeepCopy()
	r.Namespace = "default"
	r.UID = "audit-c03-rollout-uid"
	r.Spec.WorkloadRef = v1beta1.ObjectRef{APIVersion: "apps.kruise.io/v1alpha1", Kind: "CloneSet", Name: "echoserver"}
	r.Spec.Strategy.Canary.EnableExtraWorkloadForCanary = false
	r.Spec.Strategy.Canary.Steps = steps
	r.Spec.Strategy.Canary.TrafficRoutings[0].GracePeriodSeconds = graceSeconds
	r.Status.CanaryStatus = &v1beta1.CanaryStatus{}
	r.Status.CanaryStatus.StableRevision = auditC03StableF2
	r.Status.CanaryStatus.CanaryRevision = auditC03CanaryF2
	r.Status.CanaryStatus.PodTemplateHash = auditC03CanaryF2
	r.Status.CanaryStatus.ObservedRolloutID = auditC03CanaryF2
	r.Status.CanaryStatus.CurrentStepIndex = 1
	r.Status.CanaryStatus.NextStepIndex = 2
	r.Status.CanaryStatus.CurrentStepState = v1beta1.CanaryStepStateInit
	return r
}

func auditC03EnvF2(t *testing.T, rollout *v1beta1.Rollout) (client.Client, *RolloutReconciler) {
	svc := demoService.DeepCopy()
	svc.Namespace = "default"
	svc.UID = types.UID("audit-c03-svc-" + t.Name())
	ing := demoIngress.DeepCopy()
	ing.Namespace = "default"
	fc := fake.NewClientBuilder().WithScheme(scheme).WithObjects(rollout, demoConf.DeepCopy(), svc, ing).Build()
	r := &RolloutReconciler{
		Client:                fc,
		Scheme:                scheme,
		Recorder:              record.NewFakeRecorder(1000),
		finder:                util.NewControllerFinder(fc),
		trafficRoutingManager: trafficrouting.NewTrafficRoutingManager(fc),
	}
	r.canaryManager = &canaryReleaseManager{Client: fc, trafficRoutingManager: r.trafficRoutingManager, recorder: r.Recorder}
	r.blueGreenManager = &blueGreenReleaseManager{Client: fc, trafficRoutingManager: r.trafficRoutingManager, recorder: r.Recorder}
	return fc, r
}

func auditC03StableSelectorF2(t *testing.T, fc client.Client) string {
	svc := &corev1.Service{}
	if err := fc.Get(context.TODO(), types.NamespacedName{Namespace: "default", Name: "echoserver"}, svc); err != nil {
		t.Fatalf("get stable svc: %v", err)
	}
	return svc.Spec.Selector[auditC03RevKeyF2]
}

// returns (exists, canary-weight annotation)
func auditC03CanaryWeightF2(t *testing.T, fc client.Client) (bool, string) {
	ing := &netv1.Ingress{}
	err := fc.Get(context.TODO(), types.NamespacedName{Namespace: "default", Name: "echoserver-canary"}, ing)
	if errors.IsNotFound(err) {
		return false, ""
	} else if err != nil {
		t.Fatalf("get canary ingress: %v", err)
	}
	return true, ing.Annotations["nginx.ingress.kubernetes.io/canary-weight"]
}

// Finding: step jump to a step with equal replicas goes straight to StepTrafficRouting, even though the
// step we jump away from never finished (or never started) StepUpgrade.
// history: 3 steps, all replicas=2, traffic 5% / 20% / 50%. Rollout is at step 1, state StepUpgrade,
// BatchRelease not Ready (0 updated-ready pods). User sets status.canaryStatus.nextStepIndex=3.
func TestAuditC03JumpSkipsUpgradeAndRoutesTrafficToUnreadyCanary(t *testing.T) {
	grace.ResetExpectations()
	two := intstr.FromInt(2)
	steps := []v1beta1.CanaryStep{
		{Replicas: &two, TrafficRoutingStrategy: v1beta1.TrafficRoutingStrategy{Traffic: utilpointer.String("5%")}},
		{Replicas: &two, TrafficRoutingStrategy: v1beta1.TrafficRoutingStrategy{Traffic: utilpointer.String("20%")}},
		{Replicas: &two, TrafficRoutingStrategy: v1beta1.TrafficRoutingStrategy{Traffic: utilpointer.String("50%")}},
	}
	rollout := auditC03CanaryRolloutF2(steps, 0)
	rollout.Status.CanaryStatus.CurrentStepState = v1beta1.CanaryStepStateUpgrade
	// the user's jump request
	rollout.Status.CanaryStatus.NextStepIndex = 3
	fc, r := auditC03EnvF2(t, rollout)

	// BatchRelease of step 1 exists and is NOT ready: it is still upgrading, no updated pod is ready
	br := r.canaryManager.createBatchRelease(rollout, auditC03CanaryF2, 0, false)
	br.Status.CanaryStatus.CurrentBatch = 0
	br.Status.CanaryStatus.CurrentBatchState = v1beta1.UpgradingBatchState
	br.Status.CanaryStatus.UpdatedReplicas = 0
	br.Status.CanaryStatus.UpdatedReadyReplicas = 0
	if err := fc.Create(context.TODO(), br); err != nil {
		t.Fatalf("create br: %v", err)
	}

	status := rollout.Status.DeepCopy()
	routed := false
	for i := 0; i < 12; i++ {
		c := &RolloutContext{Rollout: rollout, NewStatus: status, Workload: auditC03WorkloadF2(10)}
		if err := r.canaryManager.runCanary(c); err != nil {
			t.Fatalf("runCanary: %v", err)
		}
		if status.CanaryStatus.CurrentStepState == v1beta1.CanaryStepStateUpgrade || status.CanaryStatus.CurrentStepState == v1beta1.CanaryStepStateInit {
			t.Fatalf("not reproduced: controller went back to %s", status.CanaryStatus.CurrentStepState)
		}
		if status.CanaryStatus.CurrentStepState == v1beta1.CanaryStepStateMetricsAnalysis ||
			status.CanaryStatus.CurrentStepState == v1beta1.CanaryStepStatePaused {
			routed = true
			break
		}
		// let the traffic grace period elapse (simulated passage of time)
		if status.CanaryStatus.LastUpdateTime != nil {
			status.CanaryStatus.LastUpdateTime = &metav1.Time{Time: time.Now().Add(-time.Minute)}
		}
	}
	exists, weight := auditC03CanaryWeightF2(t, fc)
	gotBr := &v1beta1.BatchRelease{}
	_ = fc.Get(context.TODO(), types.NamespacedName{Namespace: "default", Name: rollout.Name}, gotBr)
	if routed && exists && weight == "50" && gotBr.Status.CanaryStatus.CurrentBatchState != v1beta1.ReadyBatchState {
		t.Logf("REPRODUCED: step jump 1->3 (equal replicas) while step 1 was still in StepUpgrade: step %d reported routed (state=%s), "+
			"canary ingress weight=%s written while BatchRelease state=%q batchPartition=%d updatedReadyReplicas=%d canaryReadyReplicas(status)=%d - "+
			"the traffic rule was written although no new-revision pod has been reported ready",
			status.CanaryStatus.CurrentStepIndex, status.CanaryStatus.CurrentStepState, weight,
			gotBr.Status.CanaryStatus.CurrentBatchState, *gotBr.Spec.ReleasePlan.BatchPartition,
			gotBr.Status.CanaryStatus.UpdatedReadyReplicas, status.CanaryStatus.CanaryReadyReplicas)
		return
	}
	t.Fatalf("not reproduced: routed=%v canaryIngress=%v weight=%q state=%s", routed, exists, weight, status.CanaryStatus.CurrentStepState)
}
