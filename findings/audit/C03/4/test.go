// dest: pkg/controller/rollout/zz_audit_C03_4_test.go
package rollout

import (
	"context"
	"testing"

	"github.com/openkruise/rollouts/api/v1beta1"
	"github.com/openkruise/rollouts/pkg/trafficrouting"
	"github.com/openkruise/rollouts/pkg/util"
	"github.com/openkruise/rollouts/pkg/util/grace"
	corev1 "k8s.io/api/core/v1"
	netv1 "k8s.io/api/networking/v1"
	"k8s.io/apimachinery/pkg/api/errors"
	metav1 "k8s.io/apimachinery/pkg/apis/meta/v1"
	"k8s.io/apimachinery/pkg/types"
	"k8s.io/client-go/tools/record"
	utilpointer "k8s.io/utils/pointer"
	"sigs.k8s.io/controller-runtime/pkg/client"
	"sigs.k8s.io/controller-runtime/pkg/client/fake"
)

const (
	auditC03StableF4 = "stable-v1"
	auditC03CanaryF4 = "canary-v2"
	auditC03RevKeyF4 = "controller-revision-hash"
)

func auditC03WorkloadF4(replicas int32) *util.Workload {
	return &util.Workload{
		ObjectMeta:           metav1.ObjectMeta{Name: "echoserver", Namespace: "default", Labels: map[string]string{}},
		Replicas:             replicas,
		StableRevision:       auditC03StableF4,
		CanaryRevision:       auditC03CanaryF4,
		PodTemplateHash:      auditC03CanaryF4,
		RevisionLabelKey:     auditC03RevKeyF4,
		InRolloutProgressing: true,
		IsStatusConsistent:   true,
	}
}

// partition-style canary Rollout on a CloneSet
func auditC03CanaryRolloutF4(steps []v1beta1.CanaryStep, graceSeconds int32) *v1beta1.Rollout {
	r := rolloutDemo.DeepCopy()
	r.Namespace = "default"
	r.UID = "audit-c03-rollout-uid"
	r.Spec.WorkloadRef = v1beta1.ObjectRef{APIVersion: "apps.kruise.io/v1alpha1", Kind: "CloneSet", Name: "echoserver"}
	r.Spec.Strategy.Canary.EnableExtraWorkloadForCanary = false
	r.Spec.Strategy.Canary.Steps = steps
	r.Spec.Strategy.Canary.TrafficRoutings[0].GracePeriodSeconds = graceSeconds
	r.Status.CanaryStatus = &v1beta1.CanaryStatus{}
	r.Status.CanaryStatus.StableRevision = auditC03StableF4
	r.Status.CanaryStatus.CanaryRevision = auditC03CanaryF4
	r.Status.CanaryStatus.PodTemplateHash = auditC03CanaryF4
	r.Status.CanaryStatus.ObservedRolloutID = auditC03CanaryF4
	r.Status.CanaryStatus.CurrentStepIndex = 1
	r.Status.CanaryStatus.NextStepIndex = 2
	r.Status.CanaryStatus.CurrentStepState = v1beta1.CanaryStepStateInit
	return r
}

func auditC03EnvF4(t *testing.T, rollout *v1beta1.Rollout) (client.Client, *RolloutReconciler) {
	svc := demoService.DeepCopy()
	svc.Namespace = "default"
	svc.UID = types.UID("audit-c03-svc-" + t.Name())
	ing := demoIngress.DeepCopy()
	ing.Namespace = "default"
	fc := fake.NewClientBuilder().WithScheme(scheme).WithObjects(rollout, demoConf.DeepCopy(), svc, ing).Build()
	r := &RolloutReconciler{
		Client:                fc,
		Scheme:                scheme,
		Recorder:              record.NewFakeRecorder(1000),
		finder:                util.NewControllerFinder(fc),
		trafficRoutingManager: trafficrouting.NewTrafficRoutingManager(fc),
	}
	r.canaryManager = &canaryReleaseManager{Client: fc, trafficRoutingManager: r.trafficRoutingManager, recorder: r.Recorder}
	r.blueGreenManager = &blueGreenReleaseManager{Client: fc, trafficRoutingManager: r.trafficRoutingManager, recorder: r.Recorder}
	return fc, r
}

func auditC03StableSelectorF4(t *testing.T, fc client.Client) string {
	svc := &corev1.Service{}
	if err := fc.Get(context.TODO(), types.NamespacedName{Namespace: "default", Name: "echoserver"}, svc); err != nil {
		t.Fatalf("get stable svc: %v", err)
	}
	return svc.Spec.Selector[auditC03RevKeyF4]
}

// returns (exists, canary-weight annotation)
func auditC03CanaryWeightF4(t *testing.T, fc client.Client) (bool, string) {
	ing := &netv1.Ingress{}
	err := fc.Get(context.TODO(), types.NamespacedName{Namespace: "default", Name: "echoserver-canary"}, ing)
	if errors.IsNotFound(err) {
		return false, ""
	} else if err != nil {
		t.Fatalf("get canary ingress: %v", err)
	}
	return true, ing.Annotations["nginx.ingress.kubernetes.io/canary-weight"]
}

// Finding: blue-green sibling of StepInit calls PatchStableService without the DisableGenerateCanaryService guard the
// canary sibling has; PatchStableService answers (retry=true, nil) in that mode, forever.
func TestAuditC03BlueGreenDisableCanaryServiceStuckInInit(t *testing.T) {
	grace.ResetExpectations()
	rollout := rolloutDemoBlueGreen.DeepCopy()
	rollout.Namespace = "default"
	rollout.UID = "audit-c03-bg-uid"
	rollout.Spec.Strategy.BlueGreen.DisableGenerateCanaryService = true
	rollout.Spec.Strategy.BlueGreen.Steps[0].Traffic = utilpointer.String("10%")
	rollout.Status.BlueGreenStatus = &v1beta1.BlueGreenStatus{}
	rollout.Status.BlueGreenStatus.StableRevision = auditC03StableF4
	rollout.Status.BlueGreenStatus.UpdatedRevision = auditC03CanaryF4
	rollout.Status.BlueGreenStatus.PodTemplateHash = auditC03CanaryF4
	rollout.Status.BlueGreenStatus.CurrentStepIndex = 1
	rollout.Status.BlueGreenStatus.NextStepIndex = 2
	rollout.Status.BlueGreenStatus.CurrentStepState = v1beta1.CanaryStepStateInit
	fc, r := auditC03EnvF4(t, rollout)
	status := rollout.Status.DeepCopy()
	n := 25
	for i := 0; i < n; i++ {
		c := &RolloutContext{Rollout: rollout, NewStatus: status, Workload: auditC03WorkloadF4(10)}
		if err := r.blueGreenManager.runCanary(c); err != nil {
			t.Fatalf("runCanary: %v", err)
		}
		if status.BlueGreenStatus.CurrentStepState != v1beta1.CanaryStepStateInit {
			t.Fatalf("not reproduced: left StepInit after %d reconciles -> %s", i+1, status.BlueGreenStatus.CurrentStepState)
		}
	}
	brErr := fc.Get(context.TODO(), types.NamespacedName{Namespace: "default", Name: rollout.Name}, &v1beta1.BatchRelease{})
	exists, weight := auditC03CanaryWeightF4(t, fc)
	t.Logf("REPRODUCED: blue-green with disableGenerateCanaryService=true and a first step configuring traffic (10%%): after %d reconciles (gracePeriodSeconds=0) "+
		"the rollout is still in StepInit, BatchRelease notFound=%v, canary ingress exists=%v weight=%q: PatchStableService returns retry=true unconditionally, "+
		"so the step's pods are never created and its traffic rule is never written", n, errors.IsNotFound(brErr), exists, weight)
}
