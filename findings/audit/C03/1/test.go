// dest: pkg/trafficrouting/network/gateway/zz_audit_C03_1_test.go
package gateway

import (
	"context"
	"testing"

	"github.com/openkruise/rollouts/api/v1beta1"
	metav1 "k8s.io/apimachinery/pkg/apis/meta/v1"
	"k8s.io/apimachinery/pkg/runtime"
	"k8s.io/apimachinery/pkg/types"
	utilpointer "k8s.io/utils/pointer"
	"sigs.k8s.io/controller-runtime/pkg/client/fake"
	gatewayv1beta1 "sigs.k8s.io/gateway-api/apis/v1beta1"
)

func auditC03Route() *gatewayv1beta1.HTTPRoute {
	kind := gatewayv1beta1.Kind("Service")
	port := gatewayv1beta1.PortNumber(8080)
	pathType := gatewayv1beta1.PathMatchPathPrefix
	return &gatewayv1beta1.HTTPRoute{
		ObjectMeta: metav1.ObjectMeta{Namespace: "default", Name: "echo"},
		Spec: gatewayv1beta1.HTTPRouteSpec{
			Rules: []gatewayv1beta1.HTTPRouteRule{{
				Matches: []gatewayv1beta1.HTTPRouteMatch{{
					Path: &gatewayv1beta1.HTTPPathMatch{Type: &pathType, Value: utilpointer.String("/")},
				}},
				BackendRefs: []gatewayv1beta1.HTTPBackendRef{{
					BackendRef: gatewayv1beta1.BackendRef{
						BackendObjectReference: gatewayv1beta1.BackendObjectReference{Kind: &kind, Name: "echo", Port: &port},
					},
				}},
			}},
		},
	}
}

func auditC03Ensure(t *testing.T, ctrl *gatewayController, s *v1beta1.TrafficRoutingStrategy) {
	// first call writes, second call must report "verified with no change" => step reported as routed
	for i := 0; i < 3; i++ {
		ok, err := ctrl.EnsureRoutes(context.TODO(), s)
		if err != nil {
			t.Fatalf("EnsureRoutes: %v", err)
		}
		if ok {
			return
		}
	}
	t.Fatalf("EnsureRoutes never verified")
}

func auditC03Shares(route *gatewayv1beta1.HTTPRoute) (stableRules, canaryOnlyRules, mixedRules int) {
	for _, rule := range route.Spec.Rules {
		_, s := getServiceBackendRef(rule, "echo")
		_, c := getServiceBackendRef(rule, "echo-canary")
		switch {
		case s != nil && c != nil:
			mixedRules++
		case s != nil:
			stableRules++
		case c != nil:
			canaryOnlyRules++
		}
	}
	return
}

// Step plan mixing weights and matches on the Gateway API provider:
// step1 {traffic: 20%}  ->  step2 {matches: header user-agent=pc}
// After step 2 is reported routed (EnsureRoutes verified), the HTTPRoute has NO rule left at all:
// the only rule (stable 80 / canary 20) is dropped because it contains a canary backendRef.
func TestAuditC03GatewayWeightThenMatchDropsAllRules(t *testing.T) {
	scheme := runtime.NewScheme()
	_ = gatewayv1beta1.AddToScheme(scheme)
	cli := fake.NewClientBuilder().WithScheme(scheme).WithObjects(auditC03Route()).Build()
	ctrl := &gatewayController{Client: cli, conf: Config{
		Key: "audit", Namespace: "default", StableService: "echo", CanaryService: "echo-canary",
		TrafficConf: &v1beta1.GatewayTrafficRouting{HTTPRouteName: utilpointer.String("echo")},
	}}

	auditC03Ensure(t, ctrl, &v1beta1.TrafficRoutingStrategy{Traffic: utilpointer.String("20%")})
	route := &gatewayv1beta1.HTTPRoute{}
	_ = cli.Get(context.TODO(), types.NamespacedName{Namespace: "default", Name: "echo"}, route)
	if s, c, m := auditC03Shares(route); m != 1 || s != 0 || c != 0 {
		t.Fatalf("unexpected step1 layout stable=%d canaryOnly=%d mixed=%d", s, c, m)
	}

	exact := gatewayv1beta1.HeaderMatchExact
	step2 := &v1beta1.TrafficRoutingStrategy{Matches: []v1beta1.HttpRouteMatch{{
		Headers: []gatewayv1beta1.HTTPHeaderMatch{{Type: &exact, Name: "user-agent", Value: "pc"}},
	}}}
	auditC03Ensure(t, ctrl, step2)
	_ = cli.Get(context.TODO(), types.NamespacedName{Namespace: "default", Name: "echo"}, route)
	s, c, m := auditC03Shares(route)
	if len(route.Spec.Rules) == 0 {
		t.Logf("REPRODUCED: Gateway API, step plan [traffic 20%% -> header match]: after the match step is reported routed the HTTPRoute has %d rules "+
			"(stable=%d canaryOnly=%d mixed=%d): the stable rule was deleted together with the canary weight, so the canary share is not the step's header match "+
			"and the stable Service receives nothing", len(route.Spec.Rules), s, c, m)
		return
	}
	if c != 1 || s != 1 {
		t.Logf("REPRODUCED(variant): after match step rules stable=%d canaryOnly=%d mixed=%d", s, c, m)
		return
	}
	t.Fatalf("not reproduced: step2 produced stable=%d canaryOnly=%d mixed=%d", s, c, m)
}

// step1 {matches: header user-agent=pc} -> step2 {traffic: 20%}
// After step 2 is reported routed, the header rule of step 1 is still there, i.e. the canary
// share on the gateway is "20% + every request with user-agent=pc", not exactly the step's value.
func TestAuditC03GatewayMatchThenWeightKeepsStaleMatch(t *testing.T) {
	scheme := runtime.NewScheme()
	_ = gatewayv1beta1.AddToScheme(scheme)
	cli := fake.NewClientBuilder().WithScheme(scheme).WithObjects(auditC03Route()).Build()
	ctrl := &gatewayController{Client: cli, conf: Config{
		Key: "audit", Namespace: "default", StableService: "echo", CanaryService: "echo-canary",
		TrafficConf: &v1beta1.GatewayTrafficRouting{HTTPRouteName: utilpointer.String("echo")},
	}}
	exact := gatewayv1beta1.HeaderMatchExact
	step1 := &v1beta1.TrafficRoutingStrategy{Matches: []v1beta1.HttpRouteMatch{{
		Headers: []gatewayv1beta1.HTTPHeaderMatch{{Type: &exact, Name: "user-agent", Value: "pc"}},
	}}}
	auditC03Ensure(t, ctrl, step1)
	auditC03Ensure(t, ctrl, &v1beta1.TrafficRoutingStrategy{Traffic: utilpointer.String("20%")})

	route := &gatewayv1beta1.HTTPRoute{}
	_ = cli.Get(context.TODO(), types.NamespacedName{Namespace: "default", Name: "echo"}, route)
	s, c, m := auditC03Shares(route)
	if m == 1 && c == 1 {
		var hdr string
		for _, rule := range route.Spec.Rules {
			if _, sr := getServiceBackendRef(rule, "echo"); sr == nil && len(rule.Matches) > 0 && len(rule.Matches[0].Headers) > 0 {
				hdr = string(rule.Matches[0].Headers[0].Name) + "=" + rule.Matches[0].Headers[0].Value
			}
		}
		t.Logf("REPRODUCED: Gateway API, step plan [header match -> traffic 20%%]: after the weight step is reported routed the HTTPRoute still carries "+
			"the previous step's canary-only rule (header %s -> echo-canary 100%%) next to the 80/20 rule; canary share on the gateway != exactly 20%% (stable=%d canaryOnly=%d mixed=%d)", hdr, s, c, m)
		return
	}
	t.Fatalf("not reproduced: stable=%d canaryOnly=%d mixed=%d", s, c, m)
}
