// dest: pkg/controller/rollout/zz_audit_C02_3_test.go
package rollout

import (
	"context"
	"fmt"
	"testing"
	"time"

	"github.com/openkruise/rollouts/api/v1alpha1"
	"github.com/openkruise/rollouts/api/v1beta1"
	"github.com/openkruise/rollouts/pkg/trafficrouting"
	"github.com/openkruise/rollouts/pkg/util"
	metav1 "k8s.io/apimachinery/pkg/apis/meta/v1"
	"k8s.io/apimachinery/pkg/util/intstr"
	"k8s.io/client-go/tools/record"
	utilpointer "k8s.io/utils/pointer"
	"sigs.k8s.io/controller-runtime/pkg/client"
	"sigs.k8s.io/controller-runtime/pkg/client/fake"
)

// canaryReleaseManager.runCanary skips StepTrafficRouting (Upgrade -> MetricsAnalysis) when
// "expectedReplicas >= workload.Replicas && partition-style", on the ground that the compensating
// action (RestoreStableService) "has been done in the CanaryStepInit step". The two evaluations of that
// condition are made in different reconciles against the *live* workload.spec.replicas. If the workload
// is scaled down (HPA, user) to <= the step's integer `replicas` while the step is upgrading, Init did NOT
// take the bypass (no RestoreStableService) but Upgrade DOES take it: the step's traffic rule is never
// applied and nothing replaces it, and the step proceeds to Paused/Ready/next step.
func TestAuditC02TrafficRoutingSkippedAfterScaleDuringUpgrade(t *testing.T) {
	mk := func() (*canaryReleaseManager, client.Client, *v1beta1.Rollout) {
		rollout := rolloutDemo.DeepCopy()
		rollout.Spec.WorkloadRef = v1beta1.ObjectRef{APIVersion: "apps.kruise.io/v1alpha1", Kind: "CloneSet", Name: "echoserver"}
		rollout.Spec.Strategy.Canary.EnableExtraWorkloadForCanary = false // partition style
		two, eight, ten := intstr.FromInt(2), intstr.FromInt(8), intstr.FromInt(10)
		rollout.Spec.Strategy.Canary.Steps = []v1beta1.CanaryStep{
			{Replicas: &two, TrafficRoutingStrategy: v1beta1.TrafficRoutingStrategy{Traffic: utilpointer.String("10%")}},
			{Replicas: &eight, TrafficRoutingStrategy: v1beta1.TrafficRoutingStrategy{Traffic: utilpointer.String("50%")},
				Pause: v1beta1.RolloutPause{Duration: utilpointer.Int32(0)}},
			{Replicas: &ten},
		}
		// TrafficRoutings (service "echoserver" + ingress) stay configured as in rolloutDemo, but NO Service object
		// exists in the fake cluster: DoTrafficRouting can therefore never report the step's rule as applied.
		cond := util.GetRolloutCondition(rollout.Status, v1beta1.RolloutConditionProgressing)
		cond.Reason = v1alpha1.ProgressingReasonInRolling
		util.SetRolloutCondition(&rollout.Status, *cond)
		rollout.Status.CanaryStatus = &v1beta1.CanaryStatus{
			CanaryRevision: "canary-rev-v2",
			CommonStatus: v1beta1.CommonStatus{
				ObservedRolloutID: "canary-rev-v2",
				StableRevision:    "stable-v1",
				PodTemplateHash:   "pth-v2",
				CurrentStepIndex:  2,
				CurrentStepState:  v1beta1.CanaryStepStateInit,
				NextStepIndex:     3,
				LastUpdateTime:    &metav1.Time{Time: time.Now().Add(-time.Minute)},
			},
		}
		fc := fake.NewClientBuilder().WithScheme(scheme).WithObjects(rollout, demoConf.DeepCopy()).Build()
		m := &canaryReleaseManager{Client: fc, trafficRoutingManager: trafficrouting.NewTrafficRoutingManager(fc), recorder: record.NewFakeRecorder(100)}
		// BatchRelease as left by step 1
		br := m.createBatchRelease(rollout, "canary-rev-v2", 0, false)
		br.Generation = 1
		if err := fc.Create(context.TODO(), br); err != nil {
			t.Fatal(err)
		}
		return m, fc, rollout
	}
	markReady := func(fc client.Client, name string) {
		br := &v1beta1.BatchRelease{}
		if err := fc.Get(context.TODO(), client.ObjectKey{Name: name}, br); err != nil {
			t.Fatal(err)
		}
		br.Status.ObservedGeneration = br.Generation
		br.Status.ObservedReleasePlanHash = util.HashReleasePlanBatches(&br.Spec.ReleasePlan)
		br.Status.CanaryStatus.CurrentBatch = *br.Spec.ReleasePlan.BatchPartition
		br.Status.CanaryStatus.CurrentBatchState = v1beta1.ReadyBatchState
		br.Status.CanaryStatus.UpdatedReplicas = 8
		br.Status.CanaryStatus.UpdatedReadyReplicas = 8
		if err := fc.Status().Update(context.TODO(), br); err != nil {
			t.Fatal(err)
		}
	}
	run := func(m *canaryReleaseManager, rollout *v1beta1.Rollout, replicas int32, n int) []string {
		var trace []string
		w := &util.Workload{Replicas: replicas, StableRevision: "stable-v1", CanaryRevision: "canary-rev-v2", PodTemplateHash: "pth-v2", IsStatusConsistent: true}
		for i := 0; i < n; i++ {
			c := &RolloutContext{Rollout: rollout, NewStatus: rollout.Status.DeepCopy(), Workload: w}
			if err := m.runCanary(c); err != nil {
				t.Fatalf("runCanary: %v", err)
			}
			rollout.Status = *c.NewStatus
			s := rollout.Status.CanaryStatus
			trace = append(trace, fmt.Sprintf("%d/%s", s.CurrentStepIndex, s.CurrentStepState))
			time.Sleep(2 * time.Millisecond)
		}
		return trace
	}

	// control: replicas stay 10 -> the step must wait in StepTrafficRouting for ever (no Service => rule cannot be applied)
	{
		m, fc, rollout := mk()
		tr := run(m, rollout, 10, 2) // Init -> Upgrade (BatchRelease partition 1 written), still upgrading
		markReady(fc, rollout.Name)
		tr = append(tr, run(m, rollout, 10, 5)...)
		s := rollout.Status.CanaryStatus
		if s.CurrentStepIndex != 2 || s.CurrentStepState != v1beta1.CanaryStepStateTrafficRouting {
			t.Fatalf("control failed: %v", tr)
		}
		t.Logf("control trace (replicas constant): %v", tr)
	}

	m, fc, rollout := mk()
	trace := run(m, rollout, 10, 2) // step 2 Init evaluated with workload.replicas=10: 8 < 10, no RestoreStableService
	if s := rollout.Status.CanaryStatus; s.CurrentStepState != v1beta1.CanaryStepStateUpgrade {
		t.Fatalf("unexpected: %v", trace)
	}
	markReady(fc, rollout.Name)
	// the workload is scaled 10 -> 8 (e.g. by an HPA) while step 2 is upgrading
	trace = append(trace, run(m, rollout, 8, 5)...)
	s := rollout.Status.CanaryStatus
	visitedTR := false
	for _, x := range trace {
		if x == "2/"+string(v1beta1.CanaryStepStateTrafficRouting) {
			visitedTR = true
		}
	}
	if visitedTR || s.CurrentStepIndex != 3 {
		t.Fatalf("defect not present: %v", trace)
	}
	fmt.Printf("REPRODUCED C02: step 2 (replicas: 8, traffic: 50%%) went %v - it was left for step 3 without its traffic rule ever being applied "+
		"(StepTrafficRouting never entered, the stable Service does not even exist, RestoreStableService was not run in Init either), "+
		"because workload.spec.replicas changed 10->8 between the Init-time and the Upgrade-time evaluation of the 'expectedReplicas >= replicas' bypass\n", trace)
}
