// dest: pkg/controller/rollout/zz_audit_C02_1_test.go
package rollout

import (
	"context"
	"fmt"
	"testing"
	"time"

	"github.com/openkruise/rollouts/api/v1alpha1"
	"github.com/openkruise/rollouts/api/v1beta1"
	"github.com/openkruise/rollouts/pkg/trafficrouting"
	"github.com/openkruise/rollouts/pkg/util"
	metav1 "k8s.io/apimachinery/pkg/apis/meta/v1"
	"k8s.io/apimachinery/pkg/util/intstr"
	"k8s.io/client-go/tools/record"
	utilpointer "k8s.io/utils/pointer"
	"sigs.k8s.io/controller-runtime/pkg/client"
	"sigs.k8s.io/controller-runtime/pkg/client/fake"
)

// A step jump (status.nextStepIndex written by the user) onto a step that has the same `replicas`
// as the current step lands directly in StepTrafficRouting - doCanaryJump assumes that "same replicas"
// means "nothing to upgrade" and never looks at the sub-state of the step it is leaving. When the
// current step is still in StepUpgrade (BatchRelease not Ready, zero ready canary pods) the readiness
// gate of the target step is skipped for good: the target step goes TrafficRouting -> MetricsAnalysis
// -> Paused -> Ready -> next step although no step ever saw its pods upgraded and ready.

func auditC02Steps(pct ...string) []v1beta1.CanaryStep {
	var steps []v1beta1.CanaryStep
	for _, p := range pct {
		r := intstr.FromString(p)
		steps = append(steps, v1beta1.CanaryStep{Replicas: &r})
	}
	return steps
}

func auditC02NotReadyBR(rollout *v1beta1.Rollout, m ReleaseManager, partition int32) *v1beta1.BatchRelease {
	// exactly the object the controller itself would have created for this step ...
	br := m.createBatchRelease(rollout, "canary-rev-v2", partition, false)
	br.Generation = 1
	// ... observed by the BatchRelease controller, which is still upgrading the batch: nothing is ready.
	br.Status.ObservedGeneration = 1
	br.Status.ObservedReleasePlanHash = util.HashReleasePlanBatches(&br.Spec.ReleasePlan)
	br.Status.CanaryStatus.CurrentBatch = partition
	br.Status.CanaryStatus.CurrentBatchState = v1beta1.UpgradingBatchState
	br.Status.CanaryStatus.UpdatedReplicas = 1
	br.Status.CanaryStatus.UpdatedReadyReplicas = 0
	return br
}

func TestAuditC02JumpSkipsUpgradeGateCanary(t *testing.T) {
	rollout := rolloutDemo.DeepCopy()
	rollout.Spec.WorkloadRef = v1beta1.ObjectRef{APIVersion: "apps.kruise.io/v1alpha1", Kind: "CloneSet", Name: "echoserver"}
	rollout.Spec.Strategy.Canary.EnableExtraWorkloadForCanary = false
	rollout.Spec.Strategy.Canary.TrafficRoutings = nil
	// the documented "same replicas, several observation steps" layout
	rollout.Spec.Strategy.Canary.Steps = auditC02Steps("20%", "20%", "20%", "100%")
	rollout.Spec.Strategy.Canary.Steps[2].Pause = v1beta1.RolloutPause{Duration: utilpointer.Int32(0)}
	cond := util.GetRolloutCondition(rollout.Status, v1beta1.RolloutConditionProgressing)
	cond.Reason = v1alpha1.ProgressingReasonInRolling
	util.SetRolloutCondition(&rollout.Status, *cond)
	rollout.Status.CanaryStatus = &v1beta1.CanaryStatus{
		CanaryRevision: "canary-rev-v2",
		CommonStatus: v1beta1.CommonStatus{
			ObservedRolloutID: "canary-rev-v2",
			StableRevision:    "stable-v1",
			PodTemplateHash:   "pth-v2",
			CurrentStepIndex:  1,
			CurrentStepState:  v1beta1.CanaryStepStateUpgrade, // step 1 is still upgrading
			NextStepIndex:     3,                              // user jump: 1 -> 3 (natural value would be 2)
			LastUpdateTime:    &metav1.Time{Time: time.Now().Add(-time.Minute)},
		},
	}
	fc := fake.NewClientBuilder().WithScheme(scheme).WithObjects(rollout).Build()
	tm := trafficrouting.NewTrafficRoutingManager(fc)
	m := &canaryReleaseManager{Client: fc, trafficRoutingManager: tm, recorder: record.NewFakeRecorder(100)}
	if err := fc.Create(context.TODO(), auditC02NotReadyBR(rollout, m, 0)); err != nil {
		t.Fatal(err)
	}
	workload := &util.Workload{Replicas: 10, StableRevision: "stable-v1", CanaryRevision: "canary-rev-v2", PodTemplateHash: "pth-v2", IsStatusConsistent: true}

	// sanity: without the jump the controller does wait in StepUpgrade
	{
		r := rollout.DeepCopy()
		r.Status.CanaryStatus.NextStepIndex = 2
		c := &RolloutContext{Rollout: r, NewStatus: r.Status.DeepCopy(), Workload: workload}
		if err := m.runCanary(c); err != nil {
			t.Fatal(err)
		}
		if c.NewStatus.CanaryStatus.CurrentStepIndex != 1 || c.NewStatus.CanaryStatus.CurrentStepState != v1beta1.CanaryStepStateUpgrade {
			t.Fatalf("sanity failed: %s", util.DumpJSON(c.NewStatus.CanaryStatus))
		}
	}

	var trace []string
	for i := 0; i < 8; i++ {
		c := &RolloutContext{Rollout: rollout, NewStatus: rollout.Status.DeepCopy(), Workload: workload}
		if err := m.runCanary(c); err != nil {
			t.Fatalf("runCanary: %v", err)
		}
		rollout.Status = *c.NewStatus // "persist"
		s := rollout.Status.CanaryStatus
		trace = append(trace, fmt.Sprintf("%d/%s", s.CurrentStepIndex, s.CurrentStepState))
		time.Sleep(2 * time.Millisecond)
		cur := &v1beta1.BatchRelease{}
		if err := fc.Get(context.TODO(), client.ObjectKey{Name: rollout.Name}, cur); err != nil {
			t.Fatal(err)
		}
		if *cur.Spec.ReleasePlan.BatchPartition != 0 {
			break
		}
	}
	br := &v1beta1.BatchRelease{}
	if err := fc.Get(context.TODO(), client.ObjectKey{Name: rollout.Name}, br); err != nil {
		t.Fatal(err)
	}
	s := rollout.Status.CanaryStatus
	t.Logf("trace: %v ; BatchRelease status: %s ; batchPartition=%d", trace, util.DumpJSON(br.Status.CanaryStatus), *br.Spec.ReleasePlan.BatchPartition)
	if s.CurrentStepIndex != 4 || *br.Spec.ReleasePlan.BatchPartition != 3 {
		t.Fatalf("defect not present: rollout stayed gated, trace %v", trace)
	}
	if br.Status.CanaryStatus.CurrentBatchState == v1beta1.ReadyBatchState {
		t.Fatalf("test is broken: BatchRelease must never have been Ready")
	}
	fmt.Printf("REPRODUCED C02 (canary): after a user jump 1->3 issued while step 1 was still in StepUpgrade, the rollout went %v: "+
		"step 3 advanced to step 4 (and batchPartition was raised to %d) although no step's pods were ever upgraded+ready "+
		"(BatchRelease still %s at batch %d, updatedReadyReplicas=%d)\n",
		trace, *br.Spec.ReleasePlan.BatchPartition, br.Status.CanaryStatus.CurrentBatchState, br.Status.CanaryStatus.CurrentBatch, br.Status.CanaryStatus.UpdatedReadyReplicas)
}

func TestAuditC02JumpSkipsUpgradeGateBlueGreen(t *testing.T) {
	rollout := rolloutDemoBlueGreen.DeepCopy()
	rollout.Spec.Strategy.BlueGreen.TrafficRoutings = nil
	// rolloutDemoBlueGreen steps: 50%/0%, 100%/0%, 100%/50%, 100%/100%  (replicas/traffic)
	for i := range rollout.Spec.Strategy.BlueGreen.Steps {
		rollout.Spec.Strategy.BlueGreen.Steps[i].Pause = v1beta1.RolloutPause{Duration: utilpointer.Int32(0)}
	}
	cond := util.GetRolloutCondition(rollout.Status, v1beta1.RolloutConditionProgressing)
	cond.Reason = v1alpha1.ProgressingReasonInRolling
	util.SetRolloutCondition(&rollout.Status, *cond)
	rollout.Status.BlueGreenStatus = &v1beta1.BlueGreenStatus{
		UpdatedRevision: "canary-rev-v2",
		CommonStatus: v1beta1.CommonStatus{
			ObservedRolloutID: "canary-rev-v2",
			StableRevision:    "stable-v1",
			PodTemplateHash:   "pth-v2",
			CurrentStepIndex:  2,
			CurrentStepState:  v1beta1.CanaryStepStateUpgrade, // scaling the green pods up to 100%: not ready yet
			NextStepIndex:     4,                              // user jump 2 -> 4 (100% traffic to green)
			LastUpdateTime:    &metav1.Time{Time: time.Now().Add(-time.Minute)},
		},
	}
	fc := fake.NewClientBuilder().WithScheme(scheme).WithObjects(rollout).Build()
	tm := trafficrouting.NewTrafficRoutingManager(fc)
	m := &blueGreenReleaseManager{Client: fc, trafficRoutingManager: tm, recorder: record.NewFakeRecorder(100)}
	if err := fc.Create(context.TODO(), auditC02NotReadyBR(rollout, m, 1)); err != nil {
		t.Fatal(err)
	}
	workload := &util.Workload{Replicas: 10, StableRevision: "stable-v1", CanaryRevision: "canary-rev-v2", PodTemplateHash: "pth-v2", IsStatusConsistent: true}

	var trace []string
	for i := 0; i < 8; i++ {
		c := &RolloutContext{Rollout: rollout, NewStatus: rollout.Status.DeepCopy(), Workload: workload}
		if err := m.runCanary(c); err != nil {
			t.Fatalf("runCanary: %v", err)
		}
		rollout.Status = *c.NewStatus
		s := rollout.Status.BlueGreenStatus
		trace = append(trace, fmt.Sprintf("%d/%s", s.CurrentStepIndex, s.CurrentStepState))
		time.Sleep(2 * time.Millisecond)
		if s.CurrentStepState == v1beta1.CanaryStepStateCompleted {
			break
		}
	}
	br := &v1beta1.BatchRelease{}
	if err := fc.Get(context.TODO(), client.ObjectKey{Name: rollout.Name}, br); err != nil {
		t.Fatal(err)
	}
	s := rollout.Status.BlueGreenStatus
	if s.CurrentStepState != v1beta1.CanaryStepStateCompleted {
		t.Fatalf("defect not present: rollout stayed gated, trace %v", trace)
	}
	if br.Status.CanaryStatus.CurrentBatchState == v1beta1.ReadyBatchState {
		t.Fatalf("test is broken: BatchRelease must never have been Ready")
	}
	fmt.Printf("REPRODUCED C02 (blue-green): after a user jump 2->4 issued while step 2 was still in StepUpgrade, the rollout went %v: "+
		"the last step passed its traffic/pause sub-states and reached Completed (=> Finalising promotes everything) although the "+
		"BatchRelease never reported the pods ready (state %s, batch %d, updatedReadyReplicas=%d)\n",
		trace, br.Status.CanaryStatus.CurrentBatchState, br.Status.CanaryStatus.CurrentBatch, br.Status.CanaryStatus.UpdatedReadyReplicas)
}

// Same defect reached through the plan-edit path: the user only edits the traffic weight of the step that is
// currently upgrading. recalculateCanaryStep returns the current index, handleRolloutPlanChanged "jumps" onto
// the same step, doCanaryJump sees identical replicas and selects StepTrafficRouting: the Upgrade gate of the
// step in flight is dropped.
func TestAuditC02PlanEditOfUpgradingStepSkipsUpgradeGate(t *testing.T) {
	rollout := rolloutDemo.DeepCopy()
	rollout.Spec.WorkloadRef = v1beta1.ObjectRef{APIVersion: "apps.kruise.io/v1alpha1", Kind: "CloneSet", Name: "echoserver"}
	rollout.Spec.Strategy.Canary.EnableExtraWorkloadForCanary = false
	rollout.Spec.Strategy.Canary.TrafficRoutings = nil
	rollout.Spec.Strategy.Canary.Steps = auditC02Steps("20%", "40%", "100%")
	rollout.Spec.Strategy.Canary.Steps[1].Traffic = utilpointer.String("30%") // was e.g. 40% before the user's edit
	rollout.Spec.Strategy.Canary.Steps[1].Pause = v1beta1.RolloutPause{Duration: utilpointer.Int32(0)}
	rollout.Annotations[util.RolloutHashAnnotation] = "hash-after-edit"
	cond := util.GetRolloutCondition(rollout.Status, v1beta1.RolloutConditionProgressing)
	cond.Reason = v1alpha1.ProgressingReasonInRolling
	util.SetRolloutCondition(&rollout.Status, *cond)
	rollout.Status.CanaryStatus = &v1beta1.CanaryStatus{
		CanaryRevision: "canary-rev-v2",
		CommonStatus: v1beta1.CommonStatus{
			ObservedRolloutID: "canary-rev-v2",
			RolloutHash:       "hash-before-edit",
			StableRevision:    "stable-v1",
			PodTemplateHash:   "pth-v2",
			CurrentStepIndex:  2,
			CurrentStepState:  v1beta1.CanaryStepStateUpgrade,
			NextStepIndex:     3,
			LastUpdateTime:    &metav1.Time{Time: time.Now().Add(-time.Minute)},
		},
	}
	fc := fake.NewClientBuilder().WithScheme(scheme).WithObjects(rollout).Build()
	tm := trafficrouting.NewTrafficRoutingManager(fc)
	r := &RolloutReconciler{Client: fc, Scheme: scheme, Recorder: record.NewFakeRecorder(100), finder: util.NewControllerFinder(fc), trafficRoutingManager: tm}
	m := &canaryReleaseManager{Client: fc, trafficRoutingManager: tm, recorder: r.Recorder}
	r.canaryManager = m
	if err := fc.Create(context.TODO(), auditC02NotReadyBR(rollout, m, 1)); err != nil {
		t.Fatal(err)
	}
	workload := &util.Workload{Replicas: 10, StableRevision: "stable-v1", CanaryRevision: "canary-rev-v2", PodTemplateHash: "pth-v2", IsStatusConsistent: true}
	if !isRolloutPlanChanged(rollout) {
		t.Fatal("plan change must be detected")
	}
	var trace []string
	for i := 0; i < 7; i++ {
		c := &RolloutContext{Rollout: rollout, NewStatus: rollout.Status.DeepCopy(), Workload: workload}
		if err := r.doProgressingInRolling(c); err != nil {
			t.Fatalf("doProgressingInRolling: %v", err)
		}
		rollout.Status = *c.NewStatus
		s := rollout.Status.CanaryStatus
		trace = append(trace, fmt.Sprintf("%d/%s", s.CurrentStepIndex, s.CurrentStepState))
		time.Sleep(2 * time.Millisecond)
		if s.CurrentStepIndex == 3 {
			break
		}
	}
	br := &v1beta1.BatchRelease{}
	if err := fc.Get(context.TODO(), client.ObjectKey{Name: rollout.Name}, br); err != nil {
		t.Fatal(err)
	}
	if rollout.Status.CanaryStatus.CurrentStepIndex != 3 || br.Status.CanaryStatus.CurrentBatchState == v1beta1.ReadyBatchState {
		t.Fatalf("defect not present: %v", trace)
	}
	fmt.Printf("REPRODUCED C02 (plan edit): editing only the traffic weight of step 2 while it was in StepUpgrade made the rollout go %v: "+
		"step 2 -> step 3 although step 2's pods were never reported ready (BatchRelease %s at batch %d, updatedReadyReplicas=%d)\n",
		trace, br.Status.CanaryStatus.CurrentBatchState, br.Status.CanaryStatus.CurrentBatch, br.Status.CanaryStatus.UpdatedReadyReplicas)
}
