// dest: pkg/controller/rollout/zz_audit_C02_2_test.go
package rollout

import (
	"context"
	"fmt"
	"testing"

	"github.com/openkruise/rollouts/api/v1alpha1"
	"github.com/openkruise/rollouts/api/v1beta1"
	"github.com/openkruise/rollouts/pkg/trafficrouting"
	"github.com/openkruise/rollouts/pkg/util"
	apps "k8s.io/api/apps/v1"
	corev1 "k8s.io/api/core/v1"
	"k8s.io/client-go/tools/record"
	utilpointer "k8s.io/utils/pointer"
	"sigs.k8s.io/controller-runtime/pkg/client"
	"sigs.k8s.io/controller-runtime/pkg/client/fake"
)

// spec.strategy.paused is honoured only in doProgressingInRolling (case 2). The Finalising branch of
// reconcileRolloutProgressing never looks at it, so a rollout that the user paused after the last step
// was passed (Progressing reason already Finalising) still executes FinalisingStepResumeWorkload:
// it patches BatchRelease.spec.releasePlan.batchPartition to null, i.e. promotes ALL remaining pods,
// while the rollout is marked paused.
func TestAuditC02PausedDoesNotStopFinalisingPromotion(t *testing.T) {
	build := func(reason string, finalisingStep v1beta1.FinalisingStepType) (*RolloutReconciler, client.Client, *v1beta1.Rollout) {
		dep := deploymentDemo.DeepCopy()
		dep.Status = apps.DeploymentStatus{ObservedGeneration: 2, Replicas: 10, UpdatedReplicas: 6, ReadyReplicas: 10, AvailableReplicas: 10}
		rs := rsDemo.DeepCopy()

		rollout := rolloutDemo.DeepCopy()
		rollout.Spec.Strategy.Canary.TrafficRoutings = nil
		// last step covers only 6 of 10 pods: the promotion of the remaining 4 is real forward progress
		rollout.Spec.Strategy.Canary.Steps = rollout.Spec.Strategy.Canary.Steps[:3]
		rollout.Spec.Strategy.Paused = true // <- the rollout is marked paused
		rollout.Status.CanaryStatus.ObservedWorkloadGeneration = 2
		rollout.Status.CanaryStatus.RolloutHash = rollout.Annotations[util.RolloutHashAnnotation]
		rollout.Status.CanaryStatus.StableRevision = "pod-template-hash-v1"
		rollout.Status.CanaryStatus.CanaryRevision = "88bd5dbfd"
		rollout.Status.CanaryStatus.PodTemplateHash = "pod-template-hash-v2"
		rollout.Status.CanaryStatus.CurrentStepIndex = 3
		rollout.Status.CanaryStatus.NextStepIndex = -1
		rollout.Status.CanaryStatus.CurrentStepState = v1beta1.CanaryStepStateCompleted
		rollout.Status.CanaryStatus.FinalisingStep = finalisingStep
		cond := util.GetRolloutCondition(rollout.Status, v1beta1.RolloutConditionProgressing)
		cond.Reason = reason
		cond.Status = corev1.ConditionTrue
		util.SetRolloutCondition(&rollout.Status, *cond)

		fc := fake.NewClientBuilder().WithScheme(scheme).WithObjects(rollout, demoConf.DeepCopy()).Build()
		_ = fc.Create(context.TODO(), rs)
		_ = fc.Create(context.TODO(), dep)
		r := &RolloutReconciler{
			Client:                fc,
			Scheme:                scheme,
			Recorder:              record.NewFakeRecorder(10),
			finder:                util.NewControllerFinder(fc),
			trafficRoutingManager: trafficrouting.NewTrafficRoutingManager(fc),
		}
		r.canaryManager = &canaryReleaseManager{Client: fc, trafficRoutingManager: r.trafficRoutingManager, recorder: r.Recorder}
		br := r.canaryManager.createBatchRelease(rollout, "88bd5dbfd", 2, false)
		br.Spec.ReleasePlan.BatchPartition = utilpointer.Int32(2) // the last step's partition
		br.Status.CanaryStatus.CurrentBatch = 2
		br.Status.CanaryStatus.CurrentBatchState = v1beta1.ReadyBatchState
		if err := fc.Create(context.TODO(), br); err != nil {
			t.Fatal(err)
		}
		return r, fc, rollout
	}
	partitionOf := func(fc client.Client, name string) *int32 {
		br := &v1beta1.BatchRelease{}
		if err := fc.Get(context.TODO(), client.ObjectKey{Name: name}, br); err != nil {
			t.Fatal(err)
		}
		return br.Spec.ReleasePlan.BatchPartition
	}

	// control: same state but Progressing reason still InRolling -> the pause gate works, nothing is promoted
	{
		r, fc, rollout := build(v1alpha1.ProgressingReasonInRolling, "")
		newStatus := rollout.Status.DeepCopy()
		if _, err := r.reconcileRolloutProgressing(rollout, newStatus); err != nil {
			t.Fatal(err)
		}
		cond := util.GetRolloutCondition(*newStatus, v1beta1.RolloutConditionProgressing)
		if p := partitionOf(fc, rollout.Name); cond.Reason != v1alpha1.ProgressingReasonPaused || p == nil || *p != 2 {
			t.Fatalf("control failed: reason=%s partition=%v", cond.Reason, p)
		}
	}

	// paused while Finalising
	r, fc, rollout := build(v1alpha1.ProgressingReasonFinalising, v1beta1.FinalisingStepResumeWorkload)
	if !rollout.Spec.Strategy.Paused {
		t.Fatal("rollout must be paused")
	}
	newStatus := rollout.Status.DeepCopy()
	if _, err := r.reconcileRolloutProgressing(rollout, newStatus); err != nil {
		t.Fatal(err)
	}
	p := partitionOf(fc, rollout.Name)
	if p != nil {
		t.Fatalf("defect not present: batchPartition still %d while paused", *p)
	}
	fmt.Printf("REPRODUCED C02: rollout has spec.strategy.paused=true, yet the Finalising reconcile raised BatchRelease batchPartition from 2 (60%% of pods) " +
		"to <nil> (= promote all remaining pods): forward progress was made while the rollout is marked paused " +
		"(pause is only checked in doProgressingInRolling, not in the Finalising branch)\n")
}
