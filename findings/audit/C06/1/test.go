// dest: pkg/trafficrouting/zz_audit_C06_1_test.go
package trafficrouting

import (
	"context"
	"fmt"
	"testing"
	"time"

	"github.com/openkruise/rollouts/api/v1beta1"
	"github.com/openkruise/rollouts/pkg/util/grace"
	apps "k8s.io/api/apps/v1"
	corev1 "k8s.io/api/core/v1"
	netv1 "k8s.io/api/networking/v1"
	"k8s.io/apimachinery/pkg/api/errors"
	metav1 "k8s.io/apimachinery/pkg/apis/meta/v1"
	"k8s.io/apimachinery/pkg/types"
	"sigs.k8s.io/controller-runtime/pkg/client"
	"sigs.k8s.io/controller-runtime/pkg/client/fake"
)

// The traffic finalising sequence (restore stable Service -> wait grace -> restore gateway -> wait grace ->
// delete canary Service) keeps its "a write happened, wait graceSeconds" knowledge only in the in-memory
// grace expectations. The persisted LastUpdateTime is written by the closures but never consulted.
// After a crash (loss of the grace expectations) every write is re-derived as "already done, nothing to wait for",
// so the whole sequence runs back-to-back with no grace at all, while the undisturbed run needs >= 2*graceSeconds.
func auditC06World(t *testing.T, graceSeconds int32) (client.Client, func() *TrafficRoutingContext) {
	s1 := demoService.DeepCopy()
	s1.UID = types.UID("stable-svc-uid")
	s1.Spec.Selector[apps.DefaultDeploymentUniqueLabelKey] = "podtemplatehash-v1"
	s2 := demoService.DeepCopy()
	s2.Name = "echoserver-canary"
	s2.UID = types.UID("canary-svc-uid")
	s2.Spec.Selector[apps.DefaultDeploymentUniqueLabelKey] = "podtemplatehash-v2"
	c1 := demoIngress.DeepCopy()
	c2 := demoIngress.DeepCopy()
	c2.Name = "echoserver-canary"
	c2.Annotations[fmt.Sprintf("%s/canary", nginxIngressAnnotationDefaultPrefix)] = "true"
	c2.Annotations[fmt.Sprintf("%s/canary-weight", nginxIngressAnnotationDefaultPrefix)] = "100"
	c2.Spec.Rules[0].HTTP.Paths[0].Backend.Service.Name = "echoserver-canary"
	cli := fake.NewClientBuilder().WithScheme(scheme).WithObjects(c1, c2, s1, s2, demoConf.DeepCopy()).Build()

	rollout := demoRollout.DeepCopy()
	rollout.UID = types.UID("rollout-uid")
	rollout.Spec.Strategy.Canary.TrafficRoutings[0].GracePeriodSeconds = graceSeconds
	rollout.Status.CanaryStatus.CurrentStepState = v1beta1.CanaryStepStateCompleted
	rollout.Status.CanaryStatus.CurrentStepIndex = 4
	rollout.Status.CanaryStatus.LastUpdateTime = &metav1.Time{Time: time.Now().Add(-time.Hour)}
	mk := func() *TrafficRoutingContext {
		st := rollout.Status.CanaryStatus
		return &TrafficRoutingContext{
			Key:              fmt.Sprintf("Rollout(%s/%s)", rollout.Namespace, rollout.Name),
			Namespace:        rollout.Namespace,
			ObjectRef:        rollout.Spec.Strategy.Canary.TrafficRoutings,
			Strategy:         rollout.Spec.Strategy.Canary.Steps[3].TrafficRoutingStrategy,
			OwnerRef:         *metav1.NewControllerRef(rollout, v1beta1.SchemeGroupVersion.WithKind("Rollout")),
			RevisionLabelKey: apps.DefaultDeploymentUniqueLabelKey,
			StableRevision:   st.StableRevision,
			CanaryRevision:   st.PodTemplateHash,
			LastUpdateTime:   st.LastUpdateTime,
		}
	}
	return cli, mk
}

func auditC06CanaryGone(cli client.Client) (svcGone, ingGone bool) {
	svc := &corev1.Service{}
	err := cli.Get(context.TODO(), client.ObjectKey{Name: "echoserver-canary"}, svc)
	svcGone = errors.IsNotFound(err)
	ing := &netv1.Ingress{}
	err = cli.Get(context.TODO(), client.ObjectKey{Name: "echoserver-canary"}, ing)
	ingGone = errors.IsNotFound(err)
	return
}

func TestAuditC06GraceLostOnCrash(t *testing.T) {
	const graceSeconds = int32(30)
	grace.ResetExpectations()
	defer grace.ResetExpectations()

	// ---- undisturbed run: after the first write the sequence must NOT advance before graceSeconds elapsed
	cli, mk := auditC06World(t, graceSeconds)
	m := NewTrafficRoutingManager(cli)
	done, err := m.FinalisingTrafficRouting(mk()) // patches the stable Service
	if err != nil || done {
		t.Fatalf("baseline call 1: done=%v err=%v", done, err)
	}
	for i := 0; i < 5; i++ {
		done, err = m.FinalisingTrafficRouting(mk())
		if err != nil || done {
			t.Fatalf("baseline call %d: done=%v err=%v", i+2, done, err)
		}
	}
	if svcGone, ingGone := auditC06CanaryGone(cli); svcGone || ingGone {
		t.Fatalf("baseline: sequence advanced inside the grace period (svcGone=%v ingGone=%v), the test premise is wrong", svcGone, ingGone)
	}
	t.Logf("baseline: 6 reconciles within the %ds grace period: gateway untouched, canary Service kept (as designed)", graceSeconds)

	// ---- crash run: identical world, but the process dies (grace expectations lost) after every reconcile that wrote
	grace.ResetExpectations()
	cli, mk = auditC06World(t, graceSeconds)
	start := time.Now()
	calls := 0
	for {
		calls++
		if calls > 10 {
			t.Fatalf("crash run did not finish in 10 reconciles")
		}
		m = NewTrafficRoutingManager(cli) // restarted process
		done, err = m.FinalisingTrafficRouting(mk())
		if err != nil {
			t.Fatalf("crash run call %d: %v", calls, err)
		}
		if done {
			break
		}
		grace.ResetExpectations() // crash: all in-memory state is lost
	}
	elapsed := time.Since(start)
	svcGone, ingGone := auditC06CanaryGone(cli)
	if !svcGone || !ingGone {
		t.Fatalf("crash run reported done but canary objects remain (svcGone=%v ingGone=%v)", svcGone, ingGone)
	}
	if elapsed >= time.Duration(graceSeconds)*time.Second {
		t.Fatalf("not reproduced: the crash run honoured the grace period (took %v)", elapsed)
	}
	fmt.Printf("REPRODUCED C06: with a crash after each write the traffic finalising sequence (restore stable Service -> "+
		"restore gateway -> delete canary Service) completed in %d reconciles and %v, i.e. the gateway was restored and the "+
		"canary Service deleted 0s after the previous write although gracePeriodSeconds=%d; the undisturbed run waits %ds "+
		"after each write (>= %ds in total). The grace wait exists only in memory (grace expectations), the persisted "+
		"LastUpdateTime is never consulted, so the ordering-with-grace safety of the undisturbed run does not hold across a restart.\n",
		calls, elapsed.Round(time.Millisecond), graceSeconds, graceSeconds, 2*graceSeconds)
}
