// dest: pkg/controller/rollout/zz_audit_C04_4_test.go
package rollout

import (
	"context"
	"fmt"
	"testing"
	"time"

	"github.com/openkruise/rollouts/api/v1alpha1"
	"github.com/openkruise/rollouts/api/v1beta1"
	"github.com/openkruise/rollouts/pkg/trafficrouting"
	"github.com/openkruise/rollouts/pkg/util"
	apps "k8s.io/api/apps/v1"
	corev1 "k8s.io/api/core/v1"
	netv1 "k8s.io/api/networking/v1"
	"k8s.io/apimachinery/pkg/api/errors"
	metav1 "k8s.io/apimachinery/pkg/apis/meta/v1"
	"k8s.io/apimachinery/pkg/labels"
	"k8s.io/apimachinery/pkg/types"
	"k8s.io/apimachinery/pkg/util/intstr"
	"k8s.io/client-go/tools/record"
	utilpointer "k8s.io/utils/pointer"
	ctrl "sigs.k8s.io/controller-runtime"
	"sigs.k8s.io/controller-runtime/pkg/client"
	"sigs.k8s.io/controller-runtime/pkg/client/fake"
)

type auditC04x4Env struct {
	t  *testing.T
	fc client.Client
	r  *RolloutReconciler
}

func (e *auditC04x4Env) get() *v1beta1.Rollout {
	cur := &v1beta1.Rollout{}
	if err := e.fc.Get(context.TODO(), client.ObjectKey{Name: "rollout-demo"}, cur); err != nil {
		e.t.Fatalf("get rollout: %v", err)
	}
	return cur
}

// the real RolloutReconciler.Reconcile
func (e *auditC04x4Env) reconcile(tag string) *v1beta1.Rollout {
	if _, err := e.r.Reconcile(context.TODO(), ctrl.Request{NamespacedName: types.NamespacedName{Name: "rollout-demo"}}); err != nil {
		e.t.Fatalf("%s: Reconcile failed: %v", tag, err)
	}
	cur := e.get()
	reason := ""
	if c := util.GetRolloutCondition(cur.Status, v1beta1.RolloutConditionProgressing); c != nil {
		reason = c.Reason
	}
	if cur.Status.CanaryStatus == nil {
		e.t.Logf("%-30s phase=%s reason=%s (no canaryStatus)", tag, cur.Status.Phase, reason)
		return cur
	}
	e.t.Logf("%-30s phase=%s reason=%s step=%d state=%s finalisingStep=%q", tag, cur.Status.Phase, reason,
		cur.Status.CanaryStatus.CurrentStepIndex, cur.Status.CanaryStatus.CurrentStepState, cur.Status.CanaryStatus.FinalisingStep)
	return cur
}

// let the wall clock "advance": move lastUpdateTime into the past
func (e *auditC04x4Env) timePasses() {
	cur := e.get()
	if cur.Status.CanaryStatus != nil && cur.Status.CanaryStatus.LastUpdateTime != nil {
		cur.Status.CanaryStatus.LastUpdateTime = &metav1.Time{Time: time.Now().Add(-time.Minute)}
		if err := e.fc.Status().Update(context.TODO(), cur); err != nil {
			e.t.Fatalf("timePasses: %v", err)
		}
	}
}

func (e *auditC04x4Env) endpoints(svcName string) (int, map[string]string) {
	svc := &corev1.Service{}
	if err := e.fc.Get(context.TODO(), client.ObjectKey{Name: svcName}, svc); err != nil {
		e.t.Fatalf("get service %s: %v", svcName, err)
	}
	pods := &corev1.PodList{}
	if err := e.fc.List(context.TODO(), pods, client.MatchingLabelsSelector{Selector: labels.SelectorFromSet(svc.Spec.Selector)}); err != nil {
		e.t.Fatalf("list pods: %v", err)
	}
	return len(pods.Items), svc.Spec.Selector
}

func (e *auditC04x4Env) setImage(image string) {
	d := &apps.Deployment{}
	if err := e.fc.Get(context.TODO(), client.ObjectKey{Name: "echoserver"}, d); err != nil {
		e.t.Fatalf("get deployment: %v", err)
	}
	d.Spec.Template.Spec.Containers[0].Image = image
	if err := e.fc.Update(context.TODO(), d); err != nil {
		e.t.Fatalf("update deployment: %v", err)
	}
}

// Canary-style rollout (Deployment + extra canary Deployment), one step (replicas 1, traffic 20%).
//
//	t0  step 1 routed 20% to the canary Service, stable Service pinned to v1; paused
//	t1  somebody pushes v3 to the Deployment -> continuous release -> doProgressingReset starts and
//	    persists its cursor status.canaryStatus.finalisingStep=FinalisingStepRouteTrafficToStable
//	    (it waits the grace period after restoring the gateway)
//	t2  the push is reverted (template is v2 again) before the reset has finished
//	    -> isContinuousRelease is false again, normal rolling goes on, the cursor is NOT cleared
//	t3  the user approves, the rollout succeeds -> doCanaryFinalising starts from the stale cursor:
//	    RouteTrafficToStable -> RemoveCanaryService -> ResumeWorkload -> ReleaseWorkloadControl -> END
//	    i.e. FinalisingStepRestoreStableService (first task of the success sequence) is skipped.
//
// ResumeWorkload lets the Deployment replace every v1 pod while the stable Service is still pinned
// to v1 and receives 100% of the traffic; the rollout ends "Succeeded" with a stable Service that
// selects nothing.
func TestAuditC04_4_StaleFinalisingCursorSkipsRestoreStableService(t *testing.T) {
	const v1, v2 = "pod-template-hash-v1", "pod-template-hash-v2"

	dep := deploymentDemo.DeepCopy()
	dep.Spec.Replicas = utilpointer.Int32(2)
	dep.Spec.Paused = true
	canaryDep := deploymentDemo.DeepCopy()
	canaryDep.UID = "1ca4d850-9ec3-48bd-84cb-19f2e8cf4180"
	canaryDep.Name = dep.Name + "-canary"
	canaryDep.Labels[util.CanaryDeploymentLabel] = dep.Name
	canaryDep.Spec.Replicas = utilpointer.Int32(1)
	rs1 := rsDemo.DeepCopy()
	rs1.Spec.Replicas = utilpointer.Int32(2)
	rs2 := rsDemo.DeepCopy()
	rs2.Name = "echoserver-canary-2"
	rs2.OwnerReferences = []metav1.OwnerReference{{APIVersion: "apps/v1", Kind: "Deployment", Name: canaryDep.Name, UID: canaryDep.UID, Controller: utilpointer.Bool(true)}}
	rs2.Labels["pod-template-hash"] = v2
	rs2.Spec.Replicas = utilpointer.Int32(1)
	rs2.Spec.Template.Spec.Containers[0].Image = "echoserver:v2"

	rollout := rolloutDemo.DeepCopy()
	rollout.UID = "rollout-uid-c04-4"
	rollout.Spec.Strategy.Canary.Steps = []v1beta1.CanaryStep{
		{TrafficRoutingStrategy: v1beta1.TrafficRoutingStrategy{Traffic: utilpointer.String("20%")}, Replicas: &intstr.IntOrString{IntVal: 1}},
	}
	rollout.Spec.Strategy.Canary.TrafficRoutings[0].GracePeriodSeconds = 1
	delete(rollout.Annotations, util.RolloutHashAnnotation)

	pod := func(name, rev string) *corev1.Pod {
		return &corev1.Pod{ObjectMeta: metav1.ObjectMeta{Name: name, Labels: map[string]string{"app": "echoserver", "pod-template-hash": rev}}}
	}
	fc := fake.NewClientBuilder().WithScheme(scheme).WithObjects(rollout, demoConf.DeepCopy()).Build()
	for _, o := range []client.Object{rs1, rs2, dep, canaryDep, demoService.DeepCopy(), demoIngress.DeepCopy(),
		pod("p-old-1", v1), pod("p-old-2", v1), pod("p-canary-1", v2)} {
		if err := fc.Create(context.TODO(), o); err != nil {
			t.Fatalf("create %T failed: %v", o, err)
		}
	}
	r := &RolloutReconciler{
		Client:                fc,
		Scheme:                scheme,
		Recorder:              record.NewFakeRecorder(1000),
		finder:                util.NewControllerFinder(fc),
		trafficRoutingManager: trafficrouting.NewTrafficRoutingManager(fc),
	}
	r.canaryManager = &canaryReleaseManager{Client: fc, trafficRoutingManager: r.trafficRoutingManager, recorder: r.Recorder}
	e := &auditC04x4Env{t: t, fc: fc, r: r}

	// ---- state: step 1 has created the canary pod and is about to do its traffic routing
	canaryRevision := util.ComputeHash(&dep.Spec.Template, nil)
	{
		cur := e.get()
		_ = r.calculateRolloutHash(cur)
		cur = e.get()
		st := cur.Status.CanaryStatus
		st.ObservedWorkloadGeneration = 2
		st.RolloutHash = cur.Annotations[util.RolloutHashAnnotation]
		st.StableRevision = v1
		st.CanaryRevision = canaryRevision
		st.ObservedRolloutID = canaryRevision
		st.PodTemplateHash = v2
		st.CurrentStepIndex = 1
		st.NextStepIndex = -1
		st.CurrentStepState = v1beta1.CanaryStepStateTrafficRouting
		cond := util.GetRolloutCondition(cur.Status, v1beta1.RolloutConditionProgressing)
		cond.Reason = v1alpha1.ProgressingReasonInRolling
		util.SetRolloutCondition(&cur.Status, *cond)
		if err := fc.Status().Update(context.TODO(), cur); err != nil {
			t.Fatalf("init status: %v", err)
		}
	}
	mkBR := func() {
		cur := e.get()
		br := r.canaryManager.createBatchRelease(cur, canaryRevision, 0, false)
		br.Generation = 1
		br.Status = v1beta1.BatchReleaseStatus{
			ObservedGeneration:      1,
			ObservedReleasePlanHash: util.HashReleasePlanBatches(&br.Spec.ReleasePlan),
			CanaryStatus:            v1beta1.BatchReleaseCanaryStatus{CurrentBatchState: v1beta1.ReadyBatchState, CurrentBatch: 0, UpdatedReplicas: 1, UpdatedReadyReplicas: 1},
		}
		if err := fc.Create(context.TODO(), br); err != nil {
			t.Fatalf("create br: %v", err)
		}
	}
	mkBR()

	// ---- t0: step 1 traffic routing, then paused
	var cur *v1beta1.Rollout
	for i := 0; i < 8; i++ {
		cur = e.reconcile("t0 step1 traffic routing")
		e.timePasses()
		if cur.Status.CanaryStatus.CurrentStepState == v1beta1.CanaryStepStatePaused {
			break
		}
	}
	if cur.Status.CanaryStatus.CurrentStepState != v1beta1.CanaryStepStatePaused {
		t.Fatalf("did not reach StepPaused")
	}
	if n, sel := e.endpoints("echoserver"); n != 2 || sel["pod-template-hash"] != v1 {
		t.Fatalf("t0: stable service should be pinned to v1 with 2 pods, got %d %v", n, sel)
	}

	// ---- t1: v3 is pushed by mistake
	e.setImage("echoserver:v3")
	cur = e.reconcile("t1 v3 pushed (reset begins)")
	if cur.Status.CanaryStatus == nil || cur.Status.CanaryStatus.FinalisingStep != v1beta1.FinalisingStepRouteTrafficToStable {
		t.Fatalf("expected the continuous-release reset to wait in RouteTrafficToStable, got %+v", cur.Status.CanaryStatus)
	}
	// ---- t2: ... and reverted right away (before the grace period of the reset has elapsed)
	e.setImage("echoserver:v2")
	cur = e.reconcile("t2 v3 reverted")
	if cur.Status.CanaryStatus.FinalisingStep == "" {
		t.Fatalf("cursor was cleared, defect not present")
	}
	e.timePasses()
	time.Sleep(1100 * time.Millisecond) // the grace expectation of the reset's RestoreGateway expires

	// ---- t3: user approves the step; the rollout completes and finalises
	cur = e.get()
	cur.Status.CanaryStatus.CurrentStepState = v1beta1.CanaryStepStateReady
	if err := fc.Status().Update(context.TODO(), cur); err != nil {
		t.Fatalf("approve: %v", err)
	}
	visited := []v1beta1.FinalisingStepType{}
	reported := false
	for i := 0; i < 40; i++ {
		cur = e.reconcile("t3 approve/finalise")
		e.timePasses()
		fs := cur.Status.CanaryStatus.FinalisingStep
		if len(visited) == 0 || visited[len(visited)-1] != fs {
			visited = append(visited, fs)
		}

		// BatchRelease + Deployment controllers: once the partition is released the Deployment
		// replaces all v1 pods, then the BatchRelease reports Completed
		br := &v1beta1.BatchRelease{}
		if err := fc.Get(context.TODO(), client.ObjectKey{Name: "rollout-demo"}, br); err == nil &&
			br.Spec.ReleasePlan.BatchPartition == nil && br.Status.Phase != v1beta1.RolloutPhaseCompleted {
			_ = fc.Delete(context.TODO(), pod("p-old-1", v1))
			_ = fc.Delete(context.TODO(), pod("p-old-2", v1))
			_ = fc.Delete(context.TODO(), pod("p-canary-1", v2))
			_ = fc.Create(context.TODO(), pod("p-new-1", "7d9f8c6b5"))
			_ = fc.Create(context.TODO(), pod("p-new-2", "7d9f8c6b5"))
			br.Status.Phase = v1beta1.RolloutPhaseCompleted
			_ = fc.Status().Update(context.TODO(), br)

			n, sel := e.endpoints("echoserver")
			ingErr := fc.Get(context.TODO(), client.ObjectKey{Name: "echoserver-canary"}, &netv1.Ingress{})
			if sel["pod-template-hash"] != "" && n == 0 && errors.IsNotFound(ingErr) {
				reported = true
				fmt.Printf("REPRODUCED C04 (stable Service is un-pinned before the last stable pod is replaced): during task %s "+
					"the Deployment replaced every v1 pod while the stable Service selector is still %v -> it selects %d pods and, the "+
					"canary ingress being removed, receives 100%% of the traffic\n", fs, sel, n)
			}
		}
		if c := util.GetRolloutCondition(cur.Status, v1beta1.RolloutConditionProgressing); c.Reason == v1alpha1.ProgressingReasonCompleted {
			break
		}
		// tasks wrapped in grace.RunWithGraceSeconds wait gracePeriodSeconds (1s) of real time
		time.Sleep(150 * time.Millisecond)
	}
	c := util.GetRolloutCondition(cur.Status, v1beta1.RolloutConditionProgressing)
	s := util.GetRolloutCondition(cur.Status, v1beta1.RolloutConditionSucceeded)
	n, sel := e.endpoints("echoserver")
	t.Logf("finalising tasks visited: %v", visited)
	for _, v := range visited {
		if v == v1beta1.FinalisingStepRestoreStableService {
			t.Fatalf("RestoreStableService was executed, defect not reproduced")
		}
	}
	if !reported || c.Reason != v1alpha1.ProgressingReasonCompleted || s == nil || s.Status != corev1.ConditionTrue || sel["pod-template-hash"] == "" || n != 0 {
		t.Fatalf("defect not reproduced: reported=%v reason=%s selector=%v endpoints=%d", reported, c.Reason, sel, n)
	}
	fmt.Printf("REPRODUCED C04 (final state): rollout Progressing=%s Succeeded=%s, finalising tasks executed=%v (RestoreStableService "+
		"never ran because of the stale cursor left by the aborted continuous-release reset); stable Service selector=%v selects %d pods\n",
		c.Reason, s.Status, visited, sel, n)
}
