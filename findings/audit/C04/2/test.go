// dest: pkg/controller/rollout/zz_audit_C04_2_test.go
package rollout

import (
	"context"
	"fmt"
	"testing"
	"time"

	"github.com/openkruise/rollouts/api/v1alpha1"
	"github.com/openkruise/rollouts/api/v1beta1"
	"github.com/openkruise/rollouts/pkg/trafficrouting"
	"github.com/openkruise/rollouts/pkg/util"
	apps "k8s.io/api/apps/v1"
	corev1 "k8s.io/api/core/v1"
	netv1 "k8s.io/api/networking/v1"
	metav1 "k8s.io/apimachinery/pkg/apis/meta/v1"
	"k8s.io/apimachinery/pkg/labels"
	"k8s.io/apimachinery/pkg/util/intstr"
	"k8s.io/client-go/tools/record"
	utilpointer "k8s.io/utils/pointer"
	"sigs.k8s.io/controller-runtime/pkg/client"
	"sigs.k8s.io/controller-runtime/pkg/client/fake"
)

type auditC04x2Env struct {
	t  *testing.T
	fc client.Client
	r  *RolloutReconciler
}

// one pass of the progressing reconcile (status is read from / written back to the fake API server)
func (e *auditC04x2Env) reconcile(tag string) *v1beta1.RolloutStatus {
	cur := &v1beta1.Rollout{}
	if err := e.fc.Get(context.TODO(), client.ObjectKey{Name: "rollout-demo"}, cur); err != nil {
		e.t.Fatalf("get rollout: %v", err)
	}
	// what calculateRolloutStatus does at the beginning of every Reconcile
	if err := e.r.calculateRolloutHash(cur); err != nil {
		e.t.Fatalf("calculateRolloutHash: %v", err)
	}
	newStatus := cur.Status.DeepCopy()
	if _, err := e.r.reconcileRolloutProgressing(cur, newStatus); err != nil {
		e.t.Fatalf("%s: reconcile failed: %v", tag, err)
	}
	if err := e.r.updateRolloutStatusInternal(cur, *newStatus); err != nil {
		e.t.Fatalf("update status: %v", err)
	}
	e.t.Logf("%-28s step=%d state=%s next=%d", tag, newStatus.CanaryStatus.CurrentStepIndex,
		newStatus.CanaryStatus.CurrentStepState, newStatus.CanaryStatus.NextStepIndex)
	return newStatus
}

// let the wall clock "advance" by moving the recorded lastUpdateTime into the past
func (e *auditC04x2Env) timePasses() {
	cur := &v1beta1.Rollout{}
	_ = e.fc.Get(context.TODO(), client.ObjectKey{Name: "rollout-demo"}, cur)
	if cur.Status.CanaryStatus.LastUpdateTime != nil {
		cur.Status.CanaryStatus.LastUpdateTime = &metav1.Time{Time: time.Now().Add(-time.Minute)}
		if err := e.fc.Status().Update(context.TODO(), cur); err != nil {
			e.t.Fatalf("timePasses: %v", err)
		}
	}
}

func (e *auditC04x2Env) setStatus(f func(s *v1beta1.CanaryStatus)) {
	cur := &v1beta1.Rollout{}
	_ = e.fc.Get(context.TODO(), client.ObjectKey{Name: "rollout-demo"}, cur)
	f(cur.Status.CanaryStatus)
	if err := e.fc.Status().Update(context.TODO(), cur); err != nil {
		e.t.Fatalf("setStatus: %v", err)
	}
}

// number of pods selected by the Service
func (e *auditC04x2Env) endpoints(svcName string) (int, map[string]string) {
	svc := &corev1.Service{}
	if err := e.fc.Get(context.TODO(), client.ObjectKey{Name: svcName}, svc); err != nil {
		e.t.Fatalf("get service %s: %v", svcName, err)
	}
	pods := &corev1.PodList{}
	if err := e.fc.List(context.TODO(), pods, client.MatchingLabelsSelector{Selector: labels.SelectorFromSet(svc.Spec.Selector)}); err != nil {
		e.t.Fatalf("list pods: %v", err)
	}
	return len(pods.Items), svc.Spec.Selector
}

// Partition-style canary (Deployment, enableExtraWorkloadForCanary=false) with 2 replicas:
//
//	step1: replicas 1, traffic 10%
//	step2: replicas 2, traffic 50%   <- every stable pod is replaced in this step
//	step3: replicas 2, traffic 100%
//
// In step 2 Init the controller un-pins the stable Service (ingress-nginx 9635 bypass) because the
// step replaces all stable pods. While paused in step 2 the user raises the traffic of step 2
// (50% -> 60%). handleRolloutPlanChanged -> doCanaryJump puts the (same) step into state
// StepTrafficRouting because the replicas did not change, and DoTrafficRouting unconditionally
// pins the stable Service to status.stableRevision again - a revision without a single pod -
// while the ingress still sends 40% of the traffic to the stable Service.
func TestAuditC04_2_StableServiceRePinnedAfterAllStablePodsReplaced(t *testing.T) {
	const v1, v2 = "pod-template-hash-v1", "pod-template-hash-v2"

	dep := deploymentDemo.DeepCopy()
	dep.Spec.Replicas = utilpointer.Int32(2)
	dep.Labels[v1alpha1.DeploymentStableRevisionLabel] = v1
	rs1 := rsDemo.DeepCopy()
	rs1.Spec.Replicas = utilpointer.Int32(1)
	rs2 := rsDemo.DeepCopy()
	rs2.Name = "echoserver-2"
	rs2.Labels["pod-template-hash"] = v2
	rs2.Spec.Replicas = utilpointer.Int32(1)
	rs2.Spec.Template.Spec.Containers[0].Image = "echoserver:v2"

	rollout := rolloutDemo.DeepCopy()
	rollout.Spec.Strategy.Canary.EnableExtraWorkloadForCanary = false // partition style
	rollout.Spec.Strategy.Canary.Steps = []v1beta1.CanaryStep{
		{TrafficRoutingStrategy: v1beta1.TrafficRoutingStrategy{Traffic: utilpointer.String("10%")}, Replicas: &intstr.IntOrString{IntVal: 1}},
		{TrafficRoutingStrategy: v1beta1.TrafficRoutingStrategy{Traffic: utilpointer.String("50%")}, Replicas: &intstr.IntOrString{IntVal: 2}},
		{TrafficRoutingStrategy: v1beta1.TrafficRoutingStrategy{Traffic: utilpointer.String("100%")}, Replicas: &intstr.IntOrString{IntVal: 2}},
	}
	if !v1beta1.IsRealPartition(rollout) {
		t.Fatalf("expected a partition-style rollout")
	}
	delete(rollout.Annotations, util.RolloutHashAnnotation)

	pod := func(name, rev string) *corev1.Pod {
		return &corev1.Pod{ObjectMeta: metav1.ObjectMeta{Name: name, Labels: map[string]string{"app": "echoserver", "pod-template-hash": rev}}}
	}

	fc := fake.NewClientBuilder().WithScheme(scheme).WithObjects(rollout, demoConf.DeepCopy()).Build()
	for _, o := range []client.Object{rs1, rs2, dep, demoService.DeepCopy(), demoIngress.DeepCopy(), pod("p-old", v1), pod("p-new-1", v2)} {
		if err := fc.Create(context.TODO(), o); err != nil {
			t.Fatalf("create %T failed: %v", o, err)
		}
	}
	r := &RolloutReconciler{
		Client:                fc,
		Scheme:                scheme,
		Recorder:              record.NewFakeRecorder(1000),
		finder:                util.NewControllerFinder(fc),
		trafficRoutingManager: trafficrouting.NewTrafficRoutingManager(fc),
	}
	r.canaryManager = &canaryReleaseManager{Client: fc, trafficRoutingManager: r.trafficRoutingManager, recorder: r.Recorder}
	e := &auditC04x2Env{t: t, fc: fc, r: r}

	// ---- state: step 1 has upgraded one pod; the step is about to do its traffic routing
	{
		cur := &v1beta1.Rollout{}
		_ = fc.Get(context.TODO(), client.ObjectKey{Name: "rollout-demo"}, cur)
		_ = r.calculateRolloutHash(cur)
		_ = fc.Get(context.TODO(), client.ObjectKey{Name: "rollout-demo"}, cur)
		st := cur.Status.CanaryStatus
		st.ObservedWorkloadGeneration = 2
		st.RolloutHash = cur.Annotations[util.RolloutHashAnnotation]
		st.StableRevision = v1
		st.CanaryRevision = util.ComputeHash(&dep.Spec.Template, nil)
		st.ObservedRolloutID = st.CanaryRevision
		st.PodTemplateHash = v2
		st.CurrentStepIndex = 1
		st.NextStepIndex = 2
		st.CurrentStepState = v1beta1.CanaryStepStateTrafficRouting
		cond := util.GetRolloutCondition(cur.Status, v1beta1.RolloutConditionProgressing)
		cond.Reason = v1alpha1.ProgressingReasonInRolling
		util.SetRolloutCondition(&cur.Status, *cond)
		if err := fc.Status().Update(context.TODO(), cur); err != nil {
			t.Fatalf("init status: %v", err)
		}
		br := r.canaryManager.createBatchRelease(cur, st.CanaryRevision, 0, false)
		br.Generation = 1
		br.Status = v1beta1.BatchReleaseStatus{
			ObservedGeneration:      1,
			ObservedReleasePlanHash: util.HashReleasePlanBatches(&br.Spec.ReleasePlan),
			CanaryStatus:            v1beta1.BatchReleaseCanaryStatus{CurrentBatchState: v1beta1.ReadyBatchState, CurrentBatch: 0, UpdatedReplicas: 1, UpdatedReadyReplicas: 1},
		}
		if err := fc.Create(context.TODO(), br); err != nil {
			t.Fatalf("create br: %v", err)
		}
	}

	// ---- step 1 traffic routing: canary Service created, stable Service pinned, canary ingress 10%
	var st *v1beta1.RolloutStatus
	for i := 0; i < 6; i++ {
		st = e.reconcile("step1 traffic routing")
		e.timePasses()
		if st.CanaryStatus.CurrentStepState == v1beta1.CanaryStepStatePaused {
			break
		}
	}
	if st.CanaryStatus.CurrentStepState != v1beta1.CanaryStepStatePaused {
		t.Fatalf("step 1 did not reach StepPaused")
	}
	if n, sel := e.endpoints("echoserver"); n != 1 || sel["pod-template-hash"] != v1 {
		t.Fatalf("after step 1 the stable service should be pinned to v1 with one pod, got %d %v", n, sel)
	}

	// ---- user approves step 1 (kubectl-kruise rollout approve)
	e.setStatus(func(s *v1beta1.CanaryStatus) { s.CurrentStepState = v1beta1.CanaryStepStateReady })
	e.reconcile("approve step1") // -> step 2, StepInit
	e.reconcile("step2 init")    // un-pin stable Service (9635 bypass) and update BatchRelease to batch 2
	if n, sel := e.endpoints("echoserver"); sel["pod-template-hash"] != "" {
		t.Fatalf("step 2 init should have un-pinned the stable service, got %d %v", n, sel)
	}

	// ---- BatchRelease / Deployment controllers: replace the last stable pod, report batch 2 ready
	{
		br := &v1beta1.BatchRelease{}
		if err := fc.Get(context.TODO(), client.ObjectKey{Name: "rollout-demo"}, br); err != nil {
			t.Fatalf("get br: %v", err)
		}
		if br.Spec.ReleasePlan.BatchPartition == nil || *br.Spec.ReleasePlan.BatchPartition != 1 {
			t.Fatalf("batchPartition should be 1, got %v", br.Spec.ReleasePlan.BatchPartition)
		}
		br.Status.ObservedGeneration = br.Generation
		br.Status.ObservedReleasePlanHash = util.HashReleasePlanBatches(&br.Spec.ReleasePlan)
		br.Status.CanaryStatus = v1beta1.BatchReleaseCanaryStatus{CurrentBatchState: v1beta1.ReadyBatchState, CurrentBatch: 1, UpdatedReplicas: 2, UpdatedReadyReplicas: 2}
		if err := fc.Status().Update(context.TODO(), br); err != nil {
			t.Fatalf("update br status: %v", err)
		}
		_ = fc.Delete(context.TODO(), pod("p-old", v1))
		_ = fc.Create(context.TODO(), pod("p-new-2", v2))
		old := &apps.ReplicaSet{}
		_ = fc.Get(context.TODO(), client.ObjectKey{Name: rs1.Name}, old)
		old.Spec.Replicas = utilpointer.Int32(0)
		_ = fc.Update(context.TODO(), old)
	}
	for i := 0; i < 6; i++ {
		st = e.reconcile("step2 upgrade..paused")
		e.timePasses()
		if st.CanaryStatus.CurrentStepState == v1beta1.CanaryStepStatePaused {
			break
		}
	}
	if st.CanaryStatus.CurrentStepIndex != 2 || st.CanaryStatus.CurrentStepState != v1beta1.CanaryStepStatePaused {
		t.Fatalf("expected step 2 paused, got %d/%s", st.CanaryStatus.CurrentStepIndex, st.CanaryStatus.CurrentStepState)
	}
	if n, _ := e.endpoints("echoserver"); n != 2 {
		t.Fatalf("paused in step 2: un-pinned stable service should select both new pods, got %d", n)
	}

	// ---- the user edits the traffic of the current step: 50% -> 60%
	{
		cur := &v1beta1.Rollout{}
		_ = fc.Get(context.TODO(), client.ObjectKey{Name: "rollout-demo"}, cur)
		cur.Spec.Strategy.Canary.Steps[1].Traffic = utilpointer.String("60%")
		if err := fc.Update(context.TODO(), cur); err != nil {
			t.Fatalf("update rollout: %v", err)
		}
	}
	for i := 0; i < 6; i++ {
		st = e.reconcile("after plan change")
		e.timePasses()

		n, sel := e.endpoints("echoserver")
		ing := &netv1.Ingress{}
		_ = fc.Get(context.TODO(), client.ObjectKey{Name: "echoserver-canary"}, ing)
		w := ing.Annotations["nginx.ingress.kubernetes.io/canary-weight"]
		if sel["pod-template-hash"] != "" && n == 0 && w != "100" {
			fmt.Printf("REPRODUCED C04 (stable Service pinned to a revision while it receives traffic => pods of that revision exist): "+
				"step %d/%s after the user changed the traffic of the current step: stable Service selector=%v selects %d pods "+
				"(all pods are %s), canary ingress canary-weight=%s so the rest of the requests still goes to the stable Service -> void\n",
				st.CanaryStatus.CurrentStepIndex, st.CanaryStatus.CurrentStepState, sel, n, v2, w)
			return
		}
	}
	t.Fatalf("defect not reproduced")
}
