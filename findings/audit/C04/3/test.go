// dest: pkg/controller/rollout/zz_audit_C04_3_test.go
package rollout

import (
	"context"
	"fmt"
	"testing"
	"time"

	rolloutapi "github.com/openkruise/rollouts/api"
	"github.com/openkruise/rollouts/api/v1alpha1"
	"github.com/openkruise/rollouts/api/v1beta1"
	"github.com/openkruise/rollouts/pkg/trafficrouting"
	"github.com/openkruise/rollouts/pkg/util"
	corev1 "k8s.io/api/core/v1"
	"k8s.io/apimachinery/pkg/api/errors"
	metav1 "k8s.io/apimachinery/pkg/apis/meta/v1"
	"k8s.io/apimachinery/pkg/runtime"
	"k8s.io/apimachinery/pkg/types"
	"k8s.io/apimachinery/pkg/util/intstr"
	clientgoscheme "k8s.io/client-go/kubernetes/scheme"
	"k8s.io/client-go/tools/record"
	utilpointer "k8s.io/utils/pointer"
	ctrl "sigs.k8s.io/controller-runtime"
	"sigs.k8s.io/controller-runtime/pkg/client"
	"sigs.k8s.io/controller-runtime/pkg/client/fake"
	gatewayv1beta1 "sigs.k8s.io/gateway-api/apis/v1beta1"
)

type auditC04x3Env struct {
	t  *testing.T
	fc client.Client
	r  *RolloutReconciler
}

func (e *auditC04x3Env) get() *v1beta1.Rollout {
	cur := &v1beta1.Rollout{}
	if err := e.fc.Get(context.TODO(), client.ObjectKey{Name: "rollout-demo"}, cur); err != nil {
		if errors.IsNotFound(err) {
			return nil
		}
		e.t.Fatalf("get rollout: %v", err)
	}
	return cur
}

// the real RolloutReconciler.Reconcile
func (e *auditC04x3Env) reconcile(tag string) *v1beta1.Rollout {
	if _, err := e.r.Reconcile(context.TODO(), ctrl.Request{NamespacedName: types.NamespacedName{Name: "rollout-demo"}}); err != nil {
		e.t.Fatalf("%s: Reconcile failed: %v", tag, err)
	}
	cur := e.get()
	if cur == nil {
		e.t.Logf("%-34s rollout object is gone", tag)
		return nil
	}
	// let the wall clock "advance": move lastUpdateTime into the past
	if cur.Status.BlueGreenStatus != nil && cur.Status.BlueGreenStatus.LastUpdateTime != nil {
		cur.Status.BlueGreenStatus.LastUpdateTime = &metav1.Time{Time: time.Now().Add(-time.Minute)}
		if err := e.fc.Status().Update(context.TODO(), cur); err != nil {
			e.t.Fatalf("timePasses: %v", err)
		}
	}
	reason := ""
	if c := util.GetRolloutCondition(cur.Status, v1beta1.RolloutConditionProgressing); c != nil {
		reason = c.Reason
	}
	e.t.Logf("%-34s phase=%s reason=%s state=%s finalisingStep=%s", tag, cur.Status.Phase, reason,
		cur.Status.BlueGreenStatus.CurrentStepState, cur.Status.BlueGreenStatus.FinalisingStep)
	return cur
}

// (stable weight, canary weight, canary backend present)
func (e *auditC04x3Env) route() (int32, int32, bool) {
	route := &gatewayv1beta1.HTTPRoute{}
	if err := e.fc.Get(context.TODO(), client.ObjectKey{Name: "echoserver"}, route); err != nil {
		e.t.Fatalf("get route: %v", err)
	}
	var sw, cw int32 = -1, -1
	found := false
	for _, rule := range route.Spec.Rules {
		for _, ref := range rule.BackendRefs {
			w := int32(1)
			if ref.Weight != nil {
				w = *ref.Weight
			}
			switch string(ref.Name) {
			case "echoserver":
				sw = w
			case "echoserver-canary":
				cw = w
				found = true
			}
		}
	}
	return sw, cw, found
}

// A blue-green rollout (Gateway API provider) has succeeded and is finalising with the success
// sequence [RouteTrafficToNew, RestoreStableService, ResumeWorkload, RouteTrafficToStable,
// RemoveCanaryService, ReleaseWorkloadControl]. It sits in ResumeWorkload (the long task: wait
// until the Deployment has replaced the blue pods), with 100% of the traffic on the canary Service.
// Now the Rollout is deleted. reconcileRolloutTerminating re-uses the persisted cursor
// status.blueGreenStatus.finalisingStep but interprets it in the *delete* sequence
// [RestoreStableService, RouteTrafficToStable, RemoveCanaryService, ResumeWorkload,
// ReleaseWorkloadControl]: after ResumeWorkload only ReleaseWorkloadControl is left, so
// RouteTrafficToStable is never executed. The finalizer is removed, the Rollout disappears, the
// garbage collector removes the canary Service (ownerReference -> Rollout), and the HTTPRoute of
// the user keeps sending 100% of the traffic to it.
func TestAuditC04_3_DeleteDuringBlueGreenSuccessFinalisingLeavesRouteToCollectedCanaryService(t *testing.T) {
	const v1, v2 = "pod-template-hash-v1", "pod-template-hash-v2"
	sch := runtime.NewScheme()
	_ = clientgoscheme.AddToScheme(sch)
	_ = rolloutapi.AddToScheme(sch)
	_ = gatewayv1beta1.AddToScheme(sch)

	dep := deploymentDemo.DeepCopy()
	dep.Labels[v1alpha1.DeploymentStableRevisionLabel] = v1
	rs1 := rsDemo.DeepCopy()
	rs2 := rsDemo.DeepCopy()
	rs2.Name = "echoserver-2"
	rs2.Labels["pod-template-hash"] = v2
	rs2.Spec.Template.Spec.Containers[0].Image = "echoserver:v2"

	kind := gatewayv1beta1.Kind("Service")
	port := gatewayv1beta1.PortNumber(80)
	route := &gatewayv1beta1.HTTPRoute{
		ObjectMeta: metav1.ObjectMeta{Name: "echoserver"},
		Spec: gatewayv1beta1.HTTPRouteSpec{
			Rules: []gatewayv1beta1.HTTPRouteRule{{
				BackendRefs: []gatewayv1beta1.HTTPBackendRef{{
					BackendRef: gatewayv1beta1.BackendRef{
						BackendObjectReference: gatewayv1beta1.BackendObjectReference{Kind: &kind, Name: "echoserver", Port: &port},
						Weight:                 utilpointer.Int32(1),
					},
				}},
			}},
		},
	}

	rollout := rolloutDemoBlueGreen.DeepCopy()
	rollout.UID = "rollout-uid-1"
	rollout.Spec.Strategy.BlueGreen.Steps = []v1beta1.CanaryStep{
		{TrafficRoutingStrategy: v1beta1.TrafficRoutingStrategy{Traffic: utilpointer.String("0%")}, Replicas: &intstr.IntOrString{Type: intstr.String, StrVal: "100%"}},
		{TrafficRoutingStrategy: v1beta1.TrafficRoutingStrategy{Traffic: utilpointer.String("100%")}, Replicas: &intstr.IntOrString{Type: intstr.String, StrVal: "100%"}},
	}
	rollout.Spec.Strategy.BlueGreen.TrafficRoutings = []v1beta1.TrafficRoutingRef{{
		Service:            "echoserver",
		Gateway:            &v1beta1.GatewayTrafficRouting{HTTPRouteName: utilpointer.String("echoserver")},
		GracePeriodSeconds: 0,
	}}
	delete(rollout.Annotations, util.RolloutHashAnnotation)

	fc := fake.NewClientBuilder().WithScheme(sch).WithObjects(rollout, demoConf.DeepCopy()).Build()
	for _, o := range []client.Object{rs1, rs2, dep, demoService.DeepCopy(), route} {
		if err := fc.Create(context.TODO(), o); err != nil {
			t.Fatalf("create %T failed: %v", o, err)
		}
	}
	r := &RolloutReconciler{
		Client:                fc,
		Scheme:                sch,
		Recorder:              record.NewFakeRecorder(1000),
		finder:                util.NewControllerFinder(fc),
		trafficRoutingManager: trafficrouting.NewTrafficRoutingManager(fc),
	}
	r.blueGreenManager = &blueGreenReleaseManager{Client: fc, trafficRoutingManager: r.trafficRoutingManager, recorder: r.Recorder}
	r.canaryManager = &canaryReleaseManager{Client: fc, trafficRoutingManager: r.trafficRoutingManager, recorder: r.Recorder}
	e := &auditC04x3Env{t: t, fc: fc, r: r}

	// ---- state: last step (2/2), all green pods are up, the step is about to route the traffic
	{
		cur := e.get()
		_ = r.calculateRolloutHash(cur)
		cur = e.get()
		st := cur.Status.BlueGreenStatus
		st.ObservedWorkloadGeneration = 2
		st.RolloutHash = cur.Annotations[util.RolloutHashAnnotation]
		st.StableRevision = v1
		st.UpdatedRevision = util.ComputeHash(&dep.Spec.Template, nil)
		st.ObservedRolloutID = st.UpdatedRevision
		st.PodTemplateHash = v2
		st.CurrentStepIndex = 2
		st.NextStepIndex = -1
		st.CurrentStepState = v1beta1.CanaryStepStateTrafficRouting
		cond := util.GetRolloutCondition(cur.Status, v1beta1.RolloutConditionProgressing)
		cond.Reason = v1alpha1.ProgressingReasonInRolling
		util.SetRolloutCondition(&cur.Status, *cond)
		if err := fc.Status().Update(context.TODO(), cur); err != nil {
			t.Fatalf("init status: %v", err)
		}
		br := r.blueGreenManager.createBatchRelease(cur, st.UpdatedRevision, 1, false)
		br.Generation = 1
		br.Status = v1beta1.BatchReleaseStatus{
			ObservedGeneration:      1,
			ObservedReleasePlanHash: util.HashReleasePlanBatches(&br.Spec.ReleasePlan),
			CanaryStatus:            v1beta1.BatchReleaseCanaryStatus{CurrentBatchState: v1beta1.ReadyBatchState, CurrentBatch: 1, UpdatedReplicas: 10, UpdatedReadyReplicas: 10},
		}
		if err := fc.Create(context.TODO(), br); err != nil {
			t.Fatalf("create br: %v", err)
		}
	}

	// ---- last step routes 100% to the canary Service and pauses
	var cur *v1beta1.Rollout
	for i := 0; i < 8; i++ {
		cur = e.reconcile("step2 traffic routing")
		if cur.Status.BlueGreenStatus.CurrentStepState == v1beta1.CanaryStepStatePaused {
			break
		}
	}
	if cur.Status.BlueGreenStatus.CurrentStepState != v1beta1.CanaryStepStatePaused {
		t.Fatalf("did not reach StepPaused")
	}
	if sw, cw, ok := e.route(); !ok || cw != 100 || sw != 0 {
		t.Fatalf("expected route 0/100, got %d/%d %v", sw, cw, ok)
	}
	canarySvc := &corev1.Service{}
	if err := fc.Get(context.TODO(), client.ObjectKey{Name: "echoserver-canary"}, canarySvc); err != nil {
		t.Fatalf("canary service should exist: %v", err)
	}
	if len(canarySvc.OwnerReferences) != 1 || canarySvc.OwnerReferences[0].UID != rollout.UID {
		t.Fatalf("canary service should be owned by the rollout: %v", canarySvc.OwnerReferences)
	}

	// ---- user approves the last step -> success finalising, until it waits in ResumeWorkload
	cur.Status.BlueGreenStatus.CurrentStepState = v1beta1.CanaryStepStateReady
	if err := fc.Status().Update(context.TODO(), cur); err != nil {
		t.Fatalf("approve: %v", err)
	}
	for i := 0; i < 10; i++ {
		cur = e.reconcile("success finalising")
		if cur.Status.BlueGreenStatus.FinalisingStep == v1beta1.FinalisingStepResumeWorkload {
			break
		}
	}
	cur = e.reconcile("success finalising (resume)")
	cur = e.reconcile("success finalising (resume)")
	if cur.Status.BlueGreenStatus.FinalisingStep != v1beta1.FinalisingStepResumeWorkload {
		t.Fatalf("expected to wait in ResumeWorkload, got %s", cur.Status.BlueGreenStatus.FinalisingStep)
	}

	// ---- the Rollout is deleted while the Deployment is still replacing blue pods
	if err := fc.Delete(context.TODO(), cur); err != nil {
		t.Fatalf("delete rollout: %v", err)
	}
	if x := e.get(); x == nil || x.DeletionTimestamp.IsZero() {
		t.Fatalf("rollout should be terminating (finalizer)")
	}
	for i := 0; i < 20 && cur != nil; i++ {
		// BatchRelease controller: with finalizingPolicy=Immediate it completes at once
		br := &v1beta1.BatchRelease{}
		if err := fc.Get(context.TODO(), client.ObjectKey{Name: "rollout-demo"}, br); err == nil &&
			br.Spec.ReleasePlan.BatchPartition == nil && br.Spec.ReleasePlan.FinalizingPolicy == v1beta1.ImmediateFinalizingPolicyType &&
			br.Status.Phase != v1beta1.RolloutPhaseCompleted {
			br.Status.Phase = v1beta1.RolloutPhaseCompleted
			_ = fc.Status().Update(context.TODO(), br)
		}
		cur = e.reconcile("terminating")
	}
	if cur != nil {
		t.Fatalf("rollout should have been removed")
	}

	// ---- garbage collector: dependents of the deleted Rollout
	svcs := &corev1.ServiceList{}
	_ = fc.List(context.TODO(), svcs)
	for i := range svcs.Items {
		for _, ref := range svcs.Items[i].OwnerReferences {
			if ref.UID == rollout.UID {
				_ = fc.Delete(context.TODO(), &svcs.Items[i])
			}
		}
	}

	sw, cw, ok := e.route()
	err := fc.Get(context.TODO(), client.ObjectKey{Name: "echoserver-canary"}, &corev1.Service{})
	stable := &corev1.Service{}
	_ = fc.Get(context.TODO(), client.ObjectKey{Name: "echoserver"}, stable)
	if ok && cw > 0 && errors.IsNotFound(err) {
		fmt.Printf("REPRODUCED C04 (routes are withdrawn before the Service they point to is removed): Rollout deleted during "+
			"blue-green success finalising (cursor ResumeWorkload re-interpreted in the delete sequence, RouteTrafficToStable and "+
			"RemoveCanaryService skipped); the Rollout is gone, HTTPRoute weights stable=%d canary=%d, and Service echoserver-canary "+
			"(owned by the Rollout) no longer exists -> %d%% of the requests go into a void; stable Service selector=%v\n",
			sw, cw, cw, stable.Spec.Selector)
		return
	}
	t.Fatalf("defect not reproduced: route stable=%d canary=%d present=%v, canary svc err=%v", sw, cw, ok, err)
}
