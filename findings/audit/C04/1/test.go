// dest: pkg/controller/rollout/zz_audit_C04_1_test.go
package rollout

import (
	"context"
	"fmt"
	"testing"

	"github.com/openkruise/rollouts/api/v1alpha1"
	"github.com/openkruise/rollouts/api/v1beta1"
	"github.com/openkruise/rollouts/pkg/trafficrouting"
	"github.com/openkruise/rollouts/pkg/util"
	apps "k8s.io/api/apps/v1"
	corev1 "k8s.io/api/core/v1"
	netv1 "k8s.io/api/networking/v1"
	"k8s.io/apimachinery/pkg/api/errors"
	"k8s.io/apimachinery/pkg/util/intstr"
	"k8s.io/client-go/tools/record"
	"sigs.k8s.io/controller-runtime/pkg/client"
	"sigs.k8s.io/controller-runtime/pkg/client/fake"
)

// auditC04x1Void returns a description of a "route into a void" if, in the current cluster
// state, the canary ingress sends a non-zero share of the traffic to a Service that does not exist.
func auditC04x1Void(fc client.Client) string {
	ing := &netv1.Ingress{}
	if err := fc.Get(context.TODO(), client.ObjectKey{Name: "echoserver-canary"}, ing); err != nil {
		return ""
	}
	weight := ing.Annotations["nginx.ingress.kubernetes.io/canary-weight"]
	if weight == "" || weight == "0" {
		return ""
	}
	for _, rule := range ing.Spec.Rules {
		if rule.HTTP == nil {
			continue
		}
		for _, p := range rule.HTTP.Paths {
			if p.Backend.Service == nil {
				continue
			}
			svc := &corev1.Service{}
			err := fc.Get(context.TODO(), client.ObjectKey{Name: p.Backend.Service.Name}, svc)
			if errors.IsNotFound(err) {
				return fmt.Sprintf("canary ingress %q routes canary-weight=%s%% of the traffic to Service %q, which does not exist",
					ing.Name, weight, p.Backend.Service.Name)
			}
		}
	}
	return ""
}

// Blue-green rollout that has trafficRoutings configured, but whose (last) step carries no
// traffic/matches (accepted by the validating webhook: "no traffic strategy is configured for
// current step" -> continue). During the step the controller runs FinalisingTrafficRouting, so no
// canary Service exists. When the rollout succeeds, the first finalising task of the blue-green
// success sequence is FinalisingStepRouteTrafficToNew -> Manager.RouteAllTrafficToNewVersion, which
// creates the canary ingress and sets canary-weight=100 WITHOUT ever creating the canary Service.
func TestAuditC04_1_BlueGreenSuccessRoutesAllTrafficToMissingCanaryService(t *testing.T) {
	dep := deploymentDemo.DeepCopy()
	rs1 := rsDemo.DeepCopy()
	rs2 := rsDemo.DeepCopy()
	rs2.Name = "echoserver-2"
	rs2.Labels["pod-template-hash"] = "pod-template-hash-v2"
	rs2.Spec.Template.Spec.Containers[0].Image = "echoserver:v2"

	rollout := rolloutDemoBlueGreen.DeepCopy()
	// the classic blue-green: bring up 100% of the new version, pause, then switch.
	rollout.Spec.Strategy.BlueGreen.Steps = []v1beta1.CanaryStep{
		{Replicas: &intstr.IntOrString{Type: intstr.String, StrVal: "100%"}},
	}
	st := rollout.Status.BlueGreenStatus
	st.ObservedWorkloadGeneration = 2
	st.RolloutHash = rollout.Annotations[util.RolloutHashAnnotation]
	st.StableRevision = "pod-template-hash-v1"
	st.UpdatedRevision = util.ComputeHash(&dep.Spec.Template, nil)
	st.PodTemplateHash = "pod-template-hash-v2"
	st.ObservedRolloutID = st.UpdatedRevision
	st.CurrentStepIndex = 1
	st.NextStepIndex = util.NextBatchIndex(rollout, 1)
	// the user has just approved the (only) step
	st.CurrentStepState = v1beta1.CanaryStepStateReady
	cond := util.GetRolloutCondition(rollout.Status, v1beta1.RolloutConditionProgressing)
	cond.Reason = v1alpha1.ProgressingReasonInRolling
	util.SetRolloutCondition(&rollout.Status, *cond)

	fc := fake.NewClientBuilder().WithScheme(scheme).WithObjects(rollout, demoConf.DeepCopy()).Build()
	for _, o := range []client.Object{rs1, rs2, dep, demoService.DeepCopy(), demoIngress.DeepCopy()} {
		if err := fc.Create(context.TODO(), o); err != nil {
			t.Fatalf("create %T failed: %v", o, err)
		}
	}
	r := &RolloutReconciler{
		Client:                fc,
		Scheme:                scheme,
		Recorder:              record.NewFakeRecorder(100),
		finder:                util.NewControllerFinder(fc),
		trafficRoutingManager: trafficrouting.NewTrafficRoutingManager(fc),
	}
	r.blueGreenManager = &blueGreenReleaseManager{Client: fc, trafficRoutingManager: r.trafficRoutingManager, recorder: r.Recorder}
	r.canaryManager = &canaryReleaseManager{Client: fc, trafficRoutingManager: r.trafficRoutingManager, recorder: r.Recorder}

	if v := auditC04x1Void(fc); v != "" {
		t.Fatalf("unexpected void before start: %s", v)
	}
	for i := 1; i <= 12; i++ {
		cur := &v1beta1.Rollout{}
		if err := fc.Get(context.TODO(), client.ObjectKey{Name: rollout.Name}, cur); err != nil {
			t.Fatalf("get rollout: %v", err)
		}
		newStatus := cur.Status.DeepCopy()
		if _, err := r.reconcileRolloutProgressing(cur, newStatus); err != nil {
			t.Fatalf("reconcile %d failed: %v", i, err)
		}
		if err := r.updateRolloutStatusInternal(cur, *newStatus); err != nil {
			t.Fatalf("update status: %v", err)
		}
		c := util.GetRolloutCondition(*newStatus, v1beta1.RolloutConditionProgressing)
		t.Logf("reconcile %d: reason=%s stepState=%s finalisingStep=%s", i, c.Reason,
			newStatus.BlueGreenStatus.CurrentStepState, newStatus.BlueGreenStatus.FinalisingStep)
		if v := auditC04x1Void(fc); v != "" {
			fmt.Printf("REPRODUCED C04 (gateway rule to canary Service => canary Service exists): blue-green success finalising, "+
				"task FinalisingStepRouteTrafficToNew just finished (cursor now %s), reconcile %d: %s\n", newStatus.BlueGreenStatus.FinalisingStep, i, v)
			// make sure the stable Deployment is the only workload and that nothing backs the canary service
			deps := &apps.DeploymentList{}
			_ = fc.List(context.TODO(), deps)
			t.Logf("deployments in cluster: %d", len(deps.Items))
			return
		}
		if c.Reason == v1alpha1.ProgressingReasonCompleted {
			break
		}
	}
	t.Fatalf("defect not reproduced: traffic was never routed to a missing canary Service")
}
