// dest: pkg/trafficrouting/network/gateway/zz_audit_C13_2_test.go
package gateway

import (
	"context"
	"fmt"
	"reflect"
	"testing"

	"github.com/openkruise/rollouts/api/v1beta1"
	metav1 "k8s.io/apimachinery/pkg/apis/meta/v1"
	"k8s.io/apimachinery/pkg/runtime"
	"k8s.io/apimachinery/pkg/types"
	utilpointer "k8s.io/utils/pointer"
	"sigs.k8s.io/controller-runtime/pkg/client/fake"
	gatewayv1beta1 "sigs.k8s.io/gateway-api/apis/v1beta1"
)

// History: EnsureRoutes(weight 10%) ; Finalise  on a user rule that splits traffic between the
// stable Service (weight 80) and a foreign backend (weight 20).
// Finalise hard-codes stable weight = 1 instead of restoring the user's weight, so the rule the
// user wrote is not kept: the stable:foreign split becomes 1:20 (stable gets ~4.8%% instead of 80%%).
func TestAuditC13_2_FinaliseOverwritesUserStableWeight(t *testing.T) {
	scheme := runtime.NewScheme()
	_ = gatewayv1beta1.AddToScheme(scheme)

	kind := gatewayv1beta1.Kind("Service")
	port := gatewayv1beta1.PortNumber(8080)
	pathType := gatewayv1beta1.PathMatchPathPrefix
	svcRef := func(name string, w int32) gatewayv1beta1.HTTPBackendRef {
		return gatewayv1beta1.HTTPBackendRef{BackendRef: gatewayv1beta1.BackendRef{
			BackendObjectReference: gatewayv1beta1.BackendObjectReference{Kind: &kind, Name: gatewayv1beta1.ObjectName(name), Port: &port},
			Weight:                 utilpointer.Int32(w),
		}}
	}
	route := &gatewayv1beta1.HTTPRoute{
		ObjectMeta: metav1.ObjectMeta{Namespace: "default", Name: "demo"},
		Spec: gatewayv1beta1.HTTPRouteSpec{
			Rules: []gatewayv1beta1.HTTPRouteRule{
				{
					Matches:     []gatewayv1beta1.HTTPRouteMatch{{Path: &gatewayv1beta1.HTTPPathMatch{Type: &pathType, Value: utilpointer.String("/store")}}},
					BackendRefs: []gatewayv1beta1.HTTPBackendRef{svcRef("store-svc", 80), svcRef("legacy-store-svc", 20)},
				},
			},
		},
	}
	original := route.DeepCopy().Spec.Rules
	cli := fake.NewClientBuilder().WithScheme(scheme).WithObjects(route).Build()
	ctl, _ := NewGatewayTrafficRouting(cli, Config{
		Key: "default/demo", Namespace: "default",
		StableService: "store-svc", CanaryService: "store-svc-canary",
		TrafficConf: &v1beta1.GatewayTrafficRouting{HTTPRouteName: utilpointer.String("demo")},
	})
	ctx := context.TODO()
	get := func() []gatewayv1beta1.HTTPRouteRule {
		got := &gatewayv1beta1.HTTPRoute{}
		if err := cli.Get(ctx, types.NamespacedName{Namespace: "default", Name: "demo"}, got); err != nil {
			t.Fatalf("get route: %v", err)
		}
		return got.Spec.Rules
	}

	if _, err := ctl.EnsureRoutes(ctx, &v1beta1.TrafficRoutingStrategy{Traffic: utilpointer.String("10%")}); err != nil {
		t.Fatalf("step: %v", err)
	}
	if _, err := ctl.Finalise(ctx); err != nil {
		t.Fatalf("finalise: %v", err)
	}
	after := get()
	if reflect.DeepEqual(after, original) {
		t.Fatalf("NOT reproduced: rule restored exactly")
	}
	if len(after) != 1 || len(after[0].BackendRefs) != 2 {
		t.Fatalf("unexpected shape after finalise: %+v", after)
	}
	stableW := *after[0].BackendRefs[0].Weight
	foreignW := *after[0].BackendRefs[1].Weight
	if stableW == 80 {
		t.Fatalf("NOT reproduced: stable weight restored to 80")
	}
	fmt.Printf("REPRODUCED C13: history EnsureRoutes(10%%);Finalise - finalising must keep every rule the user wrote, but the user's rule had store-svc weight 80 / legacy-store-svc weight 20 "+
		"and after Finalise it has store-svc weight %d / legacy-store-svc weight %d (stable share dropped from 80%% to %.1f%%); the user-written stable weight is overwritten with the constant 1\n",
		stableW, foreignW, 100*float64(stableW)/float64(stableW+foreignW))

	// Even a Finalise with no preceding step (no canary reference anywhere) rewrites the user's rule.
	route2 := route.DeepCopy()
	route2.ResourceVersion = ""
	cli2 := fake.NewClientBuilder().WithScheme(scheme).WithObjects(route2).Build()
	ctl2, _ := NewGatewayTrafficRouting(cli2, Config{
		Key: "default/demo", Namespace: "default",
		StableService: "store-svc", CanaryService: "store-svc-canary",
		TrafficConf: &v1beta1.GatewayTrafficRouting{HTTPRouteName: utilpointer.String("demo")},
	})
	if _, err := ctl2.Finalise(ctx); err != nil {
		t.Fatalf("finalise2: %v", err)
	}
	got2 := &gatewayv1beta1.HTTPRoute{}
	_ = cli2.Get(ctx, types.NamespacedName{Namespace: "default", Name: "demo"}, got2)
	if w := got2.Spec.Rules[0].BackendRefs[0].Weight; w != nil && *w == 1 {
		fmt.Printf("REPRODUCED C13: Finalise alone (no canary reference present) also rewrites the user's stable weight 80 -> %d\n", *w)
	}
}
