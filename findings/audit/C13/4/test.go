// dest: pkg/trafficrouting/network/gateway/zz_audit_C13_4_test.go
package gateway

import (
	"context"
	"fmt"
	"reflect"
	"testing"

	"github.com/openkruise/rollouts/api/v1beta1"
	metav1 "k8s.io/apimachinery/pkg/apis/meta/v1"
	"k8s.io/apimachinery/pkg/runtime"
	"k8s.io/apimachinery/pkg/types"
	utilpointer "k8s.io/utils/pointer"
	"sigs.k8s.io/controller-runtime/pkg/client/fake"
	gatewayv1beta1 "sigs.k8s.io/gateway-api/apis/v1beta1"
)

// The stable Service of the rollout is default/store-svc. The route (in namespace default) has a
// rule whose only backend is the Service store-svc of ANOTHER namespace ("team-b", cross-namespace
// backendRef). That rule does not reference the stable Service, yet getServiceBackendRef compares
// only kind+name (backendRef.namespace / group are never looked at), so the weight step rewrites it
// and points w%% of its traffic at a non-existing team-b/store-svc-canary; the match step
// generates a canary rule for it; Finalise overwrites its weight.
func TestAuditC13_4_ForeignNamespaceBackendTreatedAsStable(t *testing.T) {
	scheme := runtime.NewScheme()
	_ = gatewayv1beta1.AddToScheme(scheme)

	kind := gatewayv1beta1.Kind("Service")
	port := gatewayv1beta1.PortNumber(8080)
	otherNs := gatewayv1beta1.Namespace("team-b")
	pathType := gatewayv1beta1.PathMatchPathPrefix
	foreign := gatewayv1beta1.HTTPBackendRef{BackendRef: gatewayv1beta1.BackendRef{
		BackendObjectReference: gatewayv1beta1.BackendObjectReference{Kind: &kind, Name: "store-svc", Namespace: &otherNs, Port: &port},
		Weight:                 utilpointer.Int32(5),
	}}
	stable := gatewayv1beta1.HTTPBackendRef{BackendRef: gatewayv1beta1.BackendRef{
		BackendObjectReference: gatewayv1beta1.BackendObjectReference{Kind: &kind, Name: "store-svc", Port: &port},
	}}
	route := &gatewayv1beta1.HTTPRoute{
		ObjectMeta: metav1.ObjectMeta{Namespace: "default", Name: "demo"},
		Spec: gatewayv1beta1.HTTPRouteSpec{
			Rules: []gatewayv1beta1.HTTPRouteRule{
				{ // rule of the rollout's own stable service default/store-svc
					Matches:     []gatewayv1beta1.HTTPRouteMatch{{Path: &gatewayv1beta1.HTTPPathMatch{Type: &pathType, Value: utilpointer.String("/store")}}},
					BackendRefs: []gatewayv1beta1.HTTPBackendRef{stable},
				},
				{ // unrelated rule: team-b/store-svc
					Matches:     []gatewayv1beta1.HTTPRouteMatch{{Path: &gatewayv1beta1.HTTPPathMatch{Type: &pathType, Value: utilpointer.String("/team-b/store")}}},
					BackendRefs: []gatewayv1beta1.HTTPBackendRef{foreign},
				},
			},
		},
	}
	originalForeignRule := route.DeepCopy().Spec.Rules[1]
	cli := fake.NewClientBuilder().WithScheme(scheme).WithObjects(route).Build()
	ctl, _ := NewGatewayTrafficRouting(cli, Config{
		Key: "default/demo", Namespace: "default",
		StableService: "store-svc", CanaryService: "store-svc-canary",
		TrafficConf: &v1beta1.GatewayTrafficRouting{HTTPRouteName: utilpointer.String("demo")},
	})
	ctx := context.TODO()
	get := func() []gatewayv1beta1.HTTPRouteRule {
		got := &gatewayv1beta1.HTTPRoute{}
		if err := cli.Get(ctx, types.NamespacedName{Namespace: "default", Name: "demo"}, got); err != nil {
			t.Fatalf("get route: %v", err)
		}
		return got.Spec.Rules
	}

	if _, err := ctl.EnsureRoutes(ctx, &v1beta1.TrafficRoutingStrategy{Traffic: utilpointer.String("30%")}); err != nil {
		t.Fatalf("step: %v", err)
	}
	afterWeight := get()
	if len(afterWeight) != 2 {
		t.Fatalf("unexpected rule count %d", len(afterWeight))
	}
	if reflect.DeepEqual(afterWeight[1], originalForeignRule) {
		t.Fatalf("NOT reproduced: the team-b rule was left untouched by the weight step")
	}
	desc := ""
	for _, b := range afterWeight[1].BackendRefs {
		ns := "<route ns>"
		if b.Namespace != nil {
			ns = string(*b.Namespace)
		}
		desc += fmt.Sprintf(" %s/%s=%d", ns, b.Name, *b.Weight)
	}
	fmt.Printf("REPRODUCED C13: weight step 30%% - rules that do not reference the stable Service (default/store-svc) must never be altered, "+
		"but the rule '/team-b/store' whose only backend is team-b/store-svc (weight 5) was rewritten to:%s\n", desc)

	if _, err := ctl.Finalise(ctx); err != nil {
		t.Fatalf("finalise: %v", err)
	}
	afterFinalise := get()
	if !reflect.DeepEqual(afterFinalise[1], originalForeignRule) {
		fmt.Printf("REPRODUCED C13: after Finalise the unrelated rule is still not what the user wrote: team-b/store-svc weight %d (user wrote 5)\n",
			*afterFinalise[1].BackendRefs[0].Weight)
	}
}
