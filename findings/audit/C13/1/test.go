// dest: pkg/trafficrouting/network/gateway/zz_audit_C13_1_test.go
package gateway

import (
	"context"
	"fmt"
	"testing"

	"github.com/openkruise/rollouts/api/v1beta1"
	metav1 "k8s.io/apimachinery/pkg/apis/meta/v1"
	"k8s.io/apimachinery/pkg/runtime"
	"k8s.io/apimachinery/pkg/types"
	utilpointer "k8s.io/utils/pointer"
	"sigs.k8s.io/controller-runtime/pkg/client/fake"
	gatewayv1beta1 "sigs.k8s.io/gateway-api/apis/v1beta1"
)

// History: EnsureRoutes(weight 20%) ; EnsureRoutes(match step: header) ; Finalise.
// The match-step builder skips (drops) every rule that contains a canary backendRef,
// assuming it is a generated rule. After a weight step the USER's rule contains the
// canary backendRef, so the user's rule is deleted from the HTTPRoute and never comes back.
func TestAuditC13_1_WeightThenMatchDropsUserRule(t *testing.T) {
	scheme := runtime.NewScheme()
	_ = gatewayv1beta1.AddToScheme(scheme)

	kind := gatewayv1beta1.Kind("Service")
	port := gatewayv1beta1.PortNumber(8080)
	pathType := gatewayv1beta1.PathMatchPathPrefix
	svcRef := func(name string) gatewayv1beta1.HTTPBackendRef {
		return gatewayv1beta1.HTTPBackendRef{BackendRef: gatewayv1beta1.BackendRef{
			BackendObjectReference: gatewayv1beta1.BackendObjectReference{Kind: &kind, Name: gatewayv1beta1.ObjectName(name), Port: &port},
		}}
	}
	route := &gatewayv1beta1.HTTPRoute{
		ObjectMeta: metav1.ObjectMeta{Namespace: "default", Name: "demo"},
		Spec: gatewayv1beta1.HTTPRouteSpec{
			Rules: []gatewayv1beta1.HTTPRouteRule{
				{ // user rule targeting the stable service
					Matches:     []gatewayv1beta1.HTTPRouteMatch{{Path: &gatewayv1beta1.HTTPPathMatch{Type: &pathType, Value: utilpointer.String("/store")}}},
					BackendRefs: []gatewayv1beta1.HTTPBackendRef{svcRef("store-svc")},
				},
				{ // unrelated rule
					Matches:     []gatewayv1beta1.HTTPRouteMatch{{Path: &gatewayv1beta1.HTTPPathMatch{Type: &pathType, Value: utilpointer.String("/list")}}},
					BackendRefs: []gatewayv1beta1.HTTPBackendRef{svcRef("list-svc")},
				},
			},
		},
	}
	cli := fake.NewClientBuilder().WithScheme(scheme).WithObjects(route).Build()
	ctl, _ := NewGatewayTrafficRouting(cli, Config{
		Key: "default/demo", Namespace: "default",
		StableService: "store-svc", CanaryService: "store-svc-canary",
		TrafficConf: &v1beta1.GatewayTrafficRouting{HTTPRouteName: utilpointer.String("demo")},
	})
	ctx := context.TODO()
	get := func() []gatewayv1beta1.HTTPRouteRule {
		got := &gatewayv1beta1.HTTPRoute{}
		if err := cli.Get(ctx, types.NamespacedName{Namespace: "default", Name: "demo"}, got); err != nil {
			t.Fatalf("get route: %v", err)
		}
		return got.Spec.Rules
	}
	stableRules := func(rules []gatewayv1beta1.HTTPRouteRule) int {
		n := 0
		for _, r := range rules {
			for _, b := range r.BackendRefs {
				if string(b.Name) == "store-svc" {
					n++
				}
			}
		}
		return n
	}

	// step 1: weight 20%
	if _, err := ctl.EnsureRoutes(ctx, &v1beta1.TrafficRoutingStrategy{Traffic: utilpointer.String("20%")}); err != nil {
		t.Fatalf("step1: %v", err)
	}
	if stableRules(get()) != 1 {
		t.Fatalf("unexpected: after the weight step the stable rule should exist")
	}
	// step 2: match step (header)
	step2 := &v1beta1.TrafficRoutingStrategy{Matches: []v1beta1.HttpRouteMatch{
		{Headers: []gatewayv1beta1.HTTPHeaderMatch{{Name: "user_id", Value: "123"}}},
	}}
	if _, err := ctl.EnsureRoutes(ctx, step2); err != nil {
		t.Fatalf("step2: %v", err)
	}
	afterMatch := get()
	// finalise
	if _, err := ctl.Finalise(ctx); err != nil {
		t.Fatalf("finalise: %v", err)
	}
	afterFinalise := get()

	if stableRules(afterMatch) != 0 || stableRules(afterFinalise) != 0 {
		t.Fatalf("NOT reproduced: user rule for store-svc survived (afterMatch=%d rules targeting stable, afterFinalise=%d)",
			stableRules(afterMatch), stableRules(afterFinalise))
	}
	fmt.Printf("REPRODUCED C13: history EnsureRoutes(20%%);EnsureRoutes(header match);Finalise - the match step must keep the original rules and finalise must keep every rule the user wrote, "+
		"but the user's rule '/store -> store-svc' was deleted by the match step (rules after match step: %d, none targets store-svc, no canary rule generated) "+
		"and is still missing after Finalise (rules left: %d of 2 user-written)\n", len(afterMatch), len(afterFinalise))
}
