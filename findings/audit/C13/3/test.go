// dest: pkg/trafficrouting/network/gateway/zz_audit_C13_3_test.go
package gateway

import (
	"context"
	"fmt"
	"testing"

	"github.com/openkruise/rollouts/api/v1beta1"
	metav1 "k8s.io/apimachinery/pkg/apis/meta/v1"
	"k8s.io/apimachinery/pkg/runtime"
	"k8s.io/apimachinery/pkg/types"
	utilpointer "k8s.io/utils/pointer"
	"sigs.k8s.io/controller-runtime/pkg/client/fake"
	gatewayv1beta1 "sigs.k8s.io/gateway-api/apis/v1beta1"
)

// Match step (header only) on a stable rule that has NO matches (`matches: []`, i.e. "match
// everything"). The header/query conditions are merged by iterating over the original rule's
// matches; with zero original matches nothing is generated, yet the canary rule is still emitted
// with Matches == nil -> a catch-all canary rule that accepts requests that do NOT carry the
// user's header.
func TestAuditC13_3_MatchStepOnRuleWithoutMatchesYieldsCatchAllCanaryRule(t *testing.T) {
	scheme := runtime.NewScheme()
	_ = gatewayv1beta1.AddToScheme(scheme)

	kind := gatewayv1beta1.Kind("Service")
	port := gatewayv1beta1.PortNumber(8080)
	svcRef := func(name string) gatewayv1beta1.HTTPBackendRef {
		return gatewayv1beta1.HTTPBackendRef{BackendRef: gatewayv1beta1.BackendRef{
			BackendObjectReference: gatewayv1beta1.BackendObjectReference{Kind: &kind, Name: gatewayv1beta1.ObjectName(name), Port: &port},
		}}
	}
	route := &gatewayv1beta1.HTTPRoute{
		ObjectMeta: metav1.ObjectMeta{Namespace: "default", Name: "demo"},
		Spec: gatewayv1beta1.HTTPRouteSpec{
			Rules: []gatewayv1beta1.HTTPRouteRule{
				{ // no matches: the rule accepts every request of the route's hostnames
					BackendRefs: []gatewayv1beta1.HTTPBackendRef{svcRef("store-svc")},
				},
			},
		},
	}
	cli := fake.NewClientBuilder().WithScheme(scheme).WithObjects(route).Build()
	ctl, _ := NewGatewayTrafficRouting(cli, Config{
		Key: "default/demo", Namespace: "default",
		StableService: "store-svc", CanaryService: "store-svc-canary",
		TrafficConf: &v1beta1.GatewayTrafficRouting{HTTPRouteName: utilpointer.String("demo")},
	})
	ctx := context.TODO()
	step := &v1beta1.TrafficRoutingStrategy{Matches: []v1beta1.HttpRouteMatch{
		{Headers: []gatewayv1beta1.HTTPHeaderMatch{{Name: "user_id", Value: "123"}}},
		{QueryParams: []gatewayv1beta1.HTTPQueryParamMatch{{Name: "canary", Value: "true"}}},
	}}
	if _, err := ctl.EnsureRoutes(ctx, step); err != nil {
		t.Fatalf("step: %v", err)
	}
	got := &gatewayv1beta1.HTTPRoute{}
	if err := cli.Get(ctx, types.NamespacedName{Namespace: "default", Name: "demo"}, got); err != nil {
		t.Fatalf("get: %v", err)
	}
	var canary *gatewayv1beta1.HTTPRouteRule
	for i := range got.Spec.Rules {
		r := &got.Spec.Rules[i]
		if len(r.BackendRefs) == 1 && string(r.BackendRefs[0].Name) == "store-svc-canary" {
			canary = r
		}
	}
	if canary == nil {
		t.Fatalf("NOT reproduced: no canary rule was generated (rules=%d)", len(got.Spec.Rules))
	}
	if len(canary.Matches) != 0 {
		t.Fatalf("NOT reproduced: canary rule carries matches %+v", canary.Matches)
	}
	fmt.Printf("REPRODUCED C13: match step {header user_id=123} OR {query canary=true} on a stable rule without matches - each generated canary rule must accept only requests satisfying one of the user's matches, "+
		"but the generated rule -> store-svc-canary has %d matches (catch-all): the header and query conditions were lost, so requests without user_id=123 / canary=true are accepted by the canary rule\n",
		len(canary.Matches))
}
