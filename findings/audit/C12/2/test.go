// dest: pkg/controller/batchrelease/labelpatch/zz_audit_C12_2_test.go
package labelpatch

import (
	"context"
	"fmt"
	"k8s.io/klog/v2"
	"sigs.k8s.io/controller-runtime/pkg/client"
	"sigs.k8s.io/controller-runtime/pkg/client/fake"
	"strconv"
	"testing"

	"github.com/openkruise/rollouts/api/v1beta1"
	batchcontext "github.com/openkruise/rollouts/pkg/controller/batchrelease/context"
	deploymentutil "github.com/openkruise/rollouts/pkg/controller/deployment/util"
	appsv1 "k8s.io/api/apps/v1"
	corev1 "k8s.io/api/core/v1"
	metav1 "k8s.io/apimachinery/pkg/apis/meta/v1"
	"k8s.io/apimachinery/pkg/util/intstr"
	"k8s.io/utils/pointer"
)

// Partition-style (and blue-green) Deployment: the number of pods a batch adds is decided by
// deploymentutil.NewRSReplicasLimit (a percentage other than "100%" never reaches all replicas: min(ceil(p*N), N-1)).
// That is the value partitionstyle/deployment.CalculateBatchContext puts into PlannedUpdatedReplicas and the value the
// advanced deployment controller scales the new ReplicaSet to. The label patcher ignores it and recomputes the plan
// with its own calculateBatchReplicas (plain ceil(p*N)), so its per-batch budgets differ from the plan that is executed.
func TestAuditC12_2_DeploymentPlanSiblingMismatch(t *testing.T) {
	const replicas = 3
	d := &appsv1.Deployment{Spec: appsv1.DeploymentSpec{Replicas: pointer.Int32(replicas)}}
	batches := []v1beta1.ReleaseBatch{
		{CanaryReplicas: intstr.FromString("50%")},
		{CanaryReplicas: intstr.FromString("80%")},
		{CanaryReplicas: intstr.FromString("100%")},
	}
	// what each batch adds under the plan as the Deployment controllers execute it
	planned := make([]int, len(batches))
	adds := make([]int, len(batches))
	for i := range batches {
		planned[i] = int(deploymentutil.NewRSReplicasLimit(batches[i].CanaryReplicas, d))
		adds[i] = planned[i]
		if i > 0 {
			adds[i] -= planned[i-1]
		}
	}
	t.Logf("cumulative planned (NewRSReplicasLimit) = %v, per-batch adds = %v", planned, adds)

	// the store: 3 old pods; at every batch `planned[batch]` of them have been replaced by new-revision pods
	newPod := func(i int) *corev1.Pod {
		return &corev1.Pod{ObjectMeta: metav1.ObjectMeta{Namespace: "default", Name: fmt.Sprintf("new-%d", i),
			Labels: map[string]string{appsv1.ControllerRevisionHashLabelKey: "v2"}}}
	}
	oldPod := func(i int) *corev1.Pod {
		return &corev1.Pod{ObjectMeta: metav1.ObjectMeta{Namespace: "default", Name: fmt.Sprintf("old-%d", i),
			Labels: map[string]string{appsv1.ControllerRevisionHashLabelKey: "v1"}}}
	}
	var current []*corev1.Pod // pods as re-read from the store after the previous pass
	for batch := 0; batch < len(batches); batch++ {
		// keep the already present (and already labelled) new pods, add the ones this batch creates
		var pods []*corev1.Pod
		have := 0
		for _, p := range current {
			if p.Labels[appsv1.ControllerRevisionHashLabelKey] == "v2" {
				pods = append(pods, p)
				have++
			}
		}
		for i := have; i < planned[batch]; i++ {
			pods = append(pods, newPod(i))
		}
		for i := planned[batch]; i < replicas; i++ {
			pods = append(pods, oldPod(i))
		}
		ctx := &batchcontext.BatchContext{
			RolloutID:              "r1",
			UpdateRevision:         "v2",
			CurrentBatch:           int32(batch),
			Replicas:               replicas,
			DesiredPartition:       batches[batch].CanaryReplicas,
			PlannedUpdatedReplicas: int32(planned[batch]),
			DesiredUpdatedReplicas: int32(planned[batch]),
			Pods:                   pods,
		}
		for _, p := range pods {
			p.ResourceVersion = ""
		}
		current = auditC12Label2(t, ctx, batches)
		// second pass for idempotence
		ctx.Pods = current
		for _, p := range current {
			p.ResourceVersion = ""
		}
		current = auditC12Label2(t, ctx, batches)
	}

	got := make([]int, len(batches))
	where := map[string]string{}
	for _, p := range current {
		if p.Labels[v1beta1.RolloutIDLabel] != "r1" {
			continue
		}
		id, err := strconv.Atoi(p.Labels[v1beta1.RolloutBatchIDLabel])
		if err != nil {
			t.Fatalf("bad batch id on %s", p.Name)
		}
		got[id-1]++
		where[p.Name] = p.Labels[v1beta1.RolloutBatchIDLabel]
	}
	t.Logf("pods carrying (r1, batch i) = %v, %v", got, where)
	for i := range batches {
		if got[i] > adds[i] {
			t.Logf("REPRODUCED: Deployment with %d replicas and plan 50%%/80%%/100%%: batch %d adds %d pod(s) under the plan "+
				"(NewRSReplicasLimit cumulative %v) but %d pod(s) carry (rollout-id, batch %d); the pod created by batch 3 (new-2) is labelled batch %q. "+
				"patcher.calculateBatchReplicas (ceil, no N-1 cap) differs from the sibling NewRSReplicasLimit used for PlannedUpdatedReplicas.",
				replicas, i+1, adds[i], planned, got[i], i+1, where["new-2"])
			return
		}
	}
	t.Fatalf("not reproduced: got %v adds %v", got, adds)
}

// runs the real patcher against a fake store, then re-reads the pods from the store
func auditC12Label2(t *testing.T, ctx *batchcontext.BatchContext, batches []v1beta1.ReleaseBatch) []*corev1.Pod {
	var objects []client.Object
	for _, pod := range ctx.Pods {
		objects = append(objects, pod)
	}
	cli := fake.NewClientBuilder().WithScheme(scheme).WithObjects(objects...).Build()
	patcher := NewLabelPatcher(cli, klog.ObjectRef{Name: "audit"}, batches)
	if err := patcher.PatchPodBatchLabel(ctx); err != nil {
		t.Fatalf("PatchPodBatchLabel: %v", err)
	}
	podList := &corev1.PodList{}
	if err := cli.List(context.TODO(), podList); err != nil {
		t.Fatalf("list: %v", err)
	}
	var out []*corev1.Pod
	for i := range podList.Items {
		out = append(out, &podList.Items[i])
	}
	return out
}
