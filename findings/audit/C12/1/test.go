// dest: pkg/controller/batchrelease/labelpatch/zz_audit_C12_1_test.go
package labelpatch

import (
	"context"
	"fmt"
	"strconv"
	"testing"

	"github.com/openkruise/rollouts/api/v1beta1"
	batchcontext "github.com/openkruise/rollouts/pkg/controller/batchrelease/context"
	appsv1 "k8s.io/api/apps/v1"
	corev1 "k8s.io/api/core/v1"
	metav1 "k8s.io/apimachinery/pkg/apis/meta/v1"
	"k8s.io/apimachinery/pkg/util/intstr"
	"k8s.io/klog/v2"
	"sigs.k8s.io/controller-runtime/pkg/client"
	"sigs.k8s.io/controller-runtime/pkg/client/fake"
)

func auditC12Pod(name, revision string, extra map[string]string) *corev1.Pod {
	labels := map[string]string{appsv1.ControllerRevisionHashLabelKey: revision}
	for k, v := range extra {
		labels[k] = v
	}
	return &corev1.Pod{ObjectMeta: metav1.ObjectMeta{Namespace: "default", Name: name, Labels: labels}}
}

// runs the real patcher against a fake store, then re-reads the pods from the store
func auditC12Label(t *testing.T, ctx *batchcontext.BatchContext, batches []v1beta1.ReleaseBatch) []*corev1.Pod {
	var objects []client.Object
	for _, pod := range ctx.Pods {
		objects = append(objects, pod)
	}
	cli := fake.NewClientBuilder().WithScheme(scheme).WithObjects(objects...).Build()
	patcher := NewLabelPatcher(cli, klog.ObjectRef{Name: "audit"}, batches)
	if err := patcher.PatchPodBatchLabel(ctx); err != nil {
		t.Fatalf("PatchPodBatchLabel: %v", err)
	}
	podList := &corev1.PodList{}
	if err := cli.List(context.TODO(), podList); err != nil {
		t.Fatalf("list: %v", err)
	}
	var out []*corev1.Pod
	for i := range podList.Items {
		out = append(out, &podList.Items[i])
	}
	return out
}

// number of live pods of the update revision that carry a well-formed (rollout-id, batch<=current) label
func auditC12ProperlyLabelled(pods []*corev1.Pod, rolloutID, revision string, batches int) int {
	n := 0
	for _, pod := range pods {
		if !pod.DeletionTimestamp.IsZero() || pod.Labels[appsv1.ControllerRevisionHashLabelKey] != revision {
			continue
		}
		if pod.Labels[v1beta1.RolloutIDLabel] != rolloutID {
			continue
		}
		if id, err := strconv.Atoi(pod.Labels[v1beta1.RolloutBatchIDLabel]); err == nil && id >= 1 && id <= batches {
			n++
		}
	}
	return n
}

// (a) stale labels on OLD-revision pods (the rollout-id was reused for the next release, or the labels
// were written by hand) are counted by the readiness gate towards the current batch.
func TestAuditC12_1a_ReadinessCountsOldRevisionPods(t *testing.T) {
	batches := []v1beta1.ReleaseBatch{{CanaryReplicas: intstr.FromInt(5)}, {CanaryReplicas: intstr.FromInt(10)}}
	ctx := &batchcontext.BatchContext{
		RolloutID:              "1",
		UpdateRevision:         "v3",
		CurrentBatch:           0,
		Replicas:               10,
		PlannedUpdatedReplicas: 5,
		DesiredUpdatedReplicas: 5,
		// workload status already reports 5 updated+ready pods, but the pod informer has not delivered them yet
		UpdatedReplicas:      5,
		UpdatedReadyReplicas: 5,
	}
	for i := 0; i < 5; i++ {
		// the previous release (v2) used the same rollout-id; its pods still carry (1, batch 1)
		ctx.Pods = append(ctx.Pods, auditC12Pod(fmt.Sprintf("old-%d", i), "v2", map[string]string{
			v1beta1.RolloutIDLabel: "1", v1beta1.RolloutBatchIDLabel: "1"}))
	}
	pods := auditC12Label(t, ctx, batches)
	ctx.Pods = pods
	proper := auditC12ProperlyLabelled(pods, ctx.RolloutID, ctx.UpdateRevision, 1)
	err := ctx.IsBatchReady()
	if proper == 0 && err == nil {
		t.Logf("REPRODUCED: 0 live pods of the new revision v3 carry (rollout-id=1, batch 1), yet IsBatchReady()==nil: "+
			"batchLabelSatisfied counted %d OLD-revision (v2) pods with stale (1, batch 1) labels towards batch 1 (planned 5)", len(pods))
		return
	}
	t.Fatalf("not reproduced: proper=%d err=%v", proper, err)
}

// (b) new-revision pods that are born with the rollout-id label (the label key is the same one users put on the
// workload; copying it into the pod template is an easy mistake) but without a batch id: the patcher never gives them
// a batch id ("not a number, skip"), so no pod ever identifies a batch, and yet the readiness gate counts them.
func TestAuditC12_1b_ReadinessCountsPodsWithoutBatchID(t *testing.T) {
	batches := []v1beta1.ReleaseBatch{{CanaryReplicas: intstr.FromInt(5)}, {CanaryReplicas: intstr.FromInt(10)}}
	ctx := &batchcontext.BatchContext{
		RolloutID:              "1",
		UpdateRevision:         "v2",
		CurrentBatch:           0,
		Replicas:               10,
		PlannedUpdatedReplicas: 5,
		DesiredUpdatedReplicas: 5,
		UpdatedReplicas:        5,
		UpdatedReadyReplicas:   5,
	}
	for i := 0; i < 5; i++ {
		ctx.Pods = append(ctx.Pods, auditC12Pod(fmt.Sprintf("old-%d", i), "v1", nil))
		ctx.Pods = append(ctx.Pods, auditC12Pod(fmt.Sprintf("new-%d", i), "v2", map[string]string{v1beta1.RolloutIDLabel: "1"}))
	}
	pods := auditC12Label(t, ctx, batches)
	ctx.Pods = pods
	// repeat the pass: still nothing
	pods = auditC12Label(t, ctx, batches)
	ctx.Pods = pods
	proper := auditC12ProperlyLabelled(pods, ctx.RolloutID, ctx.UpdateRevision, 1)
	err := ctx.IsBatchReady()
	if proper == 0 && err == nil {
		t.Logf("REPRODUCED: after two labelling passes 0 of the 5 new-revision pods carry a batch id (they carry rollout-id=1 and no/garbage batch id, " +
			"which the patcher skips forever), yet IsBatchReady()==nil: batchLabelSatisfied counts pods by rollout-id only, " +
			"so pods that belong to no batch are counted towards batch 1")
		return
	}
	t.Fatalf("not reproduced: proper=%d err=%v", proper, err)
}
