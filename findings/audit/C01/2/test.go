// dest: pkg/controller/batchrelease/control/partitionstyle/statefulset/zz_audit_C01_2_test.go
package statefulset

import (
	"context"
	"fmt"
	"testing"

	kruiseappsv1beta1 "github.com/openkruise/kruise-api/apps/v1beta1"
	"k8s.io/apimachinery/pkg/util/intstr"
	"k8s.io/utils/pointer"
	"sigs.k8s.io/controller-runtime/pkg/client/fake"

	"github.com/openkruise/rollouts/api/v1beta1"
)

// Percentage step + scale-up mid-release on a StatefulSet (integer, ordinal based partition).
// Step "50%" on 10 replicas writes partition=5. The workload is then scaled to 20 replicas.
// The BatchRelease controller restarts the batch (signalRestartBatch) and calls
// CalculateBatchContext/UpgradeBatch again: desired partition is now 10, current is 5, and
// UpgradeBatch is a no-op because "current <= desired". The knob the controller leaves in
// place (partition=5 on 20 replicas) asks for ordinals 5..19 = 15 pods on the new revision,
// i.e. 75% of the new size while the step allows 50% (10 pods, slack 1% = 0.2 pod).
// The CloneSet sibling keeps a percentage partition ("50%") and stays within the bound.
func TestAuditC01_2_StatefulSetPercentStepScaleUp(t *testing.T) {
	release := releaseDemo.DeepCopy()
	release.Spec.ReleasePlan.Batches = []v1beta1.ReleaseBatch{
		{CanaryReplicas: intstr.FromString("50%")},
		{CanaryReplicas: intstr.FromString("100%")},
	}
	release.Spec.ReleasePlan.BatchPartition = pointer.Int32(0)
	release.Status.CanaryStatus.CurrentBatch = 0

	sts := stsDemo.DeepCopy()
	cli := fake.NewClientBuilder().WithScheme(scheme).WithObjects(release, sts).Build()

	reconcileOnce := func(init bool) *kruiseappsv1beta1.StatefulSet {
		c := NewController(cli, stsKey, sts.GroupVersionKind()).(*realController)
		controller, err := c.BuildController()
		if err != nil {
			t.Fatal(err)
		}
		if init {
			if err = controller.Initialize(release); err != nil {
				t.Fatal(err)
			}
			c = NewController(cli, stsKey, sts.GroupVersionKind()).(*realController)
			if controller, err = c.BuildController(); err != nil {
				t.Fatal(err)
			}
		}
		bctx, err := controller.CalculateBatchContext(release)
		if err != nil {
			t.Fatal(err)
		}
		if err = controller.UpgradeBatch(bctx); err != nil {
			t.Fatal(err)
		}
		fetch := &kruiseappsv1beta1.StatefulSet{}
		if err = cli.Get(context.TODO(), stsKey, fetch); err != nil {
			t.Fatal(err)
		}
		return fetch
	}

	// batch 0 ("50%") on 10 replicas
	got := reconcileOnce(true)
	if p := *got.Spec.UpdateStrategy.RollingUpdate.Partition; p != 5 {
		t.Fatalf("unexpected partition after first upgrade: %d", p)
	}

	// user / HPA scales the StatefulSet 10 -> 20 while the rollout is still on step 1
	got.Spec.Replicas = pointer.Int32(20)
	if err := cli.Update(context.TODO(), got); err != nil {
		t.Fatal(err)
	}

	// BatchRelease observes WorkloadReplicasChanged -> signalRestartBatch -> UpgradeBatch again
	got = reconcileOnce(false)
	replicas := int(*got.Spec.Replicas)
	partition := int(*got.Spec.UpdateStrategy.RollingUpdate.Partition)
	asked := replicas - partition // ordered StatefulSet: ordinals >= partition run the update revision
	step := intstr.FromString("50%")
	allowed, _ := intstr.GetScaledValueFromIntOrPercent(&step, replicas, true)
	slack := (replicas + 99) / 100
	if asked <= allowed+slack {
		t.Fatalf("not reproduced: replicas=%d partition=%d asked=%d allowed=%d", replicas, partition, asked, allowed)
	}
	fmt.Printf("REPRODUCED C01 (percentage step must hold relative to the new size after a mid-release scale): "+
		"StatefulSet on step \"50%%\" scaled 10->20; after the controller re-ran UpgradeBatch the partition is still %d, "+
		"which asks for %d of %d pods on the new revision, the step allows %d (+%d rounding slack)\n",
		partition, asked, replicas, allowed, slack)
}
