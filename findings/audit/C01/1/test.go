// dest: pkg/controller/batchrelease/control/partitionstyle/deployment/zz_audit_C01_1_test.go
package deployment

import (
	"context"
	"fmt"
	"testing"

	apps "k8s.io/api/apps/v1"
	"k8s.io/apimachinery/pkg/util/intstr"
	"k8s.io/utils/pointer"
	"sigs.k8s.io/controller-runtime/pkg/client/fake"

	"github.com/openkruise/rollouts/api/v1beta1"
	deploymentutil "github.com/openkruise/rollouts/pkg/controller/deployment/util"
	"github.com/openkruise/rollouts/pkg/util"
)

// Partition-style Deployment, plan mixing an integer step and a percent step
// (accepted by the validating webhook: mixed kinds are "not comparable" and skipped
// by the non-decreasing check). Moving forward from step 1 (replicas: 3) to
// step 2 (replicas: "50%") on a 4-replica Deployment rewrites the partition knob
// from 3 pods to "50%" == 2 pods, i.e. BACK toward the old revision.
// CloneSet/StatefulSet/DaemonSet siblings keep the knob (current<=desired => no-op).
func TestAuditC01_1_DeploymentPartitionMovesBackOnMixedPlan(t *testing.T) {
	release := releaseDemo.DeepCopy()
	release.Spec.ReleasePlan.Batches = []v1beta1.ReleaseBatch{
		{CanaryReplicas: intstr.FromInt(3)},
		{CanaryReplicas: intstr.FromString("50%")},
		{CanaryReplicas: intstr.FromString("100%")},
	}
	release.Spec.ReleasePlan.BatchPartition = pointer.Int32(0)
	release.Status.CanaryStatus.CurrentBatch = 0

	d := deploymentDemo.DeepCopy()
	d.Spec.Replicas = pointer.Int32(4)
	d.Status.Replicas = 4

	cli := fake.NewClientBuilder().WithScheme(scheme).WithObjects(release, d).Build()
	c := NewController(cli, deploymentKey, d.GroupVersionKind()).(*realController)
	controller, err := c.BuildController()
	if err != nil {
		t.Fatal(err)
	}
	if err = controller.Initialize(release); err != nil {
		t.Fatal(err)
	}
	refresh := func() *apps.Deployment {
		fetch := &apps.Deployment{}
		if err := cli.Get(context.TODO(), deploymentKey, fetch); err != nil {
			t.Fatal(err)
		}
		c.object = fetch
		return fetch
	}
	refresh()

	// step 1 (batch 0): replicas: 3
	ctx0, err := controller.CalculateBatchContext(release)
	if err != nil {
		t.Fatal(err)
	}
	if err = controller.UpgradeBatch(ctx0); err != nil {
		t.Fatal(err)
	}
	obj := refresh()
	p0 := util.GetDeploymentStrategy(obj).Partition
	asked0 := deploymentutil.NewRSReplicasLimit(p0, obj)

	// rollout approves step 1 -> executor moves forward to batch 1: replicas: "50%"
	release.Spec.ReleasePlan.BatchPartition = pointer.Int32(1)
	release.Status.CanaryStatus.CurrentBatch = 1
	ctx1, err := controller.CalculateBatchContext(release)
	if err != nil {
		t.Fatal(err)
	}
	if err = controller.UpgradeBatch(ctx1); err != nil {
		t.Fatal(err)
	}
	obj = refresh()
	p1 := util.GetDeploymentStrategy(obj).Partition
	asked1 := deploymentutil.NewRSReplicasLimit(p1, obj)

	if asked1 >= asked0 {
		t.Fatalf("not reproduced: step1 partition %s (=%d pods), step2 partition %s (=%d pods)", p0.String(), asked0, p1.String(), asked1)
	}
	fmt.Printf("REPRODUCED C01 (never move the update setting back while the release moves forward): "+
		"partition-style Deployment with 4 replicas, plan [3, \"50%%\", \"100%%\"]: moving forward from batch 0 to batch 1 "+
		"UpgradeBatch rewrote the partition annotation from %s (%d new-revision pods) to %s (%d new-revision pods); "+
		"IsCurrentMoreThanOrEqualToDesired compares int 3 against \"50%%\" scaled on a base of 10000000\n",
		p0.String(), asked0, p1.String(), asked1)
}
