// dest: pkg/controller/rollout/zz_audit_C18_2_test.go
package rollout

import (
	"context"
	"fmt"
	"testing"

	"github.com/openkruise/rollouts/api/v1alpha1"
	"github.com/openkruise/rollouts/api/v1beta1"
	"github.com/openkruise/rollouts/pkg/trafficrouting"
	"github.com/openkruise/rollouts/pkg/util"
	corev1 "k8s.io/api/core/v1"
	netv1 "k8s.io/api/networking/v1"
	"k8s.io/apimachinery/pkg/api/errors"
	metav1 "k8s.io/apimachinery/pkg/apis/meta/v1"
	"k8s.io/apimachinery/pkg/types"
	"k8s.io/client-go/tools/record"
	ctrl "sigs.k8s.io/controller-runtime"
	"sigs.k8s.io/controller-runtime/pkg/client"
	"sigs.k8s.io/controller-runtime/pkg/client/fake"
)

// History: a canary release is paused at step 1 (traffic routed: stable Service pinned to the stable
// revision, canary Service + canary Ingress generated, BatchRelease created). The user removes the
// application: first the Deployment, a moment later the Rollout (e.g. `kubectl delete -f app.yaml`
// with the Deployment listed first, or two manual deletes).
//
// The reconcile triggered by the workload deletion runs calculateRolloutStatus, which - for a Rollout
// that is not (yet) being deleted and whose workload is not found - REPLACES the whole status by
// {phase: Initial, message: "Workload Not Found"}: canaryStatus (the only record that a teardown is
// owed) and all conditions are thrown away, nothing is cleaned. When the Rollout is deleted next,
// reconcileRolloutTerminating -> doCanaryFinalising sees canaryStatus == nil, answers "nothing to do",
// the Terminating condition becomes Completed and the finalizer is removed without a single cleanup call.
func TestAuditC18_2_WorkloadGoneWipesStatusThenDeleteSkipsCleanup(t *testing.T) {
	const stableSvc, canarySvc, canaryIng = "echoserver", "echoserver-canary", "echoserver-canary"

	run := func(t *testing.T, mode int) (gone bool, residue []string, cleanupCallsSeen int) {
		// mode 0: workload present; 1: workload deleted, reconciled, then rollout deleted; 2: rollout deleted, then workload deleted before the next reconcile
		workloadDeletedFirst := mode == 1
		rollout := rolloutDemo.DeepCopy()
		rollout.Finalizers = []string{util.KruiseRolloutFinalizer}
		rollout.Spec.Strategy.Paused = true
		rollout.Status.CanaryStatus = &v1beta1.CanaryStatus{
			CommonStatus: v1beta1.CommonStatus{
				ObservedWorkloadGeneration: 2,
				RolloutHash:                rollout.Annotations[util.RolloutHashAnnotation],
				StableRevision:             "pod-template-hash-v1",
				PodTemplateHash:            "pod-template-hash-v2",
				CurrentStepIndex:           1,
				NextStepIndex:              2,
				CurrentStepState:           v1beta1.CanaryStepStatePaused,
			},
			CanaryRevision: "88bd5dbfd",
		}
		cond := util.GetRolloutCondition(rollout.Status, v1beta1.RolloutConditionProgressing)
		cond.Reason = v1alpha1.ProgressingReasonPaused
		util.SetRolloutCondition(&rollout.Status, *cond)

		dep := deploymentDemo.DeepCopy()
		rs := rsDemo.DeepCopy()
		br := batchDemo.DeepCopy()
		br.Spec.ReleasePlan.BatchPartition = nil
		br.Status.Phase = v1beta1.RolloutPhaseCompleted
		owner := []metav1.OwnerReference{*metav1.NewControllerRef(rollout, rolloutControllerKind)}
		br.OwnerReferences = owner

		stable := demoService.DeepCopy()
		stable.UID = types.UID(fmt.Sprintf("c18-2-stable-%v", mode))
		stable.Spec.Selector["pod-template-hash"] = "pod-template-hash-v1"
		canary := demoService.DeepCopy()
		canary.Name = canarySvc
		canary.Spec.Selector["pod-template-hash"] = "pod-template-hash-v2"
		canary.OwnerReferences = owner
		ing := demoIngress.DeepCopy()
		cIng := demoIngress.DeepCopy()
		cIng.Name = canaryIng
		cIng.Annotations["nginx.ingress.kubernetes.io/canary"] = "true"
		cIng.Annotations["nginx.ingress.kubernetes.io/canary-weight"] = "5"
		cIng.Spec.Rules[0].HTTP.Paths[0].Backend.Service.Name = canarySvc
		cIng.OwnerReferences = owner

		fc := fake.NewClientBuilder().WithScheme(scheme).
			WithObjects(rollout, demoConf.DeepCopy(), dep, rs, br, stable, canary, ing, cIng).Build()
		r := &RolloutReconciler{
			Client:                fc,
			Scheme:                scheme,
			Recorder:              record.NewFakeRecorder(100),
			finder:                util.NewControllerFinder(fc),
			trafficRoutingManager: trafficrouting.NewTrafficRoutingManager(fc),
		}
		r.canaryManager = &canaryReleaseManager{Client: fc, trafficRoutingManager: r.trafficRoutingManager, recorder: r.Recorder}
		r.blueGreenManager = &blueGreenReleaseManager{Client: fc, trafficRoutingManager: r.trafficRoutingManager, recorder: r.Recorder}
		req := ctrl.Request{NamespacedName: types.NamespacedName{Name: rollout.Name}}
		get := func() (*v1beta1.Rollout, error) {
			obj := &v1beta1.Rollout{}
			err := fc.Get(context.TODO(), req.NamespacedName, obj)
			return obj, err
		}

		if workloadDeletedFirst {
			if err := fc.Delete(context.TODO(), dep); err != nil {
				t.Fatalf("delete deployment: %v", err)
			}
			_ = fc.Delete(context.TODO(), rs)
			// reconcile triggered by the workload delete event
			if _, err := r.Reconcile(context.TODO(), req); err != nil {
				t.Fatalf("reconcile after workload deletion failed: %v", err)
			}
			obj, _ := get()
			t.Logf("after workload deletion: phase=%s message=%q canaryStatus=%v conditions=%d", obj.Status.Phase, obj.Status.Message, obj.Status.CanaryStatus, len(obj.Status.Conditions))
		}

		obj, _ := get()
		if err := fc.Delete(context.TODO(), obj); err != nil {
			t.Fatalf("delete rollout: %v", err)
		}
		if mode == 2 {
			if err := fc.Delete(context.TODO(), dep); err != nil {
				t.Fatalf("delete deployment: %v", err)
			}
			_ = fc.Delete(context.TODO(), rs)
		}
		for i := 0; i < 40; i++ {
			if _, err := r.Reconcile(context.TODO(), req); err != nil {
				t.Fatalf("reconcile (terminating) failed: %v", err)
			}
			obj, err := get()
			if errors.IsNotFound(err) {
				gone = true
				break
			} else if err != nil {
				t.Fatalf("get rollout: %v", err)
			}
			step := v1beta1.FinalisingStepType("<no canaryStatus>")
			if obj.Status.CanaryStatus != nil {
				step = obj.Status.CanaryStatus.FinalisingStep
				cleanupCallsSeen++
			}
			t.Logf("terminating round %d: phase=%s finalisingStep=%q terminating=%+v", i, obj.Status.Phase, step,
				util.GetRolloutCondition(obj.Status, v1beta1.RolloutConditionTerminating).Reason)
		}

		svc := &corev1.Service{}
		if err := fc.Get(context.TODO(), client.ObjectKey{Name: stableSvc}, svc); err != nil {
			t.Fatalf("get stable service: %v", err)
		}
		if v := svc.Spec.Selector["pod-template-hash"]; v != "" {
			residue = append(residue, fmt.Sprintf("stable Service %s still pinned to pod-template-hash=%s", stableSvc, v))
		}
		if fc.Get(context.TODO(), client.ObjectKey{Name: canarySvc}, &corev1.Service{}) == nil {
			residue = append(residue, "canary Service "+canarySvc+" still exists")
		}
		if fc.Get(context.TODO(), client.ObjectKey{Name: canaryIng}, &netv1.Ingress{}) == nil {
			residue = append(residue, "canary Ingress "+canaryIng+" (weight 5 -> canary service) still exists")
		}
		if fc.Get(context.TODO(), client.ObjectKey{Name: rollout.Name}, &v1beta1.BatchRelease{}) == nil {
			residue = append(residue, "BatchRelease "+rollout.Name+" still exists")
		}
		return
	}

	gone, residue, _ := run(t, 0)
	if !gone || len(residue) != 0 {
		t.Fatalf("harness/control: deletion with the workload present expected a complete teardown, gone=%v residue=%v", gone, residue)
	}
	t.Logf("control ok: same state, workload still present -> teardown complete before the finalizer is dropped")

	gone, residue, calls := run(t, 1)
	if !gone {
		t.Fatalf("NOT reproduced: rollout is still visible")
	}
	if len(residue) == 0 {
		t.Fatalf("NOT reproduced: cleanup was complete")
	}
	fmt.Printf("REPRODUCED C18/rollout: workload deleted first -> status reset to Initial (canaryStatus wiped); on the following Rollout deletion the controller "+
		"dropped finalizer %s after %d cleanup rounds and the Rollout vanished while cluster residue remains: %v\n", util.KruiseRolloutFinalizer, calls, residue)

	// variant: Rollout deleted FIRST (status intact, full delete sequence runs), workload removed right after.
	// newTrafficRoutingContext then has no workload, RevisionLabelKey is "" and RestoreStableService looks at
	// selector[""] -> "nothing to restore": every step reports success, the finalizer is dropped, the stable
	// Service stays pinned to the revision hash of a workload that no longer exists.
	gone, residue, calls = run(t, 2)
	if gone && len(residue) > 0 {
		fmt.Printf("REPRODUCED C18/rollout (variant): Rollout deleted, workload removed before the teardown ran; %d teardown rounds all reported success, "+
			"finalizer dropped, residue: %v\n", calls, residue)
	} else {
		t.Logf("variant not reproduced: gone=%v residue=%v", gone, residue)
	}
}
