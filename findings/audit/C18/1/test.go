// dest: pkg/controller/rollout/zz_audit_C18_1_test.go
package rollout

import (
	"context"
	"fmt"
	"testing"

	"github.com/openkruise/rollouts/api/v1alpha1"
	"github.com/openkruise/rollouts/api/v1beta1"
	"github.com/openkruise/rollouts/pkg/trafficrouting"
	"github.com/openkruise/rollouts/pkg/util"
	corev1 "k8s.io/api/core/v1"
	"k8s.io/apimachinery/pkg/api/errors"
	metav1 "k8s.io/apimachinery/pkg/apis/meta/v1"
	"k8s.io/apimachinery/pkg/types"
	"k8s.io/client-go/tools/record"
	ctrl "sigs.k8s.io/controller-runtime"
	"sigs.k8s.io/controller-runtime/pkg/client"
	"sigs.k8s.io/controller-runtime/pkg/client/fake"
)

// History (canary-style Rollout with an Ingress traffic routing):
//
//  1. a canary release v1 -> v2 is in progress, the stable Service has been pinned to the stable
//     revision (selector pod-template-hash=v1) and the canary Service echoserver-canary was generated;
//  2. the user rolls the workload back, the Rollout enters Progressing/Cancelling and walks the
//     *rollback* finalising sequence
//     RouteTrafficToStable -> ResumeWorkload -> ReleaseWorkloadControl -> RestoreStableService -> RemoveCanaryService
//  3. while status.canaryStatus.finalisingStep == ReleaseWorkloadControl (persisted by the controller
//     itself at the end of a reconcile) the user deletes the Rollout.
//
// reconcileRolloutTerminating now runs doCanaryFinalising with FinalizeReason=Delete, which resumes
// from the persisted finalisingStep but looks the *next* step up in the *delete* sequence
//
//	RestoreStableService -> RouteTrafficToStable -> RemoveCanaryService -> ResumeWorkload -> ReleaseWorkloadControl
//
// where ReleaseWorkloadControl is the LAST entry. So the teardown jumps to END, the Terminating
// condition becomes Completed and handleFinalizer drops rollouts.kruise.io/rollout although
// RestoreStableService and RemoveCanaryService never ran in either sequence.
func TestAuditC18_1_DeleteDuringRollbackFinalisingSkipsCleanup(t *testing.T) {
	const stableSvc = "echoserver"
	const canarySvc = "echoserver-canary"

	// cancelFirst=false is the control: same objects, but the rollout is deleted before any rollback teardown started
	run := func(t *testing.T, cancelFirst bool) (rolloutGone bool, stableSelector map[string]string, canarySvcExists bool, stepAtDelete v1beta1.FinalisingStepType) {
		rollout := rolloutDemo.DeepCopy()
		rollout.Finalizers = []string{util.KruiseRolloutFinalizer}
		rollout.Status.CanaryStatus = &v1beta1.CanaryStatus{
			CommonStatus: v1beta1.CommonStatus{
				ObservedWorkloadGeneration: 2,
				RolloutHash:                rollout.Annotations[util.RolloutHashAnnotation],
				StableRevision:             "pod-template-hash-v1",
				PodTemplateHash:            "pod-template-hash-v2",
				CurrentStepIndex:           1,
				NextStepIndex:              2,
				CurrentStepState:           v1beta1.CanaryStepStatePaused,
			},
			CanaryRevision: "88bd5dbfd",
		}
		reason := v1alpha1.ProgressingReasonInRolling
		if cancelFirst {
			reason = v1alpha1.ProgressingReasonCancelling
		}
		rollout.Spec.Strategy.Paused = true // keep the control case quiet while it is "InRolling"
		cond := util.GetRolloutCondition(rollout.Status, v1beta1.RolloutConditionProgressing)
		cond.Reason = reason
		util.SetRolloutCondition(&rollout.Status, *cond)

		// workload already rolled back to v1 by the user
		dep := deploymentDemo.DeepCopy()
		dep.Spec.Template.Spec.Containers[0].Image = "echoserver:v1"
		rs := rsDemo.DeepCopy()

		// batchRelease already finalized by the batchrelease controller (partition nil, phase Completed)
		br := batchDemo.DeepCopy()
		br.Spec.ReleasePlan.BatchPartition = nil
		br.Status.Phase = v1beta1.RolloutPhaseCompleted

		// network: stable service pinned to the stable revision, generated canary service present
		stable := demoService.DeepCopy()
		stable.UID = types.UID("stable-svc-uid-" + fmt.Sprint(cancelFirst))
		stable.Spec.Selector["pod-template-hash"] = "pod-template-hash-v1"
		canary := demoService.DeepCopy()
		canary.Name = canarySvc
		canary.Spec.Selector["pod-template-hash"] = "pod-template-hash-v2"
		canary.OwnerReferences = []metav1.OwnerReference{*metav1.NewControllerRef(rollout, rolloutControllerKind)}
		ing := demoIngress.DeepCopy()

		fc := fake.NewClientBuilder().WithScheme(scheme).
			WithObjects(rollout, demoConf.DeepCopy(), dep, rs, br, stable, canary, ing).Build()
		r := &RolloutReconciler{
			Client:                fc,
			Scheme:                scheme,
			Recorder:              record.NewFakeRecorder(100),
			finder:                util.NewControllerFinder(fc),
			trafficRoutingManager: trafficrouting.NewTrafficRoutingManager(fc),
		}
		r.canaryManager = &canaryReleaseManager{Client: fc, trafficRoutingManager: r.trafficRoutingManager, recorder: r.Recorder}
		r.blueGreenManager = &blueGreenReleaseManager{Client: fc, trafficRoutingManager: r.trafficRoutingManager, recorder: r.Recorder}
		req := ctrl.Request{NamespacedName: types.NamespacedName{Name: rollout.Name}}
		get := func() (*v1beta1.Rollout, error) {
			obj := &v1beta1.Rollout{}
			err := fc.Get(context.TODO(), req.NamespacedName, obj)
			return obj, err
		}

		if cancelFirst {
			// let the controller itself walk the rollback sequence until it has persisted ReleaseWorkloadControl
			reached := false
			for i := 0; i < 20 && !reached; i++ {
				if _, err := r.Reconcile(context.TODO(), req); err != nil {
					t.Fatalf("reconcile (cancelling) failed: %v", err)
				}
				obj, err := get()
				if err != nil {
					t.Fatalf("get rollout: %v", err)
				}
				t.Logf("cancelling round %d: phase=%s finalisingStep=%q", i, obj.Status.Phase, obj.Status.CanaryStatus.FinalisingStep)
				reached = obj.Status.CanaryStatus.FinalisingStep == v1beta1.FinalisingStepReleaseWorkloadControl
			}
			if !reached {
				t.Fatalf("harness: rollback finalising never reached step ReleaseWorkloadControl")
			}
		}
		obj, _ := get()
		stepAtDelete = obj.Status.CanaryStatus.FinalisingStep

		// the user deletes the rollout now; the finalizer keeps it visible
		if err := fc.Delete(context.TODO(), obj); err != nil {
			t.Fatalf("delete rollout: %v", err)
		}
		if obj, err := get(); err != nil || obj.DeletionTimestamp.IsZero() {
			t.Fatalf("harness: rollout should be terminating but visible, err=%v", err)
		}

		for i := 0; i < 40; i++ {
			if _, err := r.Reconcile(context.TODO(), req); err != nil {
				t.Fatalf("reconcile (terminating) failed: %v", err)
			}
			obj, err := get()
			if errors.IsNotFound(err) {
				rolloutGone = true
				break
			} else if err != nil {
				t.Fatalf("get rollout: %v", err)
			}
			t.Logf("terminating round %d: phase=%s finalisingStep=%q finalizers=%v", i, obj.Status.Phase, obj.Status.CanaryStatus.FinalisingStep, obj.Finalizers)
		}

		svc := &corev1.Service{}
		if err := fc.Get(context.TODO(), client.ObjectKey{Name: stableSvc}, svc); err != nil {
			t.Fatalf("get stable service: %v", err)
		}
		stableSelector = svc.Spec.Selector
		err := fc.Get(context.TODO(), client.ObjectKey{Name: canarySvc}, &corev1.Service{})
		canarySvcExists = err == nil
		return
	}

	// control: deletion of a rollout whose teardown starts from scratch does restore everything
	gone, sel, canaryExists, step := run(t, false)
	if !gone || sel["pod-template-hash"] != "" || canaryExists {
		t.Fatalf("harness/control: plain deletion (step at delete %q) expected full cleanup, got gone=%v stableSelector=%v canarySvcExists=%v", step, gone, sel, canaryExists)
	}
	t.Logf("control ok: plain deletion restored stable service selector %v and removed canary service before the finalizer was dropped", sel)

	gone, sel, canaryExists, step = run(t, true)
	if !gone {
		t.Fatalf("NOT reproduced: rollout still visible")
	}
	if sel["pod-template-hash"] == "" && !canaryExists {
		t.Fatalf("NOT reproduced: cleanup was complete when the finalizer was removed")
	}
	fmt.Printf("REPRODUCED C18/rollout: Rollout deleted while its rollback teardown was at finalisingStep=%q; the controller removed finalizer %s "+
		"and the Rollout vanished from the API although cleanup was NOT complete: stable Service selector is still pinned %v (traffic not restored), "+
		"generated canary Service still exists=%v\n", step, util.KruiseRolloutFinalizer, sel, canaryExists)
}
