// dest: pkg/controller/batchrelease/control/partitionstyle/cloneset/zz_audit_C07_1_test.go
package cloneset

import (
	"context"
	"fmt"
	"testing"

	kruiseappsv1alpha1 "github.com/openkruise/kruise-api/apps/v1alpha1"
	"k8s.io/apimachinery/pkg/util/intstr"
	"k8s.io/utils/pointer"
	"sigs.k8s.io/controller-runtime/pkg/client/fake"
)

// auditKruisePartition mirrors how the Kruise CloneSet controller turns spec.updateStrategy.partition
// into the number of pods it keeps on the OLD revision (kruise util.CalculatePartitionReplicas:
// percent is rounded UP; a percent < 100% never keeps all pods).
func auditKruisePartition(p intstr.IntOrString, replicas int) int {
	v, _ := intstr.GetScaledValueFromIntOrPercent(&p, replicas, true)
	if replicas > 1 && v == replicas && p.Type == intstr.String && p.StrVal != "100%" {
		v = replicas - 1
	}
	if v > replicas {
		v = replicas
	}
	if v < 0 {
		v = 0
	}
	return v
}

// Property C07: "the update target the controller sets always suffices for its own readiness criterion"
// (a percent partition must not restore to fewer updated pods than the readiness check demands).
//
// CloneSet with 101 replicas, batch canaryReplicas "99%": planned/desired updated = ceil(99.99) = 100, desired stable = 1.
// ParseIntegerAsPercentageIfPossible: 1*100/101 = 0 -> "0%" restores to 0 -> falls into the "at least one canary pod"
// special case and returns "1%". Kruise keeps ceil(1% * 101) = 2 old pods => only 99 updated pods, IsBatchReady wants 100.
func TestAuditC07PercentPartitionRestoresTooFewUpdatedPods(t *testing.T) {
	const R = 101
	cs := cloneDemo.DeepCopy()
	cs.Spec.Replicas = pointer.Int32(R)
	cs.Status.Replicas = R
	cs.Status.ReadyReplicas = R
	release := releaseDemo.DeepCopy()
	release.Spec.ReleasePlan.Batches[0].CanaryReplicas = intstr.FromString("99%")
	cli := fake.NewClientBuilder().WithScheme(scheme).WithObjects(release, cs).Build()

	var lastErr error
	var partition intstr.IntOrString
	var updated, desired int32
	for i := 0; i < 20; i++ {
		c := NewController(cli, cloneKey, cs.GroupVersionKind()).(*realController)
		if _, err := c.BuildController(); err != nil {
			t.Fatal(err)
		}
		ctx, err := c.CalculateBatchContext(release)
		if err != nil {
			t.Fatal(err)
		}
		if err = c.UpgradeBatch(ctx); err != nil {
			t.Fatal(err)
		}
		// responsive CloneSet controller + healthy pods: everything the partition allows is updated and ready
		fetch := &kruiseappsv1alpha1.CloneSet{}
		if err = cli.Get(context.TODO(), cloneKey, fetch); err != nil {
			t.Fatal(err)
		}
		partition = *fetch.Spec.UpdateStrategy.Partition
		updated = int32(R - auditKruisePartition(partition, R))
		fetch.Status.UpdatedReplicas, fetch.Status.UpdatedReadyReplicas = updated, updated
		if err = cli.Status().Update(context.TODO(), fetch); err != nil {
			_ = cli.Update(context.TODO(), fetch)
		}
		ctx.UpdatedReplicas, ctx.UpdatedReadyReplicas = updated, updated
		desired = ctx.DesiredUpdatedReplicas
		lastErr = ctx.IsBatchReady()
		if lastErr == nil {
			t.Skipf("batch became ready after %d rounds: defect not present", i+1)
		}
	}

	// how wide is it? enumerate (replicas, percent) with the same real functions
	bad, total := 0, 0
	first := ""
	for r := 1; r <= 300; r++ {
		for p := 1; p <= 100; p++ {
			w := cloneDemo.DeepCopy()
			w.Spec.Replicas = pointer.Int32(int32(r))
			rel := releaseDemo.DeepCopy()
			rel.Spec.ReleasePlan.Batches[0].CanaryReplicas = intstr.FromString(fmt.Sprintf("%d%%", p))
			wcli := fake.NewClientBuilder().WithScheme(scheme).WithObjects(w).Build()
			c := NewController(wcli, cloneKey, w.GroupVersionKind()).(*realController)
			if _, err := c.BuildController(); err != nil {
				t.Fatal(err)
			}
			ctx, err := c.CalculateBatchContext(rel)
			if err != nil {
				t.Fatal(err)
			}
			total++
			if int32(r-auditKruisePartition(ctx.DesiredPartition, r)) < ctx.DesiredUpdatedReplicas {
				bad++
				if first == "" {
					first = fmt.Sprintf("replicas=%d canaryReplicas=%d%% partition=%s", r, p, ctx.DesiredPartition.String())
				}
			}
		}
	}
	if bad == 0 {
		t.Fatalf("enumeration found nothing although the concrete case failed")
	}
	fmt.Printf("REPRODUCED C07 (target vs. readiness): CloneSet replicas=%d, batch canaryReplicas \"99%%\": UpgradeBatch sets partition %q, "+
		"which Kruise restores to %d old pods => %d updated pods, but IsBatchReady demands DesiredUpdatedReplicas=%d; after 20 rounds still: %v. "+
		"Enumeration replicas 1..300 x 1%%..100%%: %d of %d pairs can never become ready (first: %s).\n",
		R, partition.String(), auditKruisePartition(partition, R), updated, desired, lastErr, bad, total, first)
}
