// dest: pkg/trafficrouting/network/ingress/zz_audit_C07_4_test.go
package ingress

import (
	"context"
	"fmt"
	"os"
	"testing"

	"github.com/openkruise/rollouts/api/v1beta1"
	"github.com/openkruise/rollouts/pkg/util"
	"github.com/openkruise/rollouts/pkg/util/configuration"
	corev1 "k8s.io/api/core/v1"
	metav1 "k8s.io/apimachinery/pkg/apis/meta/v1"
	utilpointer "k8s.io/utils/pointer"
	"sigs.k8s.io/controller-runtime/pkg/client/fake"
	gatewayv1beta1 "sigs.k8s.io/gateway-api/apis/v1beta1"
)

// the scripts that are shipped with the controller (lua_configuration/trafficrouting_ingress/*.lua), served the way
// the controller reads user overrides (ConfigMap), because the package test runs outside the repo root.
func auditShippedLua(t *testing.T, types ...string) *corev1.ConfigMap {
	cm := &corev1.ConfigMap{
		ObjectMeta: metav1.ObjectMeta{Name: configuration.RolloutConfigurationName, Namespace: util.GetRolloutNamespace()},
		Data:       map[string]string{},
	}
	for _, ty := range types {
		b, err := os.ReadFile("../../../../lua_configuration/trafficrouting_ingress/" + ty + ".lua")
		if err != nil {
			t.Fatal(err)
		}
		cm.Data[fmt.Sprintf("%s.%s", configuration.LuaTrafficRoutingIngressTypePrefix, ty)] = string(b)
	}
	return cm
}

// Property C07: "Every traffic provider reaches a fixed point: re-applying the same step changes nothing and reports
// done" for every provider x generated network object x strategy.
//
// Case A (provider mse x stable Ingress WITHOUT metadata.annotations x plain weight step):
// mse.lua starts with `annotations = obj.annotations` and, unlike nginx/aliyun-alb/higress.lua, has no
// `if obj.annotations` guard. buildCanaryIngress copies the nil annotation map, so the very first EnsureRoutes - and every
// later one - fails with "attempt to index a non-table object(nil)"; the canary ingress is never created, DoTrafficRouting
// returns the error on every reconcile and the step never reports done.
//
// Case B (provider aliyun-alb / higress x ordinary Ingress x match without headers, e.g. queryParams only):
// these two scripts do `match.headers[1]` without the `match.headers and next(match.headers)` guard that nginx.lua and
// mse.lua have. First call creates the canary ingress (not done), every further call errors: never done.
func TestAuditC07IngressLuaNeverReachesFixedPoint(t *testing.T) {
	type tc struct {
		name, classType string
		noAnnotations   bool
		strategy        v1beta1.TrafficRoutingStrategy
	}
	exact := gatewayv1beta1.QueryParamMatchExact
	cases := []tc{
		{name: "A mse, stable ingress has no annotations, traffic 20%", classType: "mse", noAnnotations: true,
			strategy: v1beta1.TrafficRoutingStrategy{Traffic: utilpointer.String("20%")}},
		{name: "B aliyun-alb, match with queryParams only", classType: "aliyun-alb",
			strategy: v1beta1.TrafficRoutingStrategy{Matches: []v1beta1.HttpRouteMatch{{
				QueryParams: []gatewayv1beta1.HTTPQueryParamMatch{{Type: &exact, Name: "user", Value: "demo"}}}}}},
		{name: "B higress, match with queryParams only", classType: "higress",
			strategy: v1beta1.TrafficRoutingStrategy{Matches: []v1beta1.HttpRouteMatch{{
				QueryParams: []gatewayv1beta1.HTTPQueryParamMatch{{Type: &exact, Name: "user", Value: "demo"}}}}}},
	}
	reproduced := 0
	for _, cs := range cases {
		fakeCli := fake.NewClientBuilder().WithScheme(scheme).Build()
		_ = fakeCli.Create(context.TODO(), auditShippedLua(t, "mse", "aliyun-alb", "higress", "nginx"))
		stable := demoIngress.DeepCopy()
		if cs.noAnnotations {
			stable.Annotations = nil
		}
		if err := fakeCli.Create(context.TODO(), stable); err != nil {
			t.Fatal(err)
		}
		config := Config{
			Key: "rollout-demo", StableService: "echoserver", CanaryService: "echoserver-canary",
			TrafficConf: &v1beta1.IngressTrafficRouting{Name: "echoserver", ClassType: cs.classType},
		}
		done := false
		var lastErr error
		const budget = 25
		for i := 0; i < budget && !done; i++ {
			// DoTrafficRouting builds a fresh provider on every reconcile
			controller, err := NewIngressTrafficRouting(fakeCli, config)
			if err != nil {
				t.Fatalf("NewIngressTrafficRouting failed: %s", err.Error())
			}
			strategy := cs.strategy.DeepCopy()
			done, lastErr = controller.EnsureRoutes(context.TODO(), strategy)
		}
		if done {
			t.Logf("%s: reached done - defect not present", cs.name)
			continue
		}
		reproduced++
		fmt.Printf("REPRODUCED C07 (provider fixed point) [%s]: %d consecutive EnsureRoutes calls for the same step never report done; "+
			"every call ends with: %v. DoTrafficRouting hands this error back on each reconcile, the step never leaves TrafficRouting and the rollout never finishes.\n",
			cs.name, budget, lastErr)
	}
	if reproduced == 0 {
		t.Skip("no case reproduced")
	}
}
