// dest: pkg/controller/batchrelease/control/partitionstyle/deployment/zz_audit_C07_2_test.go
package deployment

import (
	"context"
	"fmt"
	"testing"

	deploymentutil "github.com/openkruise/rollouts/pkg/controller/deployment/util"
	"github.com/openkruise/rollouts/pkg/util"
	apps "k8s.io/api/apps/v1"
	"k8s.io/apimachinery/pkg/util/intstr"
	"k8s.io/utils/pointer"
	"sigs.k8s.io/controller-runtime/pkg/client/fake"
)

// Property C07: "the update target the controller sets always suffices for its own readiness criterion".
//
// Plan (admitted by the Rollout webhook, which only compares neighbouring steps of the same type):
//
//	batch 0: canaryReplicas "50%"   batch 1: canaryReplicas 8      (Deployment, 10 replicas, partition style)
//
// UpgradeBatch of the advanced-Deployment controller decides "nothing to do" with
// control.IsCurrentMoreThanOrEqualToDesired, which scales BOTH values against 10000000:
// "50%" -> 5000000  >=  8 -> 8. So the partition stays "50%" (5 pods) while IsBatchReady demands 8.
func TestAuditC07MixedPartitionTypesNeverAdvance(t *testing.T) {
	release := releaseDemo.DeepCopy()
	release.Spec.ReleasePlan.Batches = release.Spec.ReleasePlan.Batches[:2]
	release.Spec.ReleasePlan.Batches[0].CanaryReplicas = intstr.FromString("50%")
	release.Spec.ReleasePlan.Batches[1].CanaryReplicas = intstr.FromInt(8)
	d := deploymentDemo.DeepCopy()
	d.Spec.Replicas = pointer.Int32(10)
	d.Status.Replicas = 10
	cli := fake.NewClientBuilder().WithScheme(scheme).WithObjects(release, d).Build()

	reload := func() *realController {
		c := NewController(cli, deploymentKey, d.GroupVersionKind()).(*realController)
		if _, err := c.BuildController(); err != nil {
			t.Fatal(err)
		}
		return c
	}
	c := reload()
	if err := c.Initialize(release); err != nil {
		t.Fatal(err)
	}

	// batch 0: "50%"
	release.Status.CanaryStatus.CurrentBatch = 0
	c = reload()
	ctx, err := c.CalculateBatchContext(release)
	if err != nil {
		t.Fatal(err)
	}
	if err = c.UpgradeBatch(ctx); err != nil {
		t.Fatal(err)
	}
	fetch := &apps.Deployment{}
	_ = cli.Get(context.TODO(), deploymentKey, fetch)
	if p := util.GetDeploymentStrategy(fetch).Partition; p.String() != "50%" {
		t.Fatalf("batch 0 should have set partition 50%%, got %s", p.String())
	}

	// batch 1: 8 pods. Reconcile it many times (a responsive workload controller, healthy pods).
	release.Status.CanaryStatus.CurrentBatch = 1
	var lastErr error
	for i := 0; i < 20; i++ {
		c = reload()
		ctx, err = c.CalculateBatchContext(release)
		if err != nil {
			t.Fatal(err)
		}
		if err = c.UpgradeBatch(ctx); err != nil {
			t.Fatal(err)
		}
		// the (real, in-repo) advanced deployment controller scales the new ReplicaSet up to
		// NewRSReplicasLimit(partition); all of those pods are ready
		_ = cli.Get(context.TODO(), deploymentKey, fetch)
		limit := deploymentutil.NewRSReplicasLimit(util.GetDeploymentStrategy(fetch).Partition, fetch)
		ctx.UpdatedReplicas, ctx.UpdatedReadyReplicas = limit, limit
		lastErr = ctx.IsBatchReady()
		if lastErr == nil {
			t.Skipf("batch became ready after %d rounds: defect not present", i+1)
		}
	}
	_ = cli.Get(context.TODO(), deploymentKey, fetch)
	partition := util.GetDeploymentStrategy(fetch).Partition
	limit := deploymentutil.NewRSReplicasLimit(partition, fetch)
	if limit >= ctx.DesiredUpdatedReplicas {
		t.Fatalf("unexpected: limit %d desired %d", limit, ctx.DesiredUpdatedReplicas)
	}
	fmt.Printf("REPRODUCED C07 (target vs. readiness): plan [\"50%%\", 8] on a 10-replica advanced Deployment: after 20 UpgradeBatch calls for batch 1 "+
		"the partition is still %q (=> %d updated pods) while IsBatchReady wants DesiredUpdatedReplicas=%d; last error: %v. "+
		"The batch can never become ready, the rollout never finishes.\n", partition.String(), limit, ctx.DesiredUpdatedReplicas, lastErr)
}
