// dest: pkg/controller/rollout/zz_audit_C10_3_test.go
package rollout

import (
	"context"
	"testing"

	"github.com/openkruise/rollouts/api/v1alpha1"
	"github.com/openkruise/rollouts/api/v1beta1"
	"github.com/openkruise/rollouts/pkg/trafficrouting"
	"github.com/openkruise/rollouts/pkg/util"
	netv1 "k8s.io/api/networking/v1"
	"k8s.io/apimachinery/pkg/types"
	"k8s.io/client-go/tools/record"
	utilpointer "k8s.io/utils/pointer"
	"sigs.k8s.io/controller-runtime/pkg/client"
	"sigs.k8s.io/controller-runtime/pkg/client/fake"
	"sigs.k8s.io/controller-runtime/pkg/controller/controllerutil"
)

// Property C10: "all traffic is returned to the stable version before the new-revision pods are removed or the workload is
// handed back to its native controller", "under every interleaving".
//
// A Rollout whose traffic is driven by a TrafficRouting CR (annotation rollouts.kruise.io/trafficrouting) has no
// spec.strategy.*.trafficRoutings of its own. When starting, the rollout *waits* for the TrafficRouting CR
// (handleTrafficRouting returns false until the progressing finalizer is in place). On the way back there is no such wait:
//   - rollback: doFinalising only removes the progressing finalizer from the TrafficRouting CR (a signal for another,
//     asynchronous controller) and goes on at once; the rollback task RouteTrafficToStable is a no-op because
//     the rollout has no traffic refs, so the next task patches the BatchRelease (batchPartition=null -> workload resumed,
//     canary pods removed) and the BatchRelease is deleted, without ever looking at TrafficRouting.status.phase;
//   - supersession (v3): doProgressingReset sees !HasTrafficRoutings() and "simply removes batchRelease"; the TrafficRouting CR
//     is not touched at all and its route keeps the canary rule while the v2 pods go away.
//
// The test runs both cancellations in a closed loop with the TrafficRouting controller not scheduled (slow / failing /
// waiting its own grace periods) and shows the write order.
func TestAuditC10_3_TrafficRoutingCRIsNotAwaitedBeforeRemovingCanary(t *testing.T) {
	oldGrace := defaultGracePeriodSeconds
	defaultGracePeriodSeconds = 0
	defer func() { defaultGracePeriodSeconds = oldGrace }()

	type result struct {
		brPatchedRound, brDeletedRound int
		trPhaseAtPatch, trPhaseAtDelete v1alpha1.TrafficRoutingPhase
		trFinalizerAtDelete             bool
		canaryIngressAtDelete           bool
		finalReason                     string
		succeeded                       string
	}

	run := func(mode string) result {
		dep := deploymentDemo.DeepCopy()
		dep.Spec.Paused = true
		if mode == "rollback" {
			dep.Spec.Template.Spec.Containers[0].Image = "echoserver:v1"
		} else {
			dep.Spec.Template.Spec.Containers[0].Image = "echoserver:v3"
		}
		rs1 := rsDemo.DeepCopy()
		v2 := deploymentDemo.DeepCopy()
		v2Revision := util.ComputeHash(&v2.Spec.Template, nil)

		rollout := rolloutDemo.DeepCopy()
		rollout.Annotations[v1alpha1.TrafficRoutingAnnotation] = "tr-demo"
		rollout.Spec.Strategy.Canary.TrafficRoutings = nil
		for i := range rollout.Spec.Strategy.Canary.Steps {
			rollout.Spec.Strategy.Canary.Steps[i].Traffic = nil
		}
		rollout.Status.CanaryStatus.ObservedWorkloadGeneration = 2
		rollout.Status.CanaryStatus.RolloutHash = rollout.Annotations[util.RolloutHashAnnotation]
		rollout.Status.CanaryStatus.StableRevision = "pod-template-hash-v1"
		rollout.Status.CanaryStatus.CanaryRevision = v2Revision
		rollout.Status.CanaryStatus.PodTemplateHash = "pod-template-hash-v2"
		rollout.Status.CanaryStatus.CurrentStepIndex = 3
		rollout.Status.CanaryStatus.NextStepIndex = 4
		rollout.Status.CanaryStatus.CurrentStepState = v1beta1.CanaryStepStatePaused
		cond := util.GetRolloutCondition(rollout.Status, v1beta1.RolloutConditionProgressing)
		cond.Reason = v1alpha1.ProgressingReasonInRolling
		util.SetRolloutCondition(&rollout.Status, *cond)

		br := batchDemo.DeepCopy()
		br.Spec.ReleasePlan.BatchPartition = utilpointer.Int32(2)
		br.Status.Phase = v1beta1.RolloutPhaseProgressing

		// TrafficRouting CR is doing its job for this rollout: progressing finalizer present, phase Progressing, canary route in place
		tr := demoTR.DeepCopy()
		tr.Finalizers = []string{util.TrafficRoutingFinalizer, util.ProgressingRolloutFinalizer(rollout.Name)}
		tr.Status.Phase = v1alpha1.TrafficRoutingPhaseProgressing
		canaryIngress := demoIngress.DeepCopy()
		canaryIngress.Name = "echoserver-canary"
		canaryIngress.Annotations["nginx.ingress.kubernetes.io/canary"] = "true"
		canaryIngress.Annotations["nginx.ingress.kubernetes.io/canary-by-header"] = "user_id"
		canaryIngress.Annotations["nginx.ingress.kubernetes.io/canary-by-header-value"] = "123456"

		fc := fake.NewClientBuilder().WithScheme(scheme).WithObjects(rollout, demoConf.DeepCopy()).Build()
		for _, o := range []client.Object{rs1, dep, br, tr, demoService.DeepCopy(), demoIngress.DeepCopy(), canaryIngress} {
			if err := fc.Create(context.TODO(), o); err != nil {
				t.Fatalf("create %T failed: %v", o, err)
			}
		}
		r := &RolloutReconciler{
			Client:                fc,
			Scheme:                scheme,
			Recorder:              record.NewFakeRecorder(100),
			finder:                util.NewControllerFinder(fc),
			trafficRoutingManager: trafficrouting.NewTrafficRoutingManager(fc),
		}
		r.canaryManager = &canaryReleaseManager{Client: fc, trafficRoutingManager: r.trafficRoutingManager, recorder: r.Recorder}

		res := result{brPatchedRound: -1, brDeletedRound: -1}
		for i := 0; i < 15; i++ {
			last := &v1beta1.Rollout{}
			if err := fc.Get(context.TODO(), types.NamespacedName{Name: "rollout-demo"}, last); err != nil {
				t.Fatalf("get rollout: %v", err)
			}
			ns := last.Status.DeepCopy()
			if _, err := r.reconcileRolloutProgressing(last, ns); err != nil {
				t.Fatalf("[%s] round %d reconcileRolloutProgressing failed: %v", mode, i, err)
			}
			if err := r.updateRolloutStatusInternal(last, *ns); err != nil {
				t.Fatalf("update status failed: %v", err)
			}
			// observe
			curTR := &v1alpha1.TrafficRouting{}
			if err := fc.Get(context.TODO(), types.NamespacedName{Name: "tr-demo"}, curTR); err != nil {
				t.Fatalf("get tr: %v", err)
			}
			curBR := &v1beta1.BatchRelease{}
			brErr := fc.Get(context.TODO(), types.NamespacedName{Name: "rollout-demo"}, curBR)
			ing := &netv1.Ingress{}
			ingErr := fc.Get(context.TODO(), types.NamespacedName{Name: "echoserver-canary"}, ing)
			c := util.GetRolloutCondition(last.Status, v1beta1.RolloutConditionProgressing)
			fs := v1beta1.FinalisingStepType("")
			if last.Status.CanaryStatus != nil {
				fs = last.Status.CanaryStatus.FinalisingStep
			}
			t.Logf("[%s] round %d: reason=%s finalisingStep=%q | TrafficRouting phase=%s progressingFinalizer=%v canaryRoute=%v | BatchRelease exists=%v",
				mode, i, c.Reason, fs, curTR.Status.Phase,
				controllerutil.ContainsFinalizer(curTR, util.ProgressingRolloutFinalizer("rollout-demo")), ingErr == nil, brErr == nil)
			if brErr == nil && curBR.Spec.ReleasePlan.BatchPartition == nil && res.brPatchedRound < 0 {
				res.brPatchedRound = i
				res.trPhaseAtPatch = curTR.Status.Phase
				// play the BatchRelease controller: workload resumed / canary pods removed, plan completed
				curBR.Status.Phase = v1beta1.RolloutPhaseCompleted
				if err := fc.Status().Update(context.TODO(), curBR); err != nil {
					if err = fc.Update(context.TODO(), curBR); err != nil {
						t.Fatalf("update br: %v", err)
					}
				}
			}
			if brErr != nil && res.brDeletedRound < 0 {
				res.brDeletedRound = i
				res.trPhaseAtDelete = curTR.Status.Phase
				res.trFinalizerAtDelete = controllerutil.ContainsFinalizer(curTR, util.ProgressingRolloutFinalizer("rollout-demo"))
				res.canaryIngressAtDelete = ingErr == nil
			}
			res.finalReason = c.Reason
			if sc := util.GetRolloutCondition(last.Status, v1beta1.RolloutConditionSucceeded); sc != nil {
				res.succeeded = string(sc.Status)
			}
			if c.Reason == v1alpha1.ProgressingReasonCompleted || (mode == "supersession" && c.Reason == v1alpha1.ProgressingReasonInRolling && res.brDeletedRound >= 0 && i > res.brDeletedRound+1) {
				break
			}
		}
		return res
	}

	rb := run("rollback")
	if rb.brPatchedRound < 0 || rb.brDeletedRound < 0 || rb.trPhaseAtPatch != v1alpha1.TrafficRoutingPhaseProgressing ||
		rb.trPhaseAtDelete != v1alpha1.TrafficRoutingPhaseProgressing || !rb.canaryIngressAtDelete || rb.finalReason != v1alpha1.ProgressingReasonCompleted {
		t.Fatalf("rollback: not reproduced: %+v", rb)
	}
	t.Logf("REPRODUCED: C10 ordering (rollback, TrafficRouting CR): the rollout resumed the workload (BatchRelease batchPartition=null in round %d) and "+
		"deleted the BatchRelease (round %d) and finished the cancellation (reason=%s, Succeeded=%s) while TrafficRouting.status.phase was still %q and the "+
		"canary route still existed: the only traffic 'write' before removing the new-revision pods is dropping a finalizer; nothing waits for the "+
		"traffic to be back on stable.", rb.brPatchedRound, rb.brDeletedRound, rb.finalReason, rb.succeeded, rb.trPhaseAtDelete)

	sp := run("supersession")
	if sp.brDeletedRound < 0 || !sp.trFinalizerAtDelete || sp.trPhaseAtDelete != v1alpha1.TrafficRoutingPhaseProgressing || !sp.canaryIngressAtDelete {
		t.Fatalf("supersession: not reproduced: %+v", sp)
	}
	t.Logf("REPRODUCED: C10 ordering (supersession, TrafficRouting CR): doProgressingReset deleted the BatchRelease (round %d, i.e. the v2 canary pods) "+
		"with the TrafficRouting CR untouched: progressing finalizer still present=%v, phase=%q, canary route present=%v; traffic is never returned "+
		"to stable before the new-revision pods are removed, the restart from step one happens under the old canary route (rollout now %s).",
		sp.brDeletedRound, sp.trFinalizerAtDelete, sp.trPhaseAtDelete, sp.canaryIngressAtDelete, sp.finalReason)
}
