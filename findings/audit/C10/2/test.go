// dest: pkg/controller/rollout/zz_audit_C10_2_test.go
package rollout

import (
	"context"
	"testing"
	"time"

	"github.com/openkruise/rollouts/api/v1alpha1"
	"github.com/openkruise/rollouts/api/v1beta1"
	"github.com/openkruise/rollouts/pkg/trafficrouting"
	"github.com/openkruise/rollouts/pkg/util"
	metav1 "k8s.io/apimachinery/pkg/apis/meta/v1"
	"k8s.io/apimachinery/pkg/types"
	"k8s.io/client-go/tools/record"
	"sigs.k8s.io/controller-runtime/pkg/client"
	"sigs.k8s.io/controller-runtime/pkg/client/fake"
)

// Property C10, quantifier "a rollback ... injected at every step and sub-state of every scenario", clause
// "the rollout then ends reported as not succeeded (rollback)".
//
// Sub-state: Progressing/Initializing (the first >= 3 seconds of every rollout, longer when a TrafficRouting CR is awaited).
// History: v2 is pushed (webhook marks the Deployment "in rollout progressing", rollout goes Progressing/Initializing and
// records canaryRevision=v2) and the user reverts the template to v1 before the rollout reaches InRolling.
//
// reconcileRolloutProgressing/Initializing rebuilds the sub-status on every round and blindly copies
// workload.CanaryRevision into status.canaryRevision; it never looks at workload.IsInRollback. Once InRolling, every
// rollback test in doProgressingInRolling is "workload.IsInRollback && workload.CanaryRevision != status.canaryRevision",
// which is now false forever (the status already holds the stable revision). So the rollback is never cancelled:
// the rollout runs the whole plan (BatchRelease, canary Deployment, traffic steps, manual confirmations) "releasing" the
// stable revision onto itself and finally reports Succeeded=True.
func TestAuditC10_2_RollbackDuringInitializingIsNeverCancelled(t *testing.T) {
	oldGrace := defaultGracePeriodSeconds
	defaultGracePeriodSeconds = 0
	defer func() { defaultGracePeriodSeconds = oldGrace }()

	// stable Deployment already reverted to the v1 template (== template of the only/stable ReplicaSet)
	dep := deploymentDemo.DeepCopy()
	dep.Spec.Paused = true
	dep.Spec.Template.Spec.Containers[0].Image = "echoserver:v1"
	rs1 := rsDemo.DeepCopy()

	v2 := deploymentDemo.DeepCopy()
	v2Revision := util.ComputeHash(&v2.Spec.Template, nil)
	v1Revision := util.ComputeHash(&dep.Spec.Template, nil)

	rollout := rolloutDemo.DeepCopy() // Progressing / Initializing
	rollout.Status.CanaryStatus = &v1beta1.CanaryStatus{
		CommonStatus: v1beta1.CommonStatus{
			ObservedWorkloadGeneration: 1,
			RolloutHash:                rollout.Annotations[util.RolloutHashAnnotation],
			StableRevision:             "pod-template-hash-v1",
			CurrentStepIndex:           1,
			NextStepIndex:              2,
			CurrentStepState:           v1beta1.CanaryStepStateInit,
		},
		CanaryRevision: v2Revision, // what the previous Initializing round recorded
	}
	past := metav1.NewTime(time.Now().Add(-time.Minute))
	rollout.Status.Conditions[0].LastUpdateTime = past
	rollout.Status.Conditions[0].LastTransitionTime = past

	fc := fake.NewClientBuilder().WithScheme(scheme).WithObjects(rollout, demoConf.DeepCopy()).Build()
	for _, o := range []client.Object{rs1, dep, demoService.DeepCopy(), demoIngress.DeepCopy()} {
		if err := fc.Create(context.TODO(), o); err != nil {
			t.Fatalf("create %T failed: %v", o, err)
		}
	}
	r := &RolloutReconciler{
		Client:                fc,
		Scheme:                scheme,
		Recorder:              record.NewFakeRecorder(100),
		finder:                util.NewControllerFinder(fc),
		trafficRoutingManager: trafficrouting.NewTrafficRoutingManager(fc),
	}
	r.canaryManager = &canaryReleaseManager{Client: fc, trafficRoutingManager: r.trafficRoutingManager, recorder: r.Recorder}

	workload, err := r.finder.GetWorkloadForRef(rollout)
	if err != nil || workload == nil {
		t.Fatalf("GetWorkloadForRef: %v %v", workload, err)
	}
	if !workload.IsInRollback {
		t.Fatalf("test setup: workload should be recognised as in rollback")
	}

	sawCancelling := false
	var last *v1beta1.Rollout
	for i := 0; i < 6; i++ {
		last = &v1beta1.Rollout{}
		if err := fc.Get(context.TODO(), types.NamespacedName{Name: "rollout-demo"}, last); err != nil {
			t.Fatalf("get rollout: %v", err)
		}
		ns := last.Status.DeepCopy()
		if _, err := r.reconcileRolloutProgressing(last, ns); err != nil {
			t.Fatalf("round %d reconcileRolloutProgressing failed: %v", i, err)
		}
		if err := r.updateRolloutStatusInternal(last, *ns); err != nil {
			t.Fatalf("update status failed: %v", err)
		}
		c := util.GetRolloutCondition(last.Status, v1beta1.RolloutConditionProgressing)
		t.Logf("round %d: reason=%s step=%d state=%s status.canaryRevision=%s (workload IsInRollback=true, canaryRevision=%s)",
			i, c.Reason, last.Status.CanaryStatus.CurrentStepIndex, last.Status.CanaryStatus.CurrentStepState,
			last.Status.CanaryStatus.CanaryRevision, workload.CanaryRevision)
		if c.Reason == v1alpha1.ProgressingReasonCancelling {
			sawCancelling = true
		}
	}
	br := &v1beta1.BatchRelease{}
	brErr := fc.Get(context.TODO(), types.NamespacedName{Name: "rollout-demo"}, br)
	c := util.GetRolloutCondition(last.Status, v1beta1.RolloutConditionProgressing)
	if sawCancelling || c.Reason != v1alpha1.ProgressingReasonInRolling || brErr != nil {
		t.Fatalf("not reproduced: sawCancelling=%v reason=%s batchRelease err=%v", sawCancelling, c.Reason, brErr)
	}
	if last.Status.CanaryStatus.CanaryRevision != v1Revision {
		t.Fatalf("not reproduced: status canaryRevision=%s, want stable template hash %s", last.Status.CanaryStatus.CanaryRevision, v1Revision)
	}
	t.Logf("REPRODUCED: C10 rollback injected in sub-state Progressing/Initializing: the workload is back on its stable template "+
		"(IsInRollback=true) but the rollout is never cancelled: Initializing overwrote status.canaryRevision with the stable revision (%s), "+
		"so isRollingBackDirectly is false for ever; rollout is %s at step %d/%s and has created BatchRelease %q (batchPartition=%d) to 'release' "+
		"the stable revision step by step; it will end Succeeded=True instead of 'not succeeded'.",
		last.Status.CanaryStatus.CanaryRevision, c.Reason, last.Status.CanaryStatus.CurrentStepIndex, last.Status.CanaryStatus.CurrentStepState,
		br.Name, *br.Spec.ReleasePlan.BatchPartition)
}
