// dest: pkg/controller/rollout/zz_audit_C10_1_test.go
package rollout

import (
	"context"
	"testing"

	"github.com/openkruise/rollouts/api/v1alpha1"
	"github.com/openkruise/rollouts/api/v1beta1"
	"github.com/openkruise/rollouts/pkg/trafficrouting"
	"github.com/openkruise/rollouts/pkg/util"
	apps "k8s.io/api/apps/v1"
	corev1 "k8s.io/api/core/v1"
	"k8s.io/apimachinery/pkg/types"
	"k8s.io/client-go/tools/record"
	utilpointer "k8s.io/utils/pointer"
	"sigs.k8s.io/controller-runtime/pkg/client"
	"sigs.k8s.io/controller-runtime/pkg/client/fake"
)

// Property C10: "When the workload is reverted to its stable revision during a rollout ... all traffic is
// returned to the stable version ...; the rollout then ends reported as not succeeded (rollback)".
//
// Partition-style Deployment (Advanced Deployment), rollout standing at a step whose replicas cover the whole
// workload (here the last step, replicas: 10 of 10, waiting for manual confirmation). At such a step the stable
// ReplicaSet has been scaled to 0. The user reverts the pod template to the stable (v1) template.
//
// util.ControllerFinder.getAdvancedDeployment decides IsInRollback by looking up the ReplicaSet that matches the
// template, but GetReplicaSetsForDeployment drops every ReplicaSet with spec.replicas == 0, so the (scaled-down)
// stable ReplicaSet is invisible, PodTemplateHash stays "" and IsInRollback stays false. The webhook pauses the
// Deployment on the template change, so nothing ever scales the stable ReplicaSet up again: the misdetection is permanent.
// doProgressingInRolling therefore dispatches the rollback as a *continuous release* (supersession): the release is
// restarted from step one with "canary revision" == stable revision, instead of being cancelled and reported as
// not succeeded. With traffic routing the restarted release then pins the stable Service to the stable revision
// hash (PatchStableService, step 1 / StepInit) while not a single stable pod exists.
func TestAuditC10_1_RollbackAtFullStepOfPartitionDeploymentIsTreatedAsSupersession(t *testing.T) {
	run := func(stableRSReplicas int32) (*v1beta1.RolloutStatus, *util.Workload, client.Client, *RolloutReconciler) {
		// stable Deployment, template already reverted to v1 (rsDemo's template), in rollout progressing
		dep := deploymentDemo.DeepCopy()
		dep.Spec.Paused = true
		dep.Spec.Template.Spec.Containers[0].Image = "echoserver:v1"
		dep.Labels[v1alpha1.DeploymentStableRevisionLabel] = "pod-template-hash-v1"
		// stable (v1) replicaset
		rs1 := rsDemo.DeepCopy()
		rs1.Spec.Replicas = utilpointer.Int32(stableRSReplicas)
		rs1.Annotations = map[string]string{util.DeploymentRevisionAnnotation: "1"}
		// updated (v2) replicaset, owns all pods
		rs2 := rsDemo.DeepCopy()
		rs2.Name = "echoserver-2"
		rs2.Labels["pod-template-hash"] = "pod-template-hash-v2"
		rs2.Spec.Template.Spec.Containers[0].Image = "echoserver:v2"
		rs2.Spec.Replicas = utilpointer.Int32(10 - stableRSReplicas)
		rs2.Annotations = map[string]string{util.DeploymentRevisionAnnotation: "2"}

		v2 := deploymentDemo.DeepCopy() // deploymentDemo carries the v2 template
		v2Revision := util.ComputeHash(&v2.Spec.Template, nil)

		rollout := rolloutDemo.DeepCopy()
		rollout.Spec.Strategy.Canary.EnableExtraWorkloadForCanary = false // partition style
		rollout.Status.CanaryStatus.ObservedWorkloadGeneration = 2
		rollout.Status.CanaryStatus.RolloutHash = rollout.Annotations[util.RolloutHashAnnotation]
		rollout.Status.CanaryStatus.StableRevision = "pod-template-hash-v1"
		rollout.Status.CanaryStatus.CanaryRevision = v2Revision
		rollout.Status.CanaryStatus.PodTemplateHash = "pod-template-hash-v2"
		rollout.Status.CanaryStatus.CurrentStepIndex = 4 // replicas: 10 (== workload replicas), traffic 100%
		rollout.Status.CanaryStatus.NextStepIndex = -1
		rollout.Status.CanaryStatus.CurrentStepState = v1beta1.CanaryStepStatePaused
		cond := util.GetRolloutCondition(rollout.Status, v1beta1.RolloutConditionProgressing)
		cond.Reason = v1alpha1.ProgressingReasonInRolling
		util.SetRolloutCondition(&rollout.Status, *cond)

		br := batchDemo.DeepCopy()

		fc := fake.NewClientBuilder().WithScheme(scheme).WithObjects(rollout, demoConf.DeepCopy()).Build()
		for _, o := range []client.Object{rs1, rs2, dep, br, demoService.DeepCopy(), demoIngress.DeepCopy()} {
			if err := fc.Create(context.TODO(), o); err != nil {
				t.Fatalf("create %T failed: %v", o, err)
			}
		}
		r := &RolloutReconciler{
			Client:                fc,
			Scheme:                scheme,
			Recorder:              record.NewFakeRecorder(100),
			finder:                util.NewControllerFinder(fc),
			trafficRoutingManager: trafficrouting.NewTrafficRoutingManager(fc),
		}
		r.canaryManager = &canaryReleaseManager{Client: fc, trafficRoutingManager: r.trafficRoutingManager, recorder: r.Recorder}

		workload, err := r.finder.GetWorkloadForRef(rollout)
		if err != nil || workload == nil {
			t.Fatalf("GetWorkloadForRef: %v %v", workload, err)
		}
		newStatus := rollout.Status.DeepCopy()
		if _, err = r.reconcileRolloutProgressing(rollout, newStatus); err != nil {
			t.Fatalf("reconcileRolloutProgressing failed: %v", err)
		}
		if err = r.updateRolloutStatusInternal(rollout, *newStatus); err != nil {
			t.Fatalf("update status failed: %v", err)
		}
		return newStatus, workload, fc, r
	}

	// control: one stable pod is still there -> rollback recognised -> Cancelling (ends "not succeeded")
	ctlStatus, ctlWorkload, _, _ := run(1)
	ctlCond := util.GetRolloutCondition(*ctlStatus, v1beta1.RolloutConditionProgressing)
	if !ctlWorkload.IsInRollback || ctlCond.Reason != v1alpha1.ProgressingReasonCancelling {
		t.Fatalf("control case broken: IsInRollback=%v reason=%s", ctlWorkload.IsInRollback, ctlCond.Reason)
	}

	// the step covers the whole workload: stable replicaset scaled to 0
	status, workload, fc, r := run(0)
	cond := util.GetRolloutCondition(*status, v1beta1.RolloutConditionProgressing)
	t.Logf("workload: IsInRollback=%v stable=%s canary=%s podTemplateHash=%q; progressing reason=%s finalisingStep=%v",
		workload.IsInRollback, workload.StableRevision, workload.CanaryRevision, workload.PodTemplateHash, cond.Reason,
		func() interface{} {
			if status.CanaryStatus != nil {
				return status.CanaryStatus.FinalisingStep
			}
			return "<cleared>"
		}())
	if workload.IsInRollback {
		t.Fatalf("not reproduced: rollback was detected")
	}
	if cond.Reason == v1alpha1.ProgressingReasonCancelling {
		t.Fatalf("not reproduced: rollout is being cancelled")
	}
	// the continuous-release reset is what ran: the BatchRelease is being deleted, and the rollout is (or will be) re-initialised
	br := &v1beta1.BatchRelease{}
	err := fc.Get(context.TODO(), types.NamespacedName{Name: "rollout-demo"}, br)
	brGone := err != nil
	if !(cond.Reason == v1alpha1.ProgressingReasonInitializing ||
		(status.CanaryStatus != nil && status.CanaryStatus.FinalisingStep != "")) {
		t.Fatalf("not reproduced: neither re-initialising nor in continuous-release reset, reason=%s", cond.Reason)
	}
	t.Logf("REPRODUCED: C10 rollback clause: a Deployment (partition style) reverted to its stable template while the rollout "+
		"stands at a step covering all replicas (stable ReplicaSet scaled to 0) is NOT recognised as a rollback "+
		"(IsInRollback=false, because ReplicaSets with 0 replicas are ignored); doProgressingInRolling dispatches it to "+
		"handleContinuousRelease: progressing reason=%s (expected %s), batchRelease deleted=%v. The rollout restarts from step one "+
		"towards the stable revision and will end Succeeded=True instead of 'not succeeded'; the control with one remaining stable pod goes to %s.",
		cond.Reason, v1alpha1.ProgressingReasonCancelling, brGone, ctlCond.Reason)

	// keep reconciling (closed loop, nothing else changes): the "new release" towards the stable revision starts at step one
	oldGrace := defaultGracePeriodSeconds
	defaultGracePeriodSeconds = 0
	defer func() { defaultGracePeriodSeconds = oldGrace }()
	pinned := false
	var last *v1beta1.Rollout
	for i := 0; i < 12 && !pinned; i++ {
		last = &v1beta1.Rollout{}
		if err := fc.Get(context.TODO(), types.NamespacedName{Name: "rollout-demo"}, last); err != nil {
			t.Fatalf("get rollout: %v", err)
		}
		ns := last.Status.DeepCopy()
		if _, err := r.reconcileRolloutProgressing(last, ns); err != nil {
			t.Fatalf("round %d reconcileRolloutProgressing failed: %v", i, err)
		}
		if err := r.updateRolloutStatusInternal(last, *ns); err != nil {
			t.Fatalf("update status failed: %v", err)
		}
		svc := &corev1.Service{}
		if err := fc.Get(context.TODO(), types.NamespacedName{Name: "echoserver"}, svc); err != nil {
			t.Fatalf("get service: %v", err)
		}
		c := util.GetRolloutCondition(last.Status, v1beta1.RolloutConditionProgressing)
		step, state, canaryRev := int32(0), v1beta1.CanaryStepState(""), ""
		if last.Status.CanaryStatus != nil {
			step, state, canaryRev = last.Status.CanaryStatus.CurrentStepIndex, last.Status.CanaryStatus.CurrentStepState, last.Status.CanaryStatus.CanaryRevision
		}
		t.Logf("round %d: reason=%s step=%d state=%s canaryRevision=%s stable service selector=%v", i, c.Reason, step, state, canaryRev, svc.Spec.Selector)
		if svc.Spec.Selector["pod-template-hash"] == "pod-template-hash-v1" {
			pinned = true
		}
	}
	rsList := &apps.ReplicaSetList{}
	_ = fc.List(context.TODO(), rsList)
	stablePods := int32(0)
	for _, rs := range rsList.Items {
		if rs.Labels["pod-template-hash"] == "pod-template-hash-v1" {
			stablePods += *rs.Spec.Replicas
		}
	}
	c := util.GetRolloutCondition(last.Status, v1beta1.RolloutConditionProgressing)
	if c.Reason == v1alpha1.ProgressingReasonCancelling || last.Status.CanaryStatus == nil || last.Status.CanaryStatus.CurrentStepIndex != 1 {
		t.Fatalf("follow-up not reproduced: reason=%s status=%s", c.Reason, util.DumpJSON(last.Status))
	}
	t.Logf("REPRODUCED: C10 follow-up: after the misdetected rollback the rollout is back in %s at step %d/%s releasing canaryRevision=%s "+
		"(== stable template) as if it were a new version; stable Service pinned to stable hash=%v while the stable ReplicaSet has %d replicas "+
		"(every request through the stable Service has no endpoint until the restarted release creates stable pods).",
		c.Reason, last.Status.CanaryStatus.CurrentStepIndex, last.Status.CanaryStatus.CurrentStepState, last.Status.CanaryStatus.CanaryRevision, pinned, stablePods)
}
