// dest: pkg/controller/rollout/zz_audit_C10_4_test.go
package rollout

import (
	"context"
	"testing"

	kruiseappsv1alpha1 "github.com/openkruise/kruise-api/apps/v1alpha1"
	rolloutapi "github.com/openkruise/rollouts/api"
	"github.com/openkruise/rollouts/api/v1alpha1"
	"github.com/openkruise/rollouts/api/v1beta1"
	"github.com/openkruise/rollouts/pkg/trafficrouting"
	"github.com/openkruise/rollouts/pkg/util"
	metav1 "k8s.io/apimachinery/pkg/apis/meta/v1"
	"k8s.io/apimachinery/pkg/runtime"
	"k8s.io/apimachinery/pkg/types"
	clientgoscheme "k8s.io/client-go/kubernetes/scheme"
	"k8s.io/client-go/tools/record"
	"sigs.k8s.io/controller-runtime/pkg/client"
	"sigs.k8s.io/controller-runtime/pkg/client/fake"
)

// Property C10: "When the workload is reverted to its stable revision during a rollout ... the rollout then ends reported
// as not succeeded (rollback)" - for every workload kind the rollout supports.
//
// Sibling finders in pkg/util/controller_finder.go set Workload.IsInRollback for CloneSet, Deployment, StatefulSet-like
// workloads. For a Kruise DaemonSet neither branch can ever set it: getStatefulSetLikeWorkload (which answers first for the
// DaemonSet kind) compares UpdateRevision with a StableRevision that ParseWorkloadStatus leaves empty for DaemonSet
// (commented out in parse_utils.go), and getKruiseDaemonSet has the check commented out ("has no currentRevision") and does
// not fill StableRevision either. A Kruise DaemonSet reverted to its stable template during a rollout is therefore indistinguishable
// from a third revision: doProgressingInRolling dispatches to handleContinuousRelease, i.e. the rollback is handled as a
// supersession (restart from step one, will finish Succeeded=True) and never as a cancelled / not-succeeded rollout.
func TestAuditC10_4_DaemonSetRollbackIsTreatedAsSupersession(t *testing.T) {
	sch := runtime.NewScheme()
	_ = clientgoscheme.AddToScheme(sch)
	_ = rolloutapi.AddToScheme(sch)
	_ = kruiseappsv1alpha1.AddToScheme(sch)

	// DaemonSet that was v1 -> v2 (rollout in progress) and has just been reverted to the v1 template:
	// the daemonset controller reports the hash of the v1 ControllerRevision again.
	ds := &kruiseappsv1alpha1.DaemonSet{
		TypeMeta: metav1.TypeMeta{APIVersion: "apps.kruise.io/v1alpha1", Kind: "DaemonSet"},
		ObjectMeta: metav1.ObjectMeta{
			Name:        "echoserver",
			Generation:  3,
			Annotations: map[string]string{util.InRolloutProgressingAnnotation: `{"rolloutName":"rollout-demo"}`},
		},
		Status: kruiseappsv1alpha1.DaemonSetStatus{
			ObservedGeneration:     3,
			DesiredNumberScheduled: 10,
			UpdatedNumberScheduled: 7, // 7 pods still/again on v1, 3 pods on v2
			DaemonSetHash:          "echoserver-v1hash",
		},
	}

	rollout := rolloutDemo.DeepCopy()
	rollout.Spec.WorkloadRef = v1beta1.ObjectRef{APIVersion: "apps.kruise.io/v1alpha1", Kind: "DaemonSet", Name: "echoserver"}
	rollout.Spec.Strategy.Canary.EnableExtraWorkloadForCanary = false
	rollout.Spec.Strategy.Canary.TrafficRoutings = nil
	for i := range rollout.Spec.Strategy.Canary.Steps {
		rollout.Spec.Strategy.Canary.Steps[i].Traffic = nil
	}
	rollout.Status.CanaryStatus.ObservedWorkloadGeneration = 2
	rollout.Status.CanaryStatus.RolloutHash = rollout.Annotations[util.RolloutHashAnnotation]
	rollout.Status.CanaryStatus.CanaryRevision = "v2hash"
	rollout.Status.CanaryStatus.PodTemplateHash = "v2hash"
	rollout.Status.CanaryStatus.CurrentStepIndex = 2
	rollout.Status.CanaryStatus.NextStepIndex = 3
	rollout.Status.CanaryStatus.CurrentStepState = v1beta1.CanaryStepStatePaused
	cond := util.GetRolloutCondition(rollout.Status, v1beta1.RolloutConditionProgressing)
	cond.Reason = v1alpha1.ProgressingReasonInRolling
	util.SetRolloutCondition(&rollout.Status, *cond)

	br := batchDemo.DeepCopy()
	br.Spec.WorkloadRef = rollout.Spec.WorkloadRef

	fc := fake.NewClientBuilder().WithScheme(sch).WithObjects(rollout).Build()
	for _, o := range []client.Object{ds, br} {
		if err := fc.Create(context.TODO(), o); err != nil {
			t.Fatalf("create %T failed: %v", o, err)
		}
	}
	r := &RolloutReconciler{
		Client:                fc,
		Scheme:                sch,
		Recorder:              record.NewFakeRecorder(100),
		finder:                util.NewControllerFinder(fc),
		trafficRoutingManager: trafficrouting.NewTrafficRoutingManager(fc),
	}
	r.canaryManager = &canaryReleaseManager{Client: fc, trafficRoutingManager: r.trafficRoutingManager, recorder: r.Recorder}

	workload, err := r.finder.GetWorkloadForRef(rollout)
	if err != nil || workload == nil || !workload.IsStatusConsistent {
		t.Fatalf("GetWorkloadForRef: %+v %v", workload, err)
	}
	t.Logf("workload: InRolloutProgressing=%v IsInRollback=%v stableRevision=%q canaryRevision=%q", workload.InRolloutProgressing, workload.IsInRollback, workload.StableRevision, workload.CanaryRevision)

	reasons := []string{}
	for i := 0; i < 2; i++ {
		last := &v1beta1.Rollout{}
		if err := fc.Get(context.TODO(), types.NamespacedName{Name: "rollout-demo"}, last); err != nil {
			t.Fatalf("get rollout: %v", err)
		}
		ns := last.Status.DeepCopy()
		if _, err := r.reconcileRolloutProgressing(last, ns); err != nil {
			t.Fatalf("round %d reconcileRolloutProgressing failed: %v", i, err)
		}
		if err := r.updateRolloutStatusInternal(last, *ns); err != nil {
			t.Fatalf("update status failed: %v", err)
		}
		reasons = append(reasons, util.GetRolloutCondition(last.Status, v1beta1.RolloutConditionProgressing).Reason)
	}
	brErr := fc.Get(context.TODO(), types.NamespacedName{Name: "rollout-demo"}, &v1beta1.BatchRelease{})
	if workload.IsInRollback || reasons[0] == v1alpha1.ProgressingReasonCancelling || reasons[1] != v1alpha1.ProgressingReasonInitializing || brErr == nil {
		t.Fatalf("not reproduced: IsInRollback=%v reasons=%v brErr=%v", workload.IsInRollback, reasons, brErr)
	}
	t.Logf("REPRODUCED: C10 rollback clause, DaemonSet branch: a Kruise DaemonSet reverted to its stable template during a rollout is reported "+
		"IsInRollback=false (no finder branch can set it for DaemonSet, stableRevision=%q); the rollout treats the rollback as a continuous release: "+
		"progressing reasons over two rounds=%v (expected Cancelling), BatchRelease deleted, release restarts from step one and will end Succeeded=True.",
		workload.StableRevision, reasons)
}
