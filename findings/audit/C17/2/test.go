// dest: pkg/controller/deployment/zz_audit_C17_2_test.go
package deployment

import (
	"context"
	"fmt"
	"strconv"
	"testing"

	apps "k8s.io/api/apps/v1"
	metav1 "k8s.io/apimachinery/pkg/apis/meta/v1"
	"k8s.io/apimachinery/pkg/runtime"
	intstrutil "k8s.io/apimachinery/pkg/util/intstr"
	"k8s.io/client-go/informers"
	"k8s.io/client-go/kubernetes/fake"
	appslisters "k8s.io/client-go/listers/apps/v1"
	k8stesting "k8s.io/client-go/testing"
	"k8s.io/client-go/tools/record"
	"k8s.io/utils/pointer"

	rolloutsv1alpha1 "github.com/openkruise/rollouts/api/v1alpha1"
	"github.com/openkruise/rollouts/pkg/controller/deployment/util"
)

// TestAuditC17PartitionZeroNoSurgeStillUpdatesOnePod:
// This is exactly the state batchrelease's partition-style Initialize() produces before the
// first batch is released: strategy = {partition: 0, paused: false, rollingUpdate: <user's>}.
// With the user's rollingUpdate = {maxSurge: 0, maxUnavailable: 1}, replicas = 10 (unchanged),
// one old RS with 10/10 available pods and a new pod template:
//
//	write 1: getNewReplicaSet creates the new RS with max(NewRSNewReplicas=0, NewRSReplicasLowerBound=1) = 1
//	         replica -> new RS (1) exceeds what partition 0 allows (0) and total 11 > replicas+maxSurge = 10.
//	write 2: (same sync) ScaleDownLimitForOld uses max(partitionLimit, newRS.spec.replicas) = 1 as the "desired"
//	         new size, so the old RS is scaled 10 -> 9 although partition 0 reserves all 10 replicas for the old revision.
func TestAuditC17PartitionZeroNoSurgeStillUpdatesOnePod(t *testing.T) {
	const replicas = int32(10)
	fakeClient := fake.NewSimpleClientset()
	fakeRecord := record.NewFakeRecorder(100)
	factory := informers.NewSharedInformerFactory(fakeClient, 0)
	rsInformer := factory.Apps().V1().ReplicaSets().Informer()
	dInformer := factory.Apps().V1().Deployments().Informer()

	deployment := generateDeployment("busybox")
	deployment.Namespace = "default"
	deployment.UID = "d-uid"
	deployment.Spec.Replicas = pointer.Int32(replicas)
	deployment.Status.Replicas = 10
	deployment.Status.AvailableReplicas = 10
	deployment.Status.ReadyReplicas = 10
	_ = dInformer.GetIndexer().Add(&deployment)
	if _, err := fakeClient.AppsV1().Deployments(deployment.Namespace).Create(context.TODO(), &deployment, metav1.CreateOptions{}); err != nil {
		t.Fatal(err)
	}

	oldRS := generateRS(deployment)
	oldRS.SetName("rs-old")
	oldRS.Namespace = deployment.Namespace
	oldRS.Annotations = map[string]string{
		util.ReplicasAnnotation:    strconv.Itoa(int(replicas)),
		util.MaxReplicasAnnotation: strconv.Itoa(int(replicas)),
		util.RevisionAnnotation:    "1",
	}
	oldRS.Spec.Template.Spec.Containers[0].Image = "old-version"
	oldRS.Spec.Replicas = pointer.Int32(10)
	oldRS.Status.Replicas = 10
	oldRS.Status.ReadyReplicas = 10
	oldRS.Status.AvailableReplicas = 10
	_ = rsInformer.GetIndexer().Add(&oldRS)
	if _, err := fakeClient.AppsV1().ReplicaSets(oldRS.Namespace).Create(context.TODO(), &oldRS, metav1.CreateOptions{}); err != nil {
		t.Fatal(err)
	}

	ms := intstrutil.FromInt(0)
	mu := intstrutil.FromInt(1)
	partition := intstrutil.FromInt(0)
	dc := &DeploymentController{
		client:        fakeClient,
		eventRecorder: fakeRecord,
		dLister:       appslisters.NewDeploymentLister(dInformer.GetIndexer()),
		rsLister:      appslisters.NewReplicaSetLister(rsInformer.GetIndexer()),
		strategy: rolloutsv1alpha1.DeploymentStrategy{
			RollingStyle:  rolloutsv1alpha1.PartitionRollingStyle,
			RollingUpdate: &apps.RollingUpdateDeployment{MaxSurge: &ms, MaxUnavailable: &mu},
			Partition:     partition,
			Paused:        false,
		},
	}

	partitionLimit := util.NewRSReplicasLimit(partition, &deployment)
	if partitionLimit != 0 {
		t.Fatalf("setup: partition limit %d", partitionLimit)
	}

	refresh := func() (oldR, newR int32, newFound bool) {
		rss, err := fakeClient.AppsV1().ReplicaSets(deployment.Namespace).List(context.TODO(), metav1.ListOptions{})
		if err != nil {
			t.Fatal(err)
		}
		for i := range rss.Items {
			rs := rss.Items[i].DeepCopy()
			// the (not yet started) new pods are not available; old pods keep their status
			if rs.Name != "rs-old" {
				newFound = true
				newR = *rs.Spec.Replicas
				rs.Status.Replicas = *rs.Spec.Replicas
			} else {
				oldR = *rs.Spec.Replicas
			}
			_ = rsInformer.GetIndexer().Update(rs)
		}
		d, err := fakeClient.AppsV1().Deployments(deployment.Namespace).Get(context.TODO(), deployment.Name, metav1.GetOptions{})
		if err != nil {
			t.Fatal(err)
		}
		_ = dInformer.GetIndexer().Update(d)
		deployment = *d
		return
	}

	// Observe every ReplicaSet spec.replicas write (create/update) through the fake clientset and
	// record the total of all ReplicaSets right after that write.
	sizes := map[string]int32{"rs-old": 10}
	var totalsAfterWrite []int32
	observe := func(action k8stesting.Action) (bool, runtime.Object, error) {
		var obj runtime.Object
		switch a := action.(type) {
		case k8stesting.UpdateAction: // CreateAction has the same method set
			obj = a.GetObject()
		}
		if rs, ok := obj.(*apps.ReplicaSet); ok && rs.Spec.Replicas != nil {
			sizes[rs.Name] = *rs.Spec.Replicas
			total := int32(0)
			for _, v := range sizes {
				total += v
			}
			totalsAfterWrite = append(totalsAfterWrite, total)
		}
		return false, nil, nil
	}
	fakeClient.PrependReactor("create", "replicasets", observe)
	fakeClient.PrependReactor("update", "replicasets", observe)

	// one single sync
	if err := dc.syncDeployment(context.TODO(), &deployment); err != nil {
		t.Fatalf("sync1: %v", err)
	}
	old1, new1, found := refresh()
	if !found {
		t.Fatalf("new RS was not created")
	}
	reproduced := false
	maxTotal := int32(0)
	for _, v := range totalsAfterWrite {
		if v > maxTotal {
			maxTotal = v
		}
	}
	if new1 > partitionLimit {
		reproduced = true
		fmt.Printf("REPRODUCED C17 (partition cap / surge cap on new RS): replicas=10 (unchanged) partition=0 maxSurge=0 maxUnavailable=1, old RS 10/10 available; "+
			"one sync created the new RS with %d replica(s) > partition limit %d; total right after that write was %d (replicas+maxSurge=%d)\n",
			new1, partitionLimit, maxTotal, replicas)
	}
	reservedForOld := replicas - partitionLimit
	if old1 < reservedForOld {
		reproduced = true
		fmt.Printf("REPRODUCED C17 (partition reserve for old RS): partition=0 reserves %d replicas for the old revision, "+
			"but the same sync scaled the old RS 10 -> %d (new RS=%d, 0 available) - one pod of the stable revision is replaced before any batch is released\n",
			reservedForOld, old1, new1)
	}
	// a second sync must not repair it (it is a fixpoint)
	if err := dc.syncDeployment(context.TODO(), &deployment); err != nil {
		t.Fatalf("sync2: %v", err)
	}
	old2, new2, _ := refresh()
	if old2 != old1 || new2 != new1 {
		t.Logf("second sync changed sizes: old %d->%d new %d->%d", old1, old2, new1, new2)
	}
	if !reproduced {
		t.Fatalf("not reproduced: after sync1 old=%d new=%d; after sync2 old=%d new=%d; totals %v", old1, new1, old2, new2, totalsAfterWrite)
	}
}
