// dest: pkg/controller/deployment/zz_audit_C17_3_test.go
package deployment

import (
	"context"
	"encoding/json"
	"fmt"
	"strconv"
	"testing"

	apps "k8s.io/api/apps/v1"
	metav1 "k8s.io/apimachinery/pkg/apis/meta/v1"
	intstrutil "k8s.io/apimachinery/pkg/util/intstr"
	"k8s.io/client-go/informers"
	"k8s.io/client-go/kubernetes/fake"
	appslisters "k8s.io/client-go/listers/apps/v1"
	"k8s.io/client-go/tools/record"
	"k8s.io/utils/pointer"

	rolloutsv1alpha1 "github.com/openkruise/rollouts/api/v1alpha1"
	"github.com/openkruise/rollouts/pkg/controller/deployment/util"
	rolloututil "github.com/openkruise/rollouts/pkg/util"
)

// TestAuditC17DefaultingClobbersMaxUnavailable:
// api/v1alpha1.SetDefaultDeploymentStrategy (called by the workload mutating webhook and by
// batchrelease Initialize every time the strategy annotation is (re)written) has a copy/paste
// slip: when rollingUpdate.maxSurge is absent it stores the 25% default into MaxUnavailable
// instead of MaxSurge. A user who (as the webhook explicitly allows "during rolling") sets
// only rollingUpdate.maxUnavailable=1 therefore ends up with the annotation
// {maxUnavailable:"25%"} (maxSurge still absent), and the advanced deployment controller
// scales available old pods down far below replicas - maxUnavailable(1).
func TestAuditC17DefaultingClobbersMaxUnavailable(t *testing.T) {
	const replicas = int32(20)

	// What the user wrote: only maxUnavailable = 1.
	userMaxUnavailable := intstrutil.FromInt(1)
	strategy := rolloutsv1alpha1.DeploymentStrategy{
		RollingStyle:  rolloutsv1alpha1.PartitionRollingStyle,
		RollingUpdate: &apps.RollingUpdateDeployment{MaxUnavailable: &userMaxUnavailable},
		Partition:     intstrutil.FromString("100%"),
	}
	rolloutsv1alpha1.SetDefaultDeploymentStrategy(&strategy)
	strategyJSON, _ := json.Marshal(&strategy)

	fakeClient := fake.NewSimpleClientset()
	fakeRecord := record.NewFakeRecorder(100)
	factory := informers.NewSharedInformerFactory(fakeClient, 0)
	rsInformer := factory.Apps().V1().ReplicaSets().Informer()
	dInformer := factory.Apps().V1().Deployments().Informer()

	deployment := generateDeployment("busybox")
	deployment.Spec.Replicas = pointer.Int32(replicas)
	deployment.Spec.Paused = true
	deployment.Spec.Strategy.Type = apps.RecreateDeploymentStrategyType
	deployment.Annotations[rolloututil.BatchReleaseControlAnnotation] = `{"kind":"BatchRelease","name":"br"}`
	deployment.Annotations[rolloutsv1alpha1.DeploymentStrategyAnnotation] = string(strategyJSON)
	deployment.Status.Replicas = replicas
	deployment.Status.AvailableReplicas = replicas
	deployment.Status.ReadyReplicas = replicas
	_ = dInformer.GetIndexer().Add(&deployment)
	if _, err := fakeClient.AppsV1().Deployments(deployment.Namespace).Create(context.TODO(), &deployment, metav1.CreateOptions{}); err != nil {
		t.Fatal(err)
	}

	annos := func(rev string) map[string]string {
		return map[string]string{
			util.ReplicasAnnotation:    strconv.Itoa(int(replicas)),
			util.MaxReplicasAnnotation: strconv.Itoa(int(replicas)),
			util.RevisionAnnotation:    rev,
		}
	}
	oldRS := generateRS(deployment)
	oldRS.SetName("rs-old")
	oldRS.Annotations = annos("1")
	oldRS.Spec.Template.Spec.Containers[0].Image = "old-version"
	oldRS.Spec.Replicas = pointer.Int32(replicas)
	oldRS.Status.Replicas = replicas
	oldRS.Status.ReadyReplicas = replicas
	oldRS.Status.AvailableReplicas = replicas

	newRS := generateRS(deployment)
	newRS.SetName("rs-new")
	newRS.Annotations = annos("2")
	newRS.Spec.Replicas = pointer.Int32(0)

	for _, rs := range []*apps.ReplicaSet{&oldRS, &newRS} {
		_ = rsInformer.GetIndexer().Add(rs)
		if _, err := fakeClient.AppsV1().ReplicaSets(rs.Namespace).Create(context.TODO(), rs, metav1.CreateOptions{}); err != nil {
			t.Fatal(err)
		}
	}

	// Build the controller exactly like Reconcile does: from the annotation.
	f := &controllerFactory{
		client:        fakeClient,
		eventRecorder: fakeRecord,
		dLister:       appslisters.NewDeploymentLister(dInformer.GetIndexer()),
		rsLister:      appslisters.NewReplicaSetLister(rsInformer.GetIndexer()),
	}
	dc := f.NewController(&deployment)
	if dc == nil {
		t.Fatalf("setup: deployment is not handled by the advanced deployment controller")
	}

	if err := dc.syncDeployment(context.TODO(), &deployment); err != nil {
		t.Fatalf("unexpected error: %v", err)
	}
	gotOld, err := fakeClient.AppsV1().ReplicaSets(deployment.Namespace).Get(context.TODO(), "rs-old", metav1.GetOptions{})
	if err != nil {
		t.Fatal(err)
	}
	gotNew, err := fakeClient.AppsV1().ReplicaSets(deployment.Namespace).Get(context.TODO(), "rs-new", metav1.GetOptions{})
	if err != nil {
		t.Fatal(err)
	}

	userMinAvailable := replicas - int32(userMaxUnavailable.IntValue())
	availableAfter := *gotOld.Spec.Replicas + gotNew.Status.AvailableReplicas
	if availableAfter < userMinAvailable {
		fmt.Printf("REPRODUCED C17 (availability budget): user strategy rollingUpdate={maxUnavailable:1} (maxSurge absent), after SetDefaultDeploymentStrategy the annotation is %s; "+
			"replicas=%d (unchanged) partition=100%%, old RS %d/%d available, new RS 0: one sync scaled the old RS %d -> %d, leaving %d available < replicas-maxUnavailable=%d "+
			"(and maxSurge was never defaulted: %v)\n",
			string(strategyJSON), replicas, replicas, replicas, replicas, *gotOld.Spec.Replicas, availableAfter, userMinAvailable, strategy.RollingUpdate.MaxSurge)
		return
	}
	t.Fatalf("not reproduced: strategy=%s old=%d new=%d", string(strategyJSON), *gotOld.Spec.Replicas, *gotNew.Spec.Replicas)
}
