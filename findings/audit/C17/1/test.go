// dest: pkg/controller/deployment/zz_audit_C17_1_test.go
package deployment

import (
	"context"
	"fmt"
	"strconv"
	"testing"

	apps "k8s.io/api/apps/v1"
	metav1 "k8s.io/apimachinery/pkg/apis/meta/v1"
	intstrutil "k8s.io/apimachinery/pkg/util/intstr"
	"k8s.io/client-go/informers"
	"k8s.io/client-go/kubernetes/fake"
	appslisters "k8s.io/client-go/listers/apps/v1"
	"k8s.io/client-go/tools/record"
	"k8s.io/utils/pointer"

	rolloutsv1alpha1 "github.com/openkruise/rollouts/api/v1alpha1"
	"github.com/openkruise/rollouts/pkg/controller/deployment/util"
)

// TestAuditC17PausedSyncIgnoresSurgeAndAvailability:
// A partition-style Deployment whose size is NOT being changed (replicas=10, every
// ReplicaSet carries desired-replicas=10 / max-replicas=13) is in the middle of a batch:
// partition=3, maxSurge=3, maxUnavailable=0. The controller itself surged the new RS to 3
// (total 13 = replicas+maxSurge, which is legal); none of the 3 new pods is available yet.
// All 10 old pods are available. Now the strategy is paused (paused=true in the
// rollouts.kruise.io/deployment-strategy annotation, which the webhook does on every
// effective template change and the user does when pausing the Rollout).
//
// syncDeployment -> sync -> scale() treats "total(13) != replicas(10)" as if the Deployment
// had been scaled down (allowedSize lacks MaxSurge) and removes 3 pods from the old RS,
// although none of the new pods is available: only 7 available pods stay, fewer than
// replicas-maxUnavailable = 10.
func TestAuditC17PausedSyncIgnoresSurgeAndAvailability(t *testing.T) {
	const (
		replicas       = int32(10)
		surge          = int32(3)
		maxUnavailable = int32(0)
	)
	fakeClient := fake.NewSimpleClientset()
	fakeRecord := record.NewFakeRecorder(100)
	factory := informers.NewSharedInformerFactory(fakeClient, 0)
	rsInformer := factory.Apps().V1().ReplicaSets().Informer()
	dInformer := factory.Apps().V1().Deployments().Informer()

	deployment := generateDeployment("busybox")
	deployment.Spec.Replicas = pointer.Int32(replicas)
	deployment.Status.Replicas = 13
	deployment.Status.UpdatedReplicas = 3
	deployment.Status.AvailableReplicas = 10
	deployment.Status.ReadyReplicas = 10
	_ = dInformer.GetIndexer().Add(&deployment)
	if _, err := fakeClient.AppsV1().Deployments(deployment.Namespace).Create(context.TODO(), &deployment, metav1.CreateOptions{}); err != nil {
		t.Fatal(err)
	}

	annos := func() map[string]string {
		return map[string]string{
			util.ReplicasAnnotation:    strconv.Itoa(int(replicas)),
			util.MaxReplicasAnnotation: strconv.Itoa(int(replicas + surge)),
		}
	}

	oldRS := generateRS(deployment)
	oldRS.SetName("rs-old")
	oldRS.Annotations = annos()
	oldRS.Annotations[util.RevisionAnnotation] = "1"
	oldRS.Spec.Template.Spec.Containers[0].Image = "old-version"
	oldRS.Spec.Replicas = pointer.Int32(10)
	oldRS.Status.Replicas = 10
	oldRS.Status.ReadyReplicas = 10
	oldRS.Status.AvailableReplicas = 10

	newRS := generateRS(deployment)
	newRS.SetName("rs-new")
	newRS.Annotations = annos()
	newRS.Annotations[util.RevisionAnnotation] = "2"
	newRS.Spec.Replicas = pointer.Int32(3)
	newRS.Status.Replicas = 3
	newRS.Status.ReadyReplicas = 0
	newRS.Status.AvailableReplicas = 0

	for _, rs := range []*apps.ReplicaSet{&oldRS, &newRS} {
		_ = rsInformer.GetIndexer().Add(rs)
		if _, err := fakeClient.AppsV1().ReplicaSets(rs.Namespace).Create(context.TODO(), rs, metav1.CreateOptions{}); err != nil {
			t.Fatal(err)
		}
	}

	ms := intstrutil.FromInt(int(surge))
	mu := intstrutil.FromInt(int(maxUnavailable))
	dc := &DeploymentController{
		client:        fakeClient,
		eventRecorder: fakeRecord,
		dLister:       appslisters.NewDeploymentLister(dInformer.GetIndexer()),
		rsLister:      appslisters.NewReplicaSetLister(rsInformer.GetIndexer()),
		strategy: rolloutsv1alpha1.DeploymentStrategy{
			RollingStyle:  rolloutsv1alpha1.PartitionRollingStyle,
			RollingUpdate: &apps.RollingUpdateDeployment{MaxSurge: &ms, MaxUnavailable: &mu},
			Partition:     intstrutil.FromInt(3),
			Paused:        true,
		},
	}

	// sanity: this is not a scaling event, the size of the Deployment is not being changed.
	scaling, err := dc.isScalingEvent(context.TODO(), deployment.DeepCopy(), []*apps.ReplicaSet{&oldRS, &newRS})
	if err != nil || scaling {
		t.Fatalf("setup is wrong: scaling=%v err=%v", scaling, err)
	}

	if err := dc.syncDeployment(context.TODO(), &deployment); err != nil {
		t.Fatalf("unexpected error: %v", err)
	}

	gotOld, err := fakeClient.AppsV1().ReplicaSets(deployment.Namespace).Get(context.TODO(), "rs-old", metav1.GetOptions{})
	if err != nil {
		t.Fatal(err)
	}
	gotNew, err := fakeClient.AppsV1().ReplicaSets(deployment.Namespace).Get(context.TODO(), "rs-new", metav1.GetOptions{})
	if err != nil {
		t.Fatal(err)
	}

	// Old pods were all available, new pods all unavailable: available after the write is
	// at most old.spec.replicas.
	availableAfter := *gotOld.Spec.Replicas + gotNew.Status.AvailableReplicas
	minAvailable := replicas - maxUnavailable
	if *gotOld.Spec.Replicas < 10 && availableAfter < minAvailable {
		fmt.Printf("REPRODUCED C17 (availability budget): replicas=10 (unchanged) partition=3 maxSurge=3 maxUnavailable=0 paused=true; "+
			"old RS 10/10 available, new RS 3 pods 0 available; one controller sync scaled the old RS %d -> %d (new RS stays %d), "+
			"leaving %d available pods < replicas-maxUnavailable=%d\n",
			10, *gotOld.Spec.Replicas, *gotNew.Spec.Replicas, availableAfter, minAvailable)
		return
	}
	t.Fatalf("not reproduced: old=%d new=%d", *gotOld.Spec.Replicas, *gotNew.Spec.Replicas)
}
