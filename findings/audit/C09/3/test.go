// dest: pkg/webhook/rollout/validating/zz_audit_C09_3_test.go
package validating

import (
	"context"
	"encoding/json"
	"fmt"
	"testing"

	rolloutapi "github.com/openkruise/rollouts/api"
	appsv1alpha1 "github.com/openkruise/rollouts/api/v1alpha1"
	appsv1beta1 "github.com/openkruise/rollouts/api/v1beta1"
	admissionv1 "k8s.io/api/admission/v1"
	metav1 "k8s.io/apimachinery/pkg/apis/meta/v1"
	"k8s.io/apimachinery/pkg/runtime"
	"k8s.io/apimachinery/pkg/util/intstr"
	clientgoscheme "k8s.io/client-go/kubernetes/scheme"
	"sigs.k8s.io/controller-runtime/pkg/client/fake"
	"sigs.k8s.io/controller-runtime/pkg/webhook/admission"
)

// C09: "Validation also keeps the structural promises the controllers depend on: non-empty, NON-DECREASING steps".
//
// validateRolloutSpecCanarySteps (and its v1alpha1 sibling) only compares ADJACENT steps, and skips a pair
// whenever one side is an absolute number and the other a percentage.  Putting one absolute step between two
// percentage steps therefore hides any decrease: ["50%", 3, "10%"] is admitted although 50% -> 10% is a decrease
// for every possible workload size (for a 10-replica workload the plan is 5 -> 3 -> 1 pods).
func TestAuditC09_3_DecreasingStepsAdmittedWhenAnAbsoluteStepSeparatesTwoPercentages(t *testing.T) {
	sch := runtime.NewScheme()
	_ = clientgoscheme.AddToScheme(sch)
	_ = rolloutapi.AddToScheme(sch)
	pct := func(s string) *intstr.IntOrString { return &intstr.IntOrString{Type: intstr.String, StrVal: s} }
	num := func(i int32) *intstr.IntOrString { return &intstr.IntOrString{Type: intstr.Int, IntVal: i} }

	decoder, _ := admission.NewDecoder(sch)
	h := &RolloutCreateUpdateHandler{Client: fake.NewClientBuilder().WithScheme(sch).Build(), Decoder: decoder}
	handle := func(version string, obj interface{}) admission.Response {
		by, _ := json.Marshal(obj)
		return h.Handle(context.TODO(), admission.Request{AdmissionRequest: admissionv1.AdmissionRequest{
			Operation: admissionv1.Create,
			Kind:      metav1.GroupVersionKind{Group: appsv1beta1.GroupVersion.Group, Version: version, Kind: "Rollout"},
			Object:    runtime.RawExtension{Raw: by},
		}})
	}

	beta := func(steps ...*intstr.IntOrString) *appsv1beta1.Rollout {
		r := &appsv1beta1.Rollout{
			TypeMeta:   metav1.TypeMeta{APIVersion: appsv1beta1.GroupVersion.String(), Kind: "Rollout"},
			ObjectMeta: metav1.ObjectMeta{Name: "r", Namespace: "default"},
			Spec: appsv1beta1.RolloutSpec{
				WorkloadRef: appsv1beta1.ObjectRef{APIVersion: "apps/v1", Kind: "Deployment", Name: "echoserver"},
				Strategy:    appsv1beta1.RolloutStrategy{Canary: &appsv1beta1.CanaryStrategy{}},
			},
		}
		for _, s := range steps {
			r.Spec.Strategy.Canary.Steps = append(r.Spec.Strategy.Canary.Steps, appsv1beta1.CanaryStep{Replicas: s})
		}
		return r
	}
	alpha := func(steps ...*intstr.IntOrString) *appsv1alpha1.Rollout {
		r := &appsv1alpha1.Rollout{
			TypeMeta:   metav1.TypeMeta{APIVersion: appsv1alpha1.GroupVersion.String(), Kind: "Rollout"},
			ObjectMeta: metav1.ObjectMeta{Name: "r", Namespace: "default"},
			Spec: appsv1alpha1.RolloutSpec{
				ObjectRef: appsv1alpha1.ObjectRef{WorkloadRef: &appsv1alpha1.WorkloadRef{APIVersion: "apps/v1", Kind: "Deployment", Name: "echoserver"}},
				Strategy:  appsv1alpha1.RolloutStrategy{Canary: &appsv1alpha1.CanaryStrategy{}},
			},
		}
		for _, s := range steps {
			r.Spec.Strategy.Canary.Steps = append(r.Spec.Strategy.Canary.Steps, appsv1alpha1.CanaryStep{Replicas: s})
		}
		return r
	}

	// sanity: the promise is enforced when the two percentages are adjacent
	if resp := handle("v1beta1", beta(pct("50%"), pct("10%"))); resp.Allowed {
		t.Fatalf("unexpected: [50%%,10%%] admitted")
	}

	respBeta := handle("v1beta1", beta(pct("50%"), num(3), pct("10%")))
	respAlpha := handle("v1alpha1", alpha(pct("50%"), num(3), pct("10%")))
	if !respBeta.Allowed || !respAlpha.Allowed {
		t.Fatalf("defect not present: v1beta1 allowed=%v (%v), v1alpha1 allowed=%v (%v)", respBeta.Allowed, respBeta.Result, respAlpha.Allowed, respAlpha.Result)
	}

	// what the controller will ask the workload to do, for a 10 replica workload
	var plan []int
	for _, s := range []*intstr.IntOrString{pct("50%"), num(3), pct("10%")} {
		v, _ := intstr.GetScaledValueFromIntOrPercent(s, 10, true)
		plan = append(plan, v)
	}
	if !(plan[0] > plan[1] && plan[1] > plan[2]) {
		t.Fatalf("plan unexpectedly non-decreasing: %v", plan)
	}
	fmt.Printf("REPRODUCED C09: the 'non-decreasing steps' promise is not kept by validation: the validating webhook (v1beta1 AND v1alpha1) "+
		"ADMITTED steps replicas=[50%%, 3, 10%%]; 50%% -> 10%% decreases for every workload size, and for a 10-replica workload the "+
		"release plan handed to the controllers is %v canary pods\n", plan)
}
