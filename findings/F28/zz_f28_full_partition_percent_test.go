// dest: pkg/controller/deployment/zz_audit_C17_4_test.go
package deployment

import (
	"context"
	"fmt"
	"strconv"
	"testing"

	apps "k8s.io/api/apps/v1"
	metav1 "k8s.io/apimachinery/pkg/apis/meta/v1"
	intstrutil "k8s.io/apimachinery/pkg/util/intstr"
	"k8s.io/client-go/informers"
	"k8s.io/client-go/kubernetes/fake"
	appslisters "k8s.io/client-go/listers/apps/v1"
	"k8s.io/client-go/tools/record"
	"k8s.io/utils/pointer"

	rolloutsv1alpha1 "github.com/openkruise/rollouts/api/v1alpha1"
	"github.com/openkruise/rollouts/pkg/controller/deployment/util"
)

// TestAuditC17PercentPartitionCoveringAllNeverConverges:
// NewRSReplicasLimit reserves one old pod for every percent partition whose *text* is not
// exactly "100%". A percent partition that covers all replicas but is spelled differently
// ("150%", "200%", "0100%") is clamped to replicas and then pushed down to replicas-1, whereas
// the integer partition 15 (also > replicas) and "100%" give replicas. With such a partition the
// Deployment never converges to the new revision only: one old pod stays forever and the
// controller even reports the rollout as satisfied.
func TestAuditC17PercentPartitionCoveringAllNeverConverges(t *testing.T) {
	const replicas = int32(10)
	for _, p := range []string{"150%", "200%", "0100%"} {
		partition := intstrutil.FromString(p)

		fakeClient := fake.NewSimpleClientset()
		fakeRecord := record.NewFakeRecorder(100)
		factory := informers.NewSharedInformerFactory(fakeClient, 0)
		rsInformer := factory.Apps().V1().ReplicaSets().Informer()
		dInformer := factory.Apps().V1().Deployments().Informer()

		deployment := generateDeployment("busybox")
		deployment.Spec.Replicas = pointer.Int32(replicas)
		deployment.Status.Replicas = replicas
		deployment.Status.UpdatedReplicas = 5
		deployment.Status.AvailableReplicas = replicas
		deployment.Status.ReadyReplicas = replicas
		_ = dInformer.GetIndexer().Add(&deployment)
		if _, err := fakeClient.AppsV1().Deployments(deployment.Namespace).Create(context.TODO(), &deployment, metav1.CreateOptions{}); err != nil {
			t.Fatal(err)
		}

		// sanity: an int partition larger than replicas and the literal "100%" cover everything.
		if l := util.NewRSReplicasLimit(intstrutil.FromInt(15), &deployment); l != replicas {
			t.Fatalf("int partition 15: limit %d", l)
		}
		if l := util.NewRSReplicasLimit(intstrutil.FromString("100%"), &deployment); l != replicas {
			t.Fatalf("100%%: limit %d", l)
		}
		limit := util.NewRSReplicasLimit(partition, &deployment)

		annos := func(rev string) map[string]string {
			return map[string]string{
				util.ReplicasAnnotation:    strconv.Itoa(int(replicas)),
				util.MaxReplicasAnnotation: strconv.Itoa(int(replicas + 2)),
				util.RevisionAnnotation:    rev,
			}
		}
		oldRS := generateRS(deployment)
		oldRS.SetName("rs-old")
		oldRS.Annotations = annos("1")
		oldRS.Spec.Template.Spec.Containers[0].Image = "old-version"
		oldRS.Spec.Replicas = pointer.Int32(5)
		oldRS.Status.Replicas = 5
		oldRS.Status.ReadyReplicas = 5
		oldRS.Status.AvailableReplicas = 5

		newRS := generateRS(deployment)
		newRS.SetName("rs-new")
		newRS.Annotations = annos("2")
		newRS.Spec.Replicas = pointer.Int32(5)
		newRS.Status.Replicas = 5
		newRS.Status.ReadyReplicas = 5
		newRS.Status.AvailableReplicas = 5

		for _, rs := range []*apps.ReplicaSet{&oldRS, &newRS} {
			_ = rsInformer.GetIndexer().Add(rs)
			if _, err := fakeClient.AppsV1().ReplicaSets(rs.Namespace).Create(context.TODO(), rs, metav1.CreateOptions{}); err != nil {
				t.Fatal(err)
			}
		}

		ms := intstrutil.FromInt(2)
		mu := intstrutil.FromInt(2)
		dc := &DeploymentController{
			client:        fakeClient,
			eventRecorder: fakeRecord,
			dLister:       appslisters.NewDeploymentLister(dInformer.GetIndexer()),
			rsLister:      appslisters.NewReplicaSetLister(rsInformer.GetIndexer()),
			strategy: rolloutsv1alpha1.DeploymentStrategy{
				RollingStyle:  rolloutsv1alpha1.PartitionRollingStyle,
				RollingUpdate: &apps.RollingUpdateDeployment{MaxSurge: &ms, MaxUnavailable: &mu},
				Partition:     partition,
			},
		}

		// Run syncs to a fixpoint; after every sync every pod the controller asked for becomes
		// ready and available immediately (the most favourable schedule for convergence).
		var oldR, newR int32
		for i := 0; i < 30; i++ {
			if err := dc.syncDeployment(context.TODO(), &deployment); err != nil {
				t.Fatalf("sync %d: %v", i, err)
			}
			rss, err := fakeClient.AppsV1().ReplicaSets(deployment.Namespace).List(context.TODO(), metav1.ListOptions{})
			if err != nil {
				t.Fatal(err)
			}
			for j := range rss.Items {
				rs := rss.Items[j].DeepCopy()
				rs.Status.Replicas = *rs.Spec.Replicas
				rs.Status.ReadyReplicas = *rs.Spec.Replicas
				rs.Status.AvailableReplicas = *rs.Spec.Replicas
				if _, err := fakeClient.AppsV1().ReplicaSets(rs.Namespace).UpdateStatus(context.TODO(), rs, metav1.UpdateOptions{}); err != nil {
					t.Fatal(err)
				}
				_ = rsInformer.GetIndexer().Update(rs)
				if rs.Name == "rs-old" {
					oldR = *rs.Spec.Replicas
				} else {
					newR = *rs.Spec.Replicas
				}
			}
			d, err := fakeClient.AppsV1().Deployments(deployment.Namespace).Get(context.TODO(), deployment.Name, metav1.GetOptions{})
			if err != nil {
				t.Fatal(err)
			}
			_ = dInformer.GetIndexer().Update(d)
			deployment = *d
		}

		satisfied := util.DeploymentRolloutSatisfied(&deployment, partition) == nil
		if limit < replicas && oldR > 0 && newR < replicas {
			fmt.Printf("REPRODUCED C17 (convergence when partition covers all replicas): replicas=%d partition=%q (>= 100%% of replicas; int partition 15 and \"100%%\" give limit %d) "+
				"-> NewRSReplicasLimit=%d; after 30 syncs with every pod immediately available: old RS=%d new RS=%d, the Deployment never converges to the new revision only "+
				"(DeploymentRolloutSatisfied=%v)\n", replicas, p, replicas, limit, oldR, newR, satisfied)
			continue
		}
		t.Fatalf("not reproduced for %q: limit=%d old=%d new=%d", p, limit, oldR, newR)
	}
}
