package v1alpha1

// Reproduction of finding F7 (property C20): objects that the CRD schemas admit make the conversion functions panic.
// Run (from /repo): go test -overlay <overlay.json mapping api/v1alpha1/zz_f7_conversion_test.go to this file> -vet=off -run TestF7 ./api/v1alpha1/

import (
	"fmt"
	"testing"

	"github.com/openkruise/rollouts/api/v1beta1"
)

func panics(f func()) (msg string) {
	defer func() {
		if r := recover(); r != nil {
			msg = fmt.Sprint(r)
		}
	}()
	f()
	return ""
}

func TestF7ConversionPanics(t *testing.T) {
	cases := map[string]func(){
		// spec.objectRef.workloadRef is optional in the v1alpha1 schema
		"Rollout.ConvertTo without workloadRef": func() {
			src := &Rollout{Spec: RolloutSpec{Strategy: RolloutStrategy{Canary: &CanaryStrategy{}}}}
			_ = src.ConvertTo(&v1beta1.Rollout{})
		},
		// spec.strategy.canary is optional in the v1alpha1 schema
		"Rollout.ConvertTo without canary strategy": func() {
			src := &Rollout{Spec: RolloutSpec{ObjectRef: ObjectRef{WorkloadRef: &WorkloadRef{}}}}
			_ = src.ConvertTo(&v1beta1.Rollout{})
		},
		// spec.targetReference.workloadRef is optional in the v1alpha1 schema
		"BatchRelease.ConvertTo without workloadRef": func() {
			src := &BatchRelease{}
			_ = src.ConvertTo(&v1beta1.BatchRelease{})
		},
		// spec.strategy with neither canary nor blueGreen is admitted by the v1beta1 schema
		"Rollout.ConvertFrom with an empty strategy": func() {
			dst := &Rollout{}
			_ = dst.ConvertFrom(&v1beta1.Rollout{})
		},
	}
	for name, f := range cases {
		if msg := panics(f); msg != "" {
			fmt.Printf("REPRODUCED %s: panic: %s\n", name, msg)
		} else {
			t.Errorf("%s: no panic", name)
		}
	}
}
