package util

// Reproduction of finding F11 (property C09): the status of a StatefulSet-like custom workload is read untyped; a
// status.updateRevision that is not a string (the field is free-form in a third-party CRD) makes the type assertion in
// parseStatusStringFromUnstructured panic in the controller.
import (
	"fmt"
	"testing"

	"k8s.io/apimachinery/pkg/apis/meta/v1/unstructured"
)

func TestF11NonStringStatusPanics(t *testing.T) {
	obj := &unstructured.Unstructured{Object: map[string]interface{}{"status": map[string]interface{}{"updateRevision": int64(7)}}}
	msg := func() (m string) {
		defer func() {
			if x := recover(); x != nil {
				m = fmt.Sprint(x)
			}
		}()
		_ = parseStatusStringFromUnstructured(obj, "updateRevision")
		return ""
	}()
	if msg == "" {
		t.Fatalf("no panic")
	}
	fmt.Printf("REPRODUCED non-string status.updateRevision: panic: %s\n", msg)
}
