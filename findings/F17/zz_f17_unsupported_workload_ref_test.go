// dest: pkg/controller/batchrelease/zz_audit_C18_4_test.go
package batchrelease

import (
	"context"
	"fmt"
	"runtime/debug"
	"strings"
	"testing"

	"github.com/openkruise/rollouts/api/v1beta1"
	"github.com/openkruise/rollouts/pkg/feature"
	"github.com/openkruise/rollouts/pkg/util"
	"k8s.io/apimachinery/pkg/api/errors"
	"k8s.io/client-go/tools/record"
	"sigs.k8s.io/controller-runtime/pkg/client"
	"sigs.k8s.io/controller-runtime/pkg/client/fake"
	"sigs.k8s.io/controller-runtime/pkg/controller/controllerutil"
	"sigs.k8s.io/controller-runtime/pkg/reconcile"
)

// A BatchRelease whose spec.workloadRef names a kind outside the known workload list (here the native
// apps/v1 DaemonSet; there is no admission webhook for BatchRelease, and --filter-workload-type defaults
// to true). Reconcile -> handleFinalizer registers rollouts.kruise.io/batch-release-finalizer FIRST, then
// executor.Do -> getReleaseController fails ("workload type is not supported") and Do returns a nil status;
// Reconcile passes that nil to updateStatus, which dereferences it -> panic inside Reconcile (not recovered
// by this controller-runtime version: the manager process dies).
//
// With respect to C18: the object now carries the controller's finalizer but the only code path that can
// ever remove it (phase Completed) is unreachable, every reconcile of the object - including the ones
// triggered by its deletion - panics before. Nothing was ever created for this BatchRelease (cleanup is
// trivially complete), yet its deletion is blocked forever and the controller crash-loops until somebody
// strips the finalizer by hand.
func TestAuditC18_4_UnsupportedWorkloadBatchReleaseCanNeverBeDeleted(t *testing.T) {
	if !feature.NeedFilterWorkloadType() {
		t.Skip("--filter-workload-type is not at its default (true)")
	}
	release := releaseDeploy.DeepCopy()
	release.Name = "release-unsupported"
	release.Finalizers = nil
	release.Spec.WorkloadRef = v1beta1.ObjectRef{APIVersion: "apps/v1", Kind: "DaemonSet", Name: "sample"}
	release.Spec.ReleasePlan.RollingStyle = v1beta1.PartitionRollingStyle

	gvk := util.GetGVKFrom(&release.Spec.WorkloadRef)
	if util.IsSupportedWorkload(gvk) {
		t.Fatalf("harness: %v unexpectedly supported", gvk)
	}
	// state after the first reconcile of such an object in a real manager: the dynamic watch for the
	// (existing) GVK has been registered and remembered, so Reconcile proceeds past the watcher block.
	// (for a GVK that does not exist in the cluster AddWatcherDynamically returns (false, nil) and
	// Reconcile proceeds as well.)
	watchedWorkload.LoadOrStore(gvk.String(), struct{}{})
	defer watchedWorkload.Delete(gvk.String())

	rec := record.NewFakeRecorder(1000)
	cli := fake.NewClientBuilder().WithScheme(scheme).WithObjects(release).Build()
	r := &BatchReleaseReconciler{Client: cli, recorder: rec, Scheme: scheme, executor: NewReleasePlanExecutor(cli, rec)}
	key := client.ObjectKeyFromObject(release)
	req := reconcile.Request{NamespacedName: key}

	reconcileOnce := func() (panicked bool, where string) {
		defer func() {
			if p := recover(); p != nil {
				panicked = true
				where = fmt.Sprintf("%v", p)
				for _, line := range strings.Split(string(debug.Stack()), "\n") {
					if strings.Contains(line, "batchrelease.(*BatchReleaseReconciler)") {
						where += " @ " + strings.TrimSpace(line)
						break
					}
				}
			}
		}()
		_, _ = r.Reconcile(context.TODO(), req)
		return
	}

	panicked, where := reconcileOnce()
	br := &v1beta1.BatchRelease{}
	if err := cli.Get(context.TODO(), key, br); err != nil {
		t.Fatalf("get batchrelease: %v", err)
	}
	hasFinalizer := controllerutil.ContainsFinalizer(br, ReleaseFinalizer)
	t.Logf("live object: reconcile panicked=%v (%s), finalizers=%v", panicked, where, br.Finalizers)
	if !panicked || !hasFinalizer {
		t.Fatalf("NOT reproduced: panicked=%v finalizer registered=%v", panicked, hasFinalizer)
	}

	// the operator deletes the poisonous object
	if err := cli.Delete(context.TODO(), br); err != nil {
		t.Fatalf("delete: %v", err)
	}
	panics := 0
	const rounds = 10
	for i := 0; i < rounds; i++ {
		if p, _ := reconcileOnce(); p {
			panics++
		}
	}
	err := cli.Get(context.TODO(), key, br)
	if errors.IsNotFound(err) {
		t.Fatalf("NOT reproduced: the BatchRelease could be deleted")
	} else if err != nil {
		t.Fatalf("get batchrelease: %v", err)
	}
	if br.DeletionTimestamp.IsZero() || !controllerutil.ContainsFinalizer(br, ReleaseFinalizer) || panics != rounds {
		t.Fatalf("NOT reproduced: deletionTimestamp=%v finalizers=%v panics=%d/%d", br.DeletionTimestamp, br.Finalizers, panics, rounds)
	}
	fmt.Printf("REPRODUCED C18/batchrelease: BatchRelease with unsupported workloadRef %s got finalizer %s, then every Reconcile panics (%s); "+
		"after deletion was requested %d/%d reconciles panicked, phase=%q never reaches Completed, so the finalizer is never removed: "+
		"deletion is blocked forever although there is nothing to clean up, and the manager crash-loops meanwhile\n",
		gvk.String(), ReleaseFinalizer, where, panics, rounds, br.Status.Phase)
}
