package v1alpha1

// Reproduction of finding F14 (property C20): a v1alpha1 BatchRelease carries its rolling style in
// spec.releasePlan.rollingStyle, but BatchRelease.ConvertTo takes the style only from the rollouts.kruise.io/rolling-style
// annotation. A BatchRelease written through v1alpha1 with the field set and no annotation is stored with an empty style
// and reads back with an empty style.
import (
	"fmt"
	"testing"

	"github.com/openkruise/rollouts/api/v1beta1"
)

func TestF14BatchReleaseStyleFieldLost(t *testing.T) {
	src := &BatchRelease{Spec: BatchReleaseSpec{
		TargetRef:   ObjectRef{WorkloadRef: &WorkloadRef{APIVersion: "apps/v1", Kind: "Deployment", Name: "web"}},
		ReleasePlan: ReleasePlan{RollingStyle: BlueGreenRollingStyle},
	}}
	hub := &v1beta1.BatchRelease{}
	if err := src.ConvertTo(hub); err != nil {
		t.Fatal(err)
	}
	back := &BatchRelease{}
	if err := back.ConvertFrom(hub); err != nil {
		t.Fatal(err)
	}
	if back.Spec.ReleasePlan.RollingStyle == src.Spec.ReleasePlan.RollingStyle {
		t.Fatalf("style survives")
	}
	fmt.Printf("REPRODUCED rollingStyle=%q written through v1alpha1: stored as %q, read back as %q\n", src.Spec.ReleasePlan.RollingStyle, hub.Spec.ReleasePlan.RollingStyle, back.Spec.ReleasePlan.RollingStyle)
}
