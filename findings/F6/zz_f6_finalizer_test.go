package trafficrouting

// Reproduction of finding F6 (property C18): a TrafficRouting that is being deleted must keep its own finalizer
// until FinalisingTrafficRouting has completed. Place in pkg/controller/trafficrouting/ and run
//   go test -vet=off -count=1 -run TestF6 ./pkg/controller/trafficrouting/

import (
	"context"
	"fmt"
	"testing"

	"github.com/openkruise/rollouts/api/v1alpha1"
	"github.com/openkruise/rollouts/pkg/trafficrouting"
	"github.com/openkruise/rollouts/pkg/util"
	netv1 "k8s.io/api/networking/v1"
	"k8s.io/apimachinery/pkg/api/errors"
	"k8s.io/apimachinery/pkg/types"
	ctrl "sigs.k8s.io/controller-runtime"
	"sigs.k8s.io/controller-runtime/pkg/client"
	"sigs.k8s.io/controller-runtime/pkg/client/fake"
)

// failOnce makes the first Delete of an Ingress fail with a transient API error.
type failOnce struct {
	client.Client
	failed bool
}

func (f *failOnce) Delete(ctx context.Context, obj client.Object, opts ...client.DeleteOption) error {
	if _, ok := obj.(*netv1.Ingress); ok && !f.failed {
		f.failed = true
		return errors.NewServiceUnavailable("injected transient API error")
	}
	return f.Client.Delete(ctx, obj, opts...)
}

func TestF6FinalizerKeptUntilCleanupDone(t *testing.T) {
	s1 := demoService.DeepCopy()
	i1 := demoIngress.DeepCopy()
	i2 := demoIngress.DeepCopy()
	i2.Name = "echoserver-canary"
	i2.Annotations[fmt.Sprintf("%s/canary", nginxIngressAnnotationDefaultPrefix)] = "true"
	i2.Annotations["nginx.ingress.kubernetes.io/canary-by-header"] = "user_id"
	i2.Annotations["nginx.ingress.kubernetes.io/canary-by-header-value"] = "123456"
	base := fake.NewClientBuilder().WithScheme(scheme).WithObjects(i1, s1, demoConf.DeepCopy()).Build()
	cli := &failOnce{Client: base}
	_ = cli.Create(context.TODO(), i2)
	tr := demoTR.DeepCopy()
	tr.Status = v1alpha1.TrafficRoutingStatus{Phase: v1alpha1.TrafficRoutingPhaseProgressing}
	tr.Finalizers = []string{util.TrafficRoutingFinalizer}
	if err := cli.Create(context.TODO(), tr); err != nil {
		t.Fatal(err)
	}
	// the user deletes the TrafficRouting while the canary ingress is still routing traffic
	if err := cli.Delete(context.TODO(), tr); err != nil {
		t.Fatal(err)
	}
	r := TrafficRoutingReconciler{Client: cli, Scheme: scheme, trafficRoutingManager: trafficrouting.NewTrafficRoutingManager(cli)}
	key := types.NamespacedName{Namespace: tr.Namespace, Name: tr.Name}
	for i := 0; i < 4; i++ {
		if _, err := r.Reconcile(context.TODO(), ctrl.Request{NamespacedName: key}); err != nil {
			t.Logf("reconcile %d returned error: %v", i, err)
		}
		got := &v1alpha1.TrafficRouting{}
		err := cli.Get(context.TODO(), key, got)
		gone := errors.IsNotFound(err)
		if !gone && err != nil {
			t.Fatal(err)
		}
		hasFinalizer := false
		if !gone {
			for _, f := range got.Finalizers {
				if f == util.TrafficRoutingFinalizer {
					hasFinalizer = true
				}
			}
		}
		canary := &netv1.Ingress{}
		cerr := cli.Get(context.TODO(), types.NamespacedName{Namespace: i2.Namespace, Name: i2.Name}, canary)
		canaryExists := cerr == nil
		t.Logf("after reconcile %d: trafficrouting gone=%v ownFinalizer=%v canaryIngressExists=%v", i, gone, hasFinalizer, canaryExists)
		if (gone || !hasFinalizer) && canaryExists {
			t.Fatalf("C18 violated after reconcile %d: the TrafficRouting finalizer is gone (object gone=%v) although the canary Ingress %q it created still exists", i, gone, i2.Name)
		}
		if gone {
			return
		}
	}
}
