// dest: pkg/controller/batchrelease/control/bluegreenstyle/cloneset/zz_audit_C07_3_test.go
package cloneset

import (
	"context"
	"fmt"
	"testing"

	kruiseappsv1alpha1 "github.com/openkruise/kruise-api/apps/v1alpha1"
	"github.com/openkruise/rollouts/pkg/controller/batchrelease/control"
	"k8s.io/apimachinery/pkg/util/intstr"
	"sigs.k8s.io/controller-runtime/pkg/client/fake"
)

// Property C07: "the update target the controller sets always suffices for its own readiness criterion".
//
// Blue-green CloneSet, 10 replicas, step replicas: 15 (an absolute number above spec.replicas is admitted by the
// webhook: "replicas must be positive number"). The partition-style controllers clamp the batch size with
// control.CalculateBatchReplicas and the blue-green Deployment sibling clamps with NewRSReplicasLimit, but the
// blue-green CloneSet CalculateBatchContext uses the raw value: DesiredUpdatedReplicas = 15 > replicas = 10.
// A CloneSet never runs more than spec.replicas pods of the update revision, so IsBatchReady can never hold.
func TestAuditC07BlueGreenCloneSetTargetAboveReplicas(t *testing.T) {
	cs := cloneDemo.DeepCopy() // 10 replicas
	release := releaseDemo.DeepCopy()
	release.Spec.ReleasePlan.Batches = release.Spec.ReleasePlan.Batches[:1]
	release.Spec.ReleasePlan.Batches[0].CanaryReplicas = intstr.FromInt(15)
	cli := fake.NewClientBuilder().WithScheme(scheme).WithObjects(release, cs).Build()

	reload := func() *realController {
		c := NewController(cli, cloneKey, cs.GroupVersionKind()).(*realController)
		if _, err := c.BuildController(); err != nil {
			t.Fatal(err)
		}
		return c
	}
	if err := reload().Initialize(release); err != nil {
		t.Fatal(err)
	}

	var lastErr error
	var desired, updated int32
	var surge string
	for i := 0; i < 20; i++ {
		c := reload()
		ctx, err := c.CalculateBatchContext(release)
		if err != nil {
			t.Fatal(err)
		}
		if err = c.UpgradeBatch(ctx); err != nil {
			t.Fatal(err)
		}
		fetch := &kruiseappsv1alpha1.CloneSet{}
		if err = cli.Get(context.TODO(), cloneKey, fetch); err != nil {
			t.Fatal(err)
		}
		surge = fetch.Spec.UpdateStrategy.MaxSurge.String()
		// responsive CloneSet controller, healthy pods: it surges as many new pods as allowed, at most spec.replicas
		s, _ := intstr.GetScaledValueFromIntOrPercent(fetch.Spec.UpdateStrategy.MaxSurge, int(*fetch.Spec.Replicas), true)
		updated = int32(s)
		if updated > *fetch.Spec.Replicas {
			updated = *fetch.Spec.Replicas
		}
		ctx.UpdatedReplicas, ctx.UpdatedReadyReplicas = updated, updated
		desired = ctx.DesiredUpdatedReplicas
		lastErr = ctx.IsBatchReady()
		if lastErr == nil {
			t.Skipf("batch became ready after %d rounds: defect not present", i+1)
		}
	}
	clamped := control.CalculateBatchReplicas(release, 10, 0)
	fmt.Printf("REPRODUCED C07 (target vs. readiness): blue-green CloneSet replicas=10, step replicas=15: UpgradeBatch sets maxSurge=%s, "+
		"all %d possible new pods are updated and ready, but IsBatchReady demands DesiredUpdatedReplicas=%d (sibling partition-style clamps to %d); "+
		"after 20 rounds still: %v. The batch never becomes ready, the rollout never finishes.\n", surge, updated, desired, clamped, lastErr)
}
