// dest: pkg/controller/batchrelease/zz_audit_C18_3_test.go
package batchrelease

import (
	"context"
	"fmt"
	"testing"

	"github.com/openkruise/rollouts/api/v1beta1"
	"github.com/openkruise/rollouts/pkg/util"
	apps "k8s.io/api/apps/v1"
	"k8s.io/apimachinery/pkg/api/errors"
	"k8s.io/client-go/tools/record"
	"k8s.io/utils/pointer"
	"sigs.k8s.io/controller-runtime/pkg/client"
	"sigs.k8s.io/controller-runtime/pkg/client/fake"
	"sigs.k8s.io/controller-runtime/pkg/reconcile"
)

// A blue-green style BatchRelease takes a Deployment under its control (Initialize: control-info
// annotation, original-strategy annotation, minReadySeconds/progressDeadlineSeconds = "infinite",
// maxSurge/maxUnavailable rewritten). The BatchRelease is then deleted while spec.releasePlan.batchPartition
// is still set (deleted directly, or garbage-collected because its owner Rollout was removed).
//
// Executor: deletion -> phase Finalizing -> workloadController.Finalize(). For the two blue-green
// controllers Finalize() starts with `if release.Spec.ReleasePlan.BatchPartition != nil { warn "continuous
// release is not supported"; return nil }`, i.e. it reports success WITHOUT touching the workload. The
// executor therefore moves to phase Completed and handleFinalizer removes
// rollouts.kruise.io/batch-release-finalizer. The sibling partition-style controllers do release the
// workload (they at least drop the control-info annotation) in the same situation.
func TestAuditC18_3_BlueGreenBatchReleaseDeletedWhilePartitionedLeavesWorkloadControlled(t *testing.T) {
	run := func(t *testing.T, style v1beta1.RollingStyleType) (gone bool, d *apps.Deployment, before *apps.Deployment) {
		release := releaseDeploy.DeepCopy()
		release.Name = "release-" + string(style)
		release.UID = "c18-3-" + release.UID
		release.Spec.ReleasePlan.RollingStyle = style
		release.Spec.ReleasePlan.BatchPartition = pointer.Int32(0)
		release.Spec.ReleasePlan.Batches[0].CanaryReplicas.StrVal = "50%"

		stable := getStableWithReady(stableDeploy, "v2").(*apps.Deployment)
		stable.Annotations = nil // not under anybody's control yet
		stable.Spec.Paused = style == v1beta1.PartitionRollingStyle
		objs := []client.Object{release, stable}
		objs = append(objs, makeStableReplicaSets(stable)...)

		rec := record.NewFakeRecorder(1000)
		cli := fake.NewClientBuilder().WithScheme(scheme).WithObjects(objs...).Build()
		r := &BatchReleaseReconciler{Client: cli, recorder: rec, Scheme: scheme, executor: NewReleasePlanExecutor(cli, rec)}
		key := client.ObjectKeyFromObject(release)
		req := reconcile.Request{NamespacedName: key}
		getBR := func() (*v1beta1.BatchRelease, error) {
			obj := &v1beta1.BatchRelease{}
			err := cli.Get(context.TODO(), key, obj)
			return obj, err
		}
		getDep := func() *apps.Deployment {
			obj := &apps.Deployment{}
			if err := cli.Get(context.TODO(), client.ObjectKeyFromObject(stable), obj); err != nil {
				t.Fatalf("get deployment: %v", err)
			}
			return obj
		}

		// let the controller register its finalizer and take the workload under control
		for i := 0; i < 10; i++ {
			_, _ = r.Reconcile(context.TODO(), req)
			br, err := getBR()
			if err != nil {
				t.Fatalf("get batchrelease: %v", err)
			}
			t.Logf("[%s] round %d: phase=%s finalizers=%v controlled=%v", style, i, br.Status.Phase, br.Finalizers, getDep().Annotations[util.BatchReleaseControlAnnotation] != "")
			if br.Status.Phase == v1beta1.RolloutPhaseProgressing && getDep().Annotations[util.BatchReleaseControlAnnotation] != "" {
				break
			}
		}
		before = getDep()
		if before.Annotations[util.BatchReleaseControlAnnotation] == "" {
			t.Fatalf("harness: [%s] deployment never got under BatchRelease control", style)
		}
		br, _ := getBR()
		if len(br.Finalizers) == 0 {
			t.Fatalf("harness: [%s] finalizer was not registered", style)
		}

		// deletion requested while partitioned
		if err := cli.Delete(context.TODO(), br); err != nil {
			t.Fatalf("delete batchrelease: %v", err)
		}
		for i := 0; i < 20; i++ {
			_, _ = r.Reconcile(context.TODO(), req)
			br, err := getBR()
			if errors.IsNotFound(err) {
				gone = true
				break
			} else if err != nil {
				t.Fatalf("get batchrelease: %v", err)
			}
			t.Logf("[%s] terminating round %d: phase=%s finalizers=%v", style, i, br.Status.Phase, br.Finalizers)
		}
		return gone, getDep(), before
	}

	// control: sibling implementation (partition style) releases the workload before the finalizer goes away
	gone, d, _ := run(t, v1beta1.PartitionRollingStyle)
	if !gone || d.Annotations[util.BatchReleaseControlAnnotation] != "" {
		t.Fatalf("harness/control: partition-style expected released workload, gone=%v annotations=%v", gone, d.Annotations)
	}
	t.Logf("control ok: partition-style BatchRelease released the workload (control annotation removed) before dropping its finalizer")

	gone, d, before := run(t, v1beta1.BlueGreenRollingStyle)
	if !gone {
		t.Fatalf("NOT reproduced: blue-green BatchRelease is still visible")
	}
	var residue []string
	if v := d.Annotations[util.BatchReleaseControlAnnotation]; v != "" {
		residue = append(residue, "control-info annotation still names the vanished BatchRelease: "+v)
	}
	if v := d.Annotations[v1beta1.OriginalDeploymentStrategyAnnotation]; v != "" {
		residue = append(residue, "original-strategy annotation not restored: "+v)
	}
	if d.Spec.MinReadySeconds == v1beta1.MaxReadySeconds {
		residue = append(residue, fmt.Sprintf("spec.minReadySeconds still %d", d.Spec.MinReadySeconds))
	}
	if d.Spec.ProgressDeadlineSeconds != nil && *d.Spec.ProgressDeadlineSeconds == v1beta1.MaxProgressSeconds {
		residue = append(residue, fmt.Sprintf("spec.progressDeadlineSeconds still %d", *d.Spec.ProgressDeadlineSeconds))
	}
	if len(residue) == 0 {
		t.Fatalf("NOT reproduced: workload was released; before=%v after=%v", before.Annotations, d.Annotations)
	}
	fmt.Printf("REPRODUCED C18/batchrelease: blue-green BatchRelease deleted while batchPartition!=nil: Finalize() was a no-op, phase went Completed, finalizer %s "+
		"was removed and the BatchRelease vanished although the workload was NOT released: %v\n", ReleaseFinalizer, residue)
}
