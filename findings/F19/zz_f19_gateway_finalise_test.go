// dest: pkg/trafficrouting/network/gateway/zz_audit_C05_2_test.go
package gateway

import (
	"context"
	"fmt"
	"testing"

	"github.com/openkruise/rollouts/api/v1beta1"
	"github.com/openkruise/rollouts/pkg/util"
	metav1 "k8s.io/apimachinery/pkg/apis/meta/v1"
	"k8s.io/apimachinery/pkg/runtime"
	"k8s.io/apimachinery/pkg/types"
	utilpointer "k8s.io/utils/pointer"
	"sigs.k8s.io/controller-runtime/pkg/client/fake"
	gatewayv1beta1 "sigs.k8s.io/gateway-api/apis/v1beta1"
)

// Audit C05 finding 2: the Gateway API provider's EnsureRoutes;Finalise round trip does not give the user's
// HTTPRoute back.
//   (a) Finalise drops every rule whose backendRefs list is empty. That is meant to remove the header-match canary
//       rules the provider added, but a user rule that legitimately has no backendRefs (a RequestRedirect rule) is
//       removed as well - even if the rollout never touched it.
//   (b) Finalise sets the stable backend weight to the constant 1 instead of the user's weight, so a rule that
//       splits traffic between the stable Service and another backend comes back with a different split.

func auditC05Route() *gatewayv1beta1.HTTPRoute {
	kind := gatewayv1beta1.Kind("Service")
	port := gatewayv1beta1.PortNumber(80)
	scheme := "https"
	code := 301
	prefix := gatewayv1beta1.PathMatchPathPrefix
	svc := func(name string, w int32) gatewayv1beta1.HTTPBackendRef {
		return gatewayv1beta1.HTTPBackendRef{BackendRef: gatewayv1beta1.BackendRef{
			BackendObjectReference: gatewayv1beta1.BackendObjectReference{Kind: &kind, Name: gatewayv1beta1.ObjectName(name), Port: &port},
			Weight:                 utilpointer.Int32(w),
		}}
	}
	return &gatewayv1beta1.HTTPRoute{
		ObjectMeta: metav1.ObjectMeta{Namespace: "default", Name: "web"},
		Spec: gatewayv1beta1.HTTPRouteSpec{
			Rules: []gatewayv1beta1.HTTPRouteRule{
				{ // user rule 0: redirect, no backendRefs (valid Gateway API)
					Matches: []gatewayv1beta1.HTTPRouteMatch{{Path: &gatewayv1beta1.HTTPPathMatch{Type: &prefix, Value: utilpointer.String("/old")}}},
					Filters: []gatewayv1beta1.HTTPRouteFilter{{
						Type:            gatewayv1beta1.HTTPRouteFilterRequestRedirect,
						RequestRedirect: &gatewayv1beta1.HTTPRequestRedirectFilter{Scheme: &scheme, StatusCode: &code},
					}},
				},
				{ // user rule 1: 90/10 split between the workload's Service and a legacy backend
					Matches:     []gatewayv1beta1.HTTPRouteMatch{{Path: &gatewayv1beta1.HTTPPathMatch{Type: &prefix, Value: utilpointer.String("/")}}},
					BackendRefs: []gatewayv1beta1.HTTPBackendRef{svc("web-svc", 90), svc("legacy-svc", 10)},
				},
			},
		},
	}
}

func TestAuditC05_2_GatewayRoundTrip(t *testing.T) {
	sch := runtime.NewScheme()
	_ = gatewayv1beta1.AddToScheme(sch)
	original := auditC05Route()
	fc := fake.NewClientBuilder().WithScheme(sch).WithObjects(original.DeepCopy()).Build()
	name := "web"
	ctrl, err := NewGatewayTrafficRouting(fc, Config{
		Key: "Rollout(default/demo)", Namespace: "default", StableService: "web-svc", CanaryService: "web-svc-canary",
		TrafficConf: &v1beta1.GatewayTrafficRouting{HTTPRouteName: &name},
	})
	if err != nil {
		t.Fatal(err)
	}
	ctx := context.TODO()
	// a canary step with 20% traffic
	strategy := &v1beta1.TrafficRoutingStrategy{Traffic: utilpointer.String("20%")}
	for i := 0; i < 3; i++ {
		done, err := ctrl.EnsureRoutes(ctx, strategy)
		if err != nil {
			t.Fatal(err)
		}
		if done {
			break
		}
	}
	// the rollout ends (any reason): provider Finalise until it reports "nothing to do"
	for i := 0; i < 3; i++ {
		modified, err := ctrl.Finalise(ctx)
		if err != nil {
			t.Fatal(err)
		}
		if !modified {
			break
		}
	}
	got := &gatewayv1beta1.HTTPRoute{}
	if err := fc.Get(ctx, types.NamespacedName{Namespace: "default", Name: "web"}, got); err != nil {
		t.Fatal(err)
	}

	reproduced := 0
	// (a) the redirect rule
	hasRedirect := false
	for _, r := range got.Spec.Rules {
		if len(r.Filters) == 1 && r.Filters[0].Type == gatewayv1beta1.HTTPRouteFilterRequestRedirect {
			hasRedirect = true
		}
	}
	if !hasRedirect && len(got.Spec.Rules) == len(original.Spec.Rules)-1 {
		reproduced++
		fmt.Printf("REPRODUCED (C05, HTTPRoute not back to the user's configuration, a): after EnsureRoutes(20%%);Finalise the user's "+
			"RequestRedirect rule (path /old, no backendRefs) has been deleted from the HTTPRoute: %d rules before, %d after: %s\n",
			len(original.Spec.Rules), len(got.Spec.Rules), util.DumpJSON(got.Spec.Rules))
	}
	// (b) the weights of the split rule
	for _, r := range got.Spec.Rules {
		if len(r.BackendRefs) != 2 {
			continue
		}
		w0, w1 := *r.BackendRefs[0].Weight, *r.BackendRefs[1].Weight
		if string(r.BackendRefs[0].Name) == "web-svc" && string(r.BackendRefs[1].Name) == "legacy-svc" && (w0 != 90 || w1 != 10) {
			reproduced++
			fmt.Printf("REPRODUCED (C05, HTTPRoute not back to the user's configuration, b): the user's split web-svc:legacy-svc = 90:10 "+
				"came back as %d:%d (web-svc now receives %d%% of the rule's traffic instead of 90%%)\n", w0, w1, int(w0)*100/int(w0+w1))
		}
	}
	if reproduced != 2 {
		t.Fatalf("not reproduced (%d/2): %s", reproduced, util.DumpJSON(got.Spec.Rules))
	}
}

// (a) in isolation: the rollout never needs EnsureRoutes to run; Finalise alone (which runs on every exit path, and
// also at the start of every step that has no traffic/matches via FinalisingTrafficRouting) removes the rule.
func TestAuditC05_2_GatewayFinaliseAloneDropsRedirectRule(t *testing.T) {
	sch := runtime.NewScheme()
	_ = gatewayv1beta1.AddToScheme(sch)
	original := auditC05Route()
	fc := fake.NewClientBuilder().WithScheme(sch).WithObjects(original.DeepCopy()).Build()
	name := "web"
	ctrl, _ := NewGatewayTrafficRouting(fc, Config{Namespace: "default", StableService: "web-svc", CanaryService: "web-svc-canary",
		TrafficConf: &v1beta1.GatewayTrafficRouting{HTTPRouteName: &name}})
	if _, err := ctrl.Finalise(context.TODO()); err != nil {
		t.Fatal(err)
	}
	got := &gatewayv1beta1.HTTPRoute{}
	_ = fc.Get(context.TODO(), types.NamespacedName{Namespace: "default", Name: "web"}, got)
	if len(got.Spec.Rules) != 1 {
		t.Fatalf("not reproduced: %s", util.DumpJSON(got.Spec.Rules))
	}
	fmt.Printf("REPRODUCED (C05, HTTPRoute): Finalise on an HTTPRoute the rollout never modified removed the user's redirect rule "+
		"and rewrote the stable weight: %s\n", util.DumpJSON(got.Spec.Rules))
}
