package labelpatch

// Reproduction of finding F4 (property C12, also C09): a pod of the new revision that carries this release's rollout-id
// and a batch-id label outside 1..len(batches) (a stale or hand-written value) makes patchPodBatchLabel index its
// per-batch counters out of range. controller-runtime v0.14 does not recover reconcile panics: the controller crashes.
import (
	"fmt"
	"testing"

	apps "k8s.io/api/apps/v1"
	corev1 "k8s.io/api/core/v1"
	metav1 "k8s.io/apimachinery/pkg/apis/meta/v1"
	"k8s.io/apimachinery/pkg/util/intstr"
	"k8s.io/klog/v2"
	"sigs.k8s.io/controller-runtime/pkg/client/fake"

	"github.com/openkruise/rollouts/api/v1beta1"
	batchcontext "github.com/openkruise/rollouts/pkg/controller/batchrelease/context"
)

func TestF4StaleBatchLabelPanics(t *testing.T) {
	for _, stale := range []string{"0", "7", "-3"} {
		pod := &corev1.Pod{ObjectMeta: metav1.ObjectMeta{Name: "p", Namespace: "ns", Labels: map[string]string{
			apps.ControllerRevisionHashLabelKey: "v2",
			v1beta1.RolloutIDLabel:              "release-1",
			v1beta1.RolloutBatchIDLabel:         stale,
		}}}
		batches := []v1beta1.ReleaseBatch{{CanaryReplicas: intstr.FromInt(1)}, {CanaryReplicas: intstr.FromInt(2)}}
		r := NewLabelPatcher(fake.NewClientBuilder().Build(), klog.ObjectRef{Name: "br"}, batches)
		ctx := &batchcontext.BatchContext{RolloutID: "release-1", UpdateRevision: "v2", Replicas: 2, CurrentBatch: 1, Pods: []*corev1.Pod{pod}}
		msg := func() (m string) {
			defer func() {
				if x := recover(); x != nil {
					m = fmt.Sprint(x)
				}
			}()
			_ = r.PatchPodBatchLabel(ctx)
			return ""
		}()
		if msg == "" {
			t.Errorf("batch-id %q: no panic", stale)
		} else {
			fmt.Printf("REPRODUCED batch-id label %q: panic: %s\n", stale, msg)
		}
	}
}
