// dest: pkg/controller/rollout/zz_audit_C09_1_test.go
package rollout

import (
	"context"
	"encoding/json"
	"fmt"
	"strings"
	"testing"

	rolloutv1alpha1 "github.com/openkruise/rollouts/api/v1alpha1"
	"github.com/openkruise/rollouts/api/v1beta1"
	"github.com/openkruise/rollouts/pkg/trafficrouting"
	"github.com/openkruise/rollouts/pkg/util"
	"github.com/openkruise/rollouts/pkg/webhook/rollout/validating"
	admissionv1 "k8s.io/api/admission/v1"
	corev1 "k8s.io/api/core/v1"
	metav1 "k8s.io/apimachinery/pkg/apis/meta/v1"
	"k8s.io/apimachinery/pkg/runtime"
	"k8s.io/apimachinery/pkg/types"
	"k8s.io/apimachinery/pkg/util/intstr"
	"k8s.io/client-go/tools/record"
	utilpointer "k8s.io/utils/pointer"
	ctrl "sigs.k8s.io/controller-runtime"
	"sigs.k8s.io/controller-runtime/pkg/client/fake"
	"sigs.k8s.io/controller-runtime/pkg/webhook/admission"
)

// C09: "Validation also keeps the structural promises the controllers depend on: ... no change of
// ... step count while a release is progressing", and "every Rollout the validating webhook accepts
// is processed by the controllers without a process crash".
//
// The v1beta1 update validator forbids changing the number of steps while Phase==Progressing.
// The sibling v1alpha1 update validator (validateV1alpha1RolloutUpdate) has no such check, so a user
// who talks to the v1alpha1 API can shrink the step list in the middle of a release.  The canary
// release manager indexes Steps[CurrentStepIndex-1] unconditionally ("since we forbid adding or
// removing steps, currentStepIndex should always be valid") and panics inside Reconcile.
func TestAuditC09_1_V1alpha1StepCountShrinkWhileProgressingCrashesReconcile(t *testing.T) {
	const ns = "default"
	mkAlpha := func(nSteps int) *rolloutv1alpha1.Rollout {
		all := []rolloutv1alpha1.CanaryStep{
			{Replicas: &intstr.IntOrString{Type: intstr.Int, IntVal: 1}},
			{Replicas: &intstr.IntOrString{Type: intstr.Int, IntVal: 2}},
			{Replicas: &intstr.IntOrString{Type: intstr.Int, IntVal: 6}},
			{Replicas: &intstr.IntOrString{Type: intstr.Int, IntVal: 10}},
		}
		return &rolloutv1alpha1.Rollout{
			TypeMeta: metav1.TypeMeta{APIVersion: rolloutv1alpha1.GroupVersion.String(), Kind: "Rollout"},
			ObjectMeta: metav1.ObjectMeta{
				Name: "rollout-demo", Namespace: ns,
				Annotations: map[string]string{
					rolloutv1alpha1.RolloutStyleAnnotation: "canary",
					util.RolloutHashAnnotation:             "hash-of-the-4-step-plan",
				},
			},
			Spec: rolloutv1alpha1.RolloutSpec{
				ObjectRef: rolloutv1alpha1.ObjectRef{WorkloadRef: &rolloutv1alpha1.WorkloadRef{
					APIVersion: "apps/v1", Kind: "Deployment", Name: "echoserver"}},
				Strategy: rolloutv1alpha1.RolloutStrategy{Canary: &rolloutv1alpha1.CanaryStrategy{Steps: all[:nSteps]}},
			},
			// a release that is waiting for manual confirmation in step 3 of 4
			Status: rolloutv1alpha1.RolloutStatus{
				Phase: rolloutv1alpha1.RolloutPhaseProgressing,
				Conditions: []rolloutv1alpha1.RolloutCondition{{
					Type:   rolloutv1alpha1.RolloutConditionProgressing,
					Status: corev1.ConditionTrue,
					Reason: rolloutv1alpha1.ProgressingReasonInRolling,
				}},
				CanaryStatus: &rolloutv1alpha1.CanaryStatus{
					ObservedWorkloadGeneration: 2,
					RolloutHash:                "hash-of-the-4-step-plan",
					StableRevision:             "pod-template-hash-v1",
					CanaryRevision:             "88bd5dbfd",
					PodTemplateHash:            "pod-template-hash-v2",
					CurrentStepIndex:           3,
					NextStepIndex:              4,
					CurrentStepState:           rolloutv1alpha1.CanaryStepStatePaused,
					LastUpdateTime:             &metav1.Time{Time: metav1.Now().Time},
				},
			},
		}
	}
	oldAlpha, newAlpha := mkAlpha(4), mkAlpha(2)

	// ---------- 1. the real validating handler, v1alpha1 UPDATE, while Progressing ----------
	decoder, _ := admission.NewDecoder(scheme)
	raw := func(o interface{}) runtime.RawExtension {
		by, _ := json.Marshal(o)
		return runtime.RawExtension{Raw: by}
	}
	whClient := fake.NewClientBuilder().WithScheme(scheme).WithObjects(oldAlpha.DeepCopy()).Build()
	h := &validating.RolloutCreateUpdateHandler{Client: whClient, Decoder: decoder}
	resp := h.Handle(context.TODO(), admission.Request{AdmissionRequest: admissionv1.AdmissionRequest{
		Operation: admissionv1.Update,
		Kind:      metav1.GroupVersionKind{Group: rolloutv1alpha1.GroupVersion.Group, Version: "v1alpha1", Kind: "Rollout"},
		Name:      newAlpha.Name, Namespace: ns,
		Object: raw(newAlpha), OldObject: raw(oldAlpha),
	}})
	if !resp.Allowed {
		t.Fatalf("defect not present: v1alpha1 webhook rejected the step-count change: %v", resp.Result)
	}

	// contrast: the very same change through the v1beta1 API is rejected
	oldBeta, newBeta := &v1beta1.Rollout{}, &v1beta1.Rollout{}
	if err := oldAlpha.ConvertTo(oldBeta); err != nil {
		t.Fatal(err)
	}
	if err := newAlpha.ConvertTo(newBeta); err != nil {
		t.Fatal(err)
	}
	oldBeta.TypeMeta = metav1.TypeMeta{APIVersion: v1beta1.GroupVersion.String(), Kind: "Rollout"}
	newBeta.TypeMeta = oldBeta.TypeMeta
	whClientBeta := fake.NewClientBuilder().WithScheme(scheme).WithObjects(oldBeta.DeepCopy()).Build()
	hBeta := &validating.RolloutCreateUpdateHandler{Client: whClientBeta, Decoder: decoder}
	respBeta := hBeta.Handle(context.TODO(), admission.Request{AdmissionRequest: admissionv1.AdmissionRequest{
		Operation: admissionv1.Update,
		Kind:      metav1.GroupVersionKind{Group: v1beta1.GroupVersion.Group, Version: "v1beta1", Kind: "Rollout"},
		Name:      newBeta.Name, Namespace: ns,
		Object: raw(newBeta), OldObject: raw(oldBeta),
	}})
	if respBeta.Allowed {
		t.Fatalf("unexpected: v1beta1 webhook also accepts a step-count change while Progressing")
	}
	t.Logf("v1beta1 sibling rejects the same update: %s", respBeta.Result.Message)

	// ---------- 2. the object the apiserver now stores (hub version), fed to the real Reconcile ----------
	stored := newBeta.DeepCopy()
	stored.Finalizers = []string{util.KruiseRolloutFinalizer}

	dep1 := deploymentDemo.DeepCopy()
	dep1.Namespace = ns
	dep1.Labels[util.WorkloadTypeLabel] = "deployment"
	dep2 := deploymentDemo.DeepCopy()
	dep2.Namespace = ns
	dep2.UID = "1ca4d850-9ec3-48bd-84cb-19f2e8cf4180"
	dep2.Name = dep1.Name + "-canary"
	dep2.Labels[util.CanaryDeploymentLabel] = dep1.Name
	rs1 := rsDemo.DeepCopy()
	rs1.Namespace = ns
	rs2 := rsDemo.DeepCopy()
	rs2.Namespace = ns
	rs2.Name = "echoserver-canary-2"
	rs2.OwnerReferences = []metav1.OwnerReference{{
		APIVersion: "apps/v1", Kind: "Deployment", Name: dep2.Name,
		UID: "1ca4d850-9ec3-48bd-84cb-19f2e8cf4180", Controller: utilpointer.Bool(true),
	}}
	rs2.Labels["pod-template-hash"] = "pod-template-hash-v2"
	rs2.Spec.Template.Spec.Containers[0].Image = "echoserver:v2"

	// the BatchRelease the controller created for step 3 of the old 4-step plan
	br := batchDemo.DeepCopy()
	br.Namespace = ns
	br.Spec.ReleasePlan.Batches = []v1beta1.ReleaseBatch{
		{CanaryReplicas: intstr.FromInt(1)}, {CanaryReplicas: intstr.FromInt(2)},
		{CanaryReplicas: intstr.FromInt(6)}, {CanaryReplicas: intstr.FromInt(10)},
	}
	br.Spec.ReleasePlan.BatchPartition = utilpointer.Int32(2)

	fc := fake.NewClientBuilder().WithScheme(scheme).WithObjects(stored, dep1, dep2, rs1, rs2, br).Build()
	r := &RolloutReconciler{
		Client:                fc,
		Scheme:                scheme,
		Recorder:              record.NewFakeRecorder(100),
		finder:                util.NewControllerFinder(fc),
		trafficRoutingManager: trafficrouting.NewTrafficRoutingManager(fc),
	}
	r.canaryManager = &canaryReleaseManager{Client: fc, trafficRoutingManager: r.trafficRoutingManager, recorder: r.Recorder}
	r.blueGreenManager = &blueGreenReleaseManager{Client: fc, trafficRoutingManager: r.trafficRoutingManager, recorder: r.Recorder}

	var panicked interface{}
	func() {
		defer func() { panicked = recover() }()
		// a few rounds: the crash happens as soon as the controller notices the changed plan
		for i := 0; i < 3; i++ {
			_, err := r.Reconcile(context.TODO(), ctrl.Request{NamespacedName: types.NamespacedName{Namespace: ns, Name: stored.Name}})
			if err != nil {
				t.Logf("reconcile round %d returned error (object-level, fine): %v", i, err)
			}
		}
	}()
	if panicked == nil {
		t.Fatalf("defect not present: Reconcile survived a Rollout with 2 steps and currentStepIndex=3")
	}
	msg := fmt.Sprint(panicked)
	if !strings.Contains(msg, "index out of range") {
		t.Fatalf("Reconcile panicked, but not in the expected way: %v", panicked)
	}
	fmt.Printf("REPRODUCED C09: the validating webhook ACCEPTED a v1alpha1 update that shrinks the steps from 4 to 2 while "+
		"status.phase=Progressing (currentStepIndex=3) - the v1beta1 validator rejects the same update with %q - "+
		"and RolloutReconciler.Reconcile then crashed with an unrecovered panic: %v\n", respBeta.Result.Message, panicked)
}
