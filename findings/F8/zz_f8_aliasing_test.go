package deployment

// F8: slice aliasing between oldRSs and allRSs in reconcileOldReplicaSets /
// scaleDownOldReplicaSetsForRollingUpdate.
//
// The test drives the REAL controller through dc.syncDeployment (-> rolloutRolling ->
// reconcileOldReplicaSets -> scaleDownOldReplicaSetsForRollingUpdate) with a fake
// clientset and informer-indexer backed listers, records every ReplicaSet Update and
// checks the property:
//
//   P1  the controller never scales DOWN the new ReplicaSet while rolling
//   P2  the old ReplicaSets are never shrunk below what the partition reserves:
//       sum(old.replicas) >= deployment.replicas - max(partitionLimit, newRS.replicas)

import (
	"context"
	"fmt"
	"strconv"
	"strings"
	"testing"
	"time"

	apps "k8s.io/api/apps/v1"
	metav1 "k8s.io/apimachinery/pkg/apis/meta/v1"
	"k8s.io/apimachinery/pkg/runtime"
	intstrutil "k8s.io/apimachinery/pkg/util/intstr"
	"k8s.io/client-go/informers"
	"k8s.io/client-go/kubernetes/fake"
	appslisters "k8s.io/client-go/listers/apps/v1"
	clienttesting "k8s.io/client-go/testing"
	"k8s.io/client-go/tools/record"
	"k8s.io/utils/pointer"

	rolloutsv1alpha1 "github.com/openkruise/rollouts/api/v1alpha1"
	"github.com/openkruise/rollouts/pkg/controller/deployment/util"
)

type f8RS struct {
	name     string
	ageHours int // creation timestamp = base + ageHours (smaller = older)
	revision int
	replicas int32
	isNew    bool // pod template equals the deployment's template
}

type f8Write struct {
	name     string
	from, to int32
}

func (w f8Write) String() string { return fmt.Sprintf("%s: %d -> %d", w.name, w.from, w.to) }

func TestF8Aliasing(t *testing.T) {
	const (
		dReplicas      = int32(10)
		partition      = 4 // new RS limit
		maxSurge       = 2
		maxUnavailable = 2
	)

	tests := []struct {
		name string
		rss  []f8RS
		// expected writes of a correct controller (informational; the hard assertion is P1/P2)
		wantWrites []string
	}{
		{
			// Deployment re-pointed (rolled back) to its ORIGINAL template: the matching RS rs-a is the
			// oldest RS, gets the highest revision, and is the new RS. It is already at the partition
			// limit (4). Three active old RSs hold 8 = 6 reserved + 2 surplus (surge) pods.
			name: "rollback_newRS_is_oldest_3_old",
			rss: []f8RS{
				{name: "rs-a", ageHours: 0, revision: 5, replicas: 4, isNew: true},
				{name: "rs-b", ageHours: 1, revision: 2, replicas: 3},
				{name: "rs-c", ageHours: 2, revision: 3, replicas: 3},
				{name: "rs-d", ageHours: 3, revision: 4, replicas: 2},
			},
			wantWrites: []string{"rs-d: 2 -> 0"},
		},
		{
			// Same, but rolled back to the SECOND oldest template.
			name: "rollback_newRS_is_second_oldest_3_old",
			rss: []f8RS{
				{name: "rs-a", ageHours: 0, revision: 1, replicas: 3},
				{name: "rs-b", ageHours: 1, revision: 5, replicas: 4, isNew: true},
				{name: "rs-c", ageHours: 2, revision: 3, replicas: 3},
				{name: "rs-d", ageHours: 3, revision: 4, replicas: 2},
			},
			wantWrites: []string{"rs-d: 2 -> 0"},
		},
		{
			// CONTROL: normal forward rollout, new RS is the youngest. Same numbers.
			name: "control_forward_newRS_is_youngest_3_old",
			rss: []f8RS{
				{name: "rs-a", ageHours: 0, revision: 1, replicas: 3},
				{name: "rs-b", ageHours: 1, revision: 2, replicas: 3},
				{name: "rs-c", ageHours: 2, revision: 3, replicas: 2},
				{name: "rs-d", ageHours: 3, revision: 4, replicas: 4, isNew: true},
			},
			wantWrites: []string{"rs-c: 2 -> 0"},
		},
		{
			// CONTRAST: rollback to the oldest template, but only TWO active old RSs:
			// FilterActiveReplicaSets returns len 2 / cap 2, append must reallocate, no aliasing.
			name: "contrast_rollback_newRS_is_oldest_2_old",
			rss: []f8RS{
				{name: "rs-a", ageHours: 0, revision: 4, replicas: 4, isNew: true},
				{name: "rs-b", ageHours: 1, revision: 2, replicas: 4},
				{name: "rs-c", ageHours: 2, revision: 3, replicas: 4},
			},
			wantWrites: []string{"rs-c: 4 -> 2"},
		},
	}

	for _, test := range tests {
		test := test
		t.Run(test.name, func(t *testing.T) {
			fakeClient := fake.NewSimpleClientset()
			fakeRecord := record.NewFakeRecorder(100)
			inf := informers.NewSharedInformerFactory(fakeClient, 0)
			rsInformer := inf.Apps().V1().ReplicaSets().Informer()
			dInformer := inf.Apps().V1().Deployments().Informer()

			base := time.Date(2024, 1, 1, 0, 0, 0, 0, time.UTC)

			deployment := generateDeployment("busybox")
			deployment.Spec.Replicas = pointer.Int32(dReplicas)

			var newName string
			var newRevision int
			current := map[string]int32{} // live view of spec.replicas as written by the controller
			total := int32(0)
			var oldPtrs []*apps.ReplicaSet
			for _, s := range test.rss {
				if s.isNew {
					newName, newRevision = s.name, s.revision
				}
				total += s.replicas
			}
			// deployment already carries the new RS's revision, so no revision bookkeeping write is needed
			deployment.Annotations[util.RevisionAnnotation] = strconv.Itoa(newRevision)
			deployment.Status.Replicas = total
			deployment.Status.AvailableReplicas = total
			deployment.Status.ReadyReplicas = total
			dInformer.GetIndexer().Add(&deployment)
			if _, err := fakeClient.AppsV1().Deployments(deployment.Namespace).Create(context.TODO(), &deployment, metav1.CreateOptions{}); err != nil {
				t.Fatalf("unexpected error: %v", err)
			}

			for _, s := range test.rss {
				rs := generateRS(deployment)
				rs.SetName(s.name)
				rs.CreationTimestamp = metav1.NewTime(base.Add(time.Duration(s.ageHours) * time.Hour))
				rs.Spec.Replicas = pointer.Int32(s.replicas)
				// every pod is ready+available: cleanupUnhealthyReplicas must not change anything
				rs.Status.Replicas = s.replicas
				rs.Status.ReadyReplicas = s.replicas
				rs.Status.AvailableReplicas = s.replicas
				// steady-state annotations: not a scaling event, no annotation-only writes
				rs.Annotations = map[string]string{
					util.RevisionAnnotation:    strconv.Itoa(s.revision),
					util.ReplicasAnnotation:    strconv.Itoa(int(dReplicas)),
					util.MaxReplicasAnnotation: strconv.Itoa(int(dReplicas) + maxSurge),
				}
				if !s.isNew {
					rs.Spec.Template.Spec.Containers[0].Image = "old-" + s.name
					oldPtrs = append(oldPtrs, &rs)
				}
				current[s.name] = s.replicas
				rsInformer.GetIndexer().Add(&rs)
				if _, err := fakeClient.AppsV1().ReplicaSets(rs.Namespace).Create(context.TODO(), &rs, metav1.CreateOptions{}); err != nil {
					t.Fatalf("unexpected error: %v", err)
				}
			}

			// Show the precondition of the hypothesis on the real helper.
			act := util.FilterActiveReplicaSets(oldPtrs)
			t.Logf("FilterActiveReplicaSets(old): len=%d cap=%d (spare capacity: %v)", len(act), cap(act), cap(act) > len(act))

			// Record every ReplicaSet update issued by the controller.
			var writes []f8Write
			var violations []string
			partitionLimit := util.NewRSReplicasLimit(intstrutil.FromInt(partition), &deployment)
			fakeClient.PrependReactor("update", "replicasets", func(action clienttesting.Action) (bool, runtime.Object, error) {
				rs := action.(clienttesting.UpdateAction).GetObject().(*apps.ReplicaSet)
				w := f8Write{name: rs.Name, from: current[rs.Name], to: *rs.Spec.Replicas}
				writes = append(writes, w)
				current[rs.Name] = w.to
				// P1
				if rs.Name == newName && w.to < w.from {
					violations = append(violations, fmt.Sprintf("P1 violated: NEW ReplicaSet scaled down (%s)", w))
				}
				// P2
				if rs.Name != newName && w.to < w.from {
					oldSum := int32(0)
					for n, r := range current {
						if n != newName {
							oldSum += r
						}
					}
					reserved := dReplicas - maxInt32(partitionLimit, current[newName])
					if oldSum < reserved {
						violations = append(violations, fmt.Sprintf("P2 violated: after (%s) old ReplicaSets hold %d < %d reserved by partition", w, oldSum, reserved))
					}
				}
				return false, nil, nil // fall through to the object tracker
			})

			ms, mu := intstrutil.FromInt(maxSurge), intstrutil.FromInt(maxUnavailable)
			dc := &DeploymentController{
				client:        fakeClient,
				eventRecorder: fakeRecord,
				dLister:       appslisters.NewDeploymentLister(dInformer.GetIndexer()),
				rsLister:      appslisters.NewReplicaSetLister(rsInformer.GetIndexer()),
				strategy: rolloutsv1alpha1.DeploymentStrategy{
					RollingUpdate: &apps.RollingUpdateDeployment{MaxSurge: &ms, MaxUnavailable: &mu},
					Partition:     intstrutil.FromInt(partition),
				},
			}

			if err := dc.syncDeployment(context.TODO(), &deployment); err != nil {
				t.Fatalf("syncDeployment: unexpected error: %v", err)
			}

			var got []string
			for _, w := range writes {
				got = append(got, w.String())
			}
			close(fakeRecord.Events)
			for ev := range fakeRecord.Events {
				t.Logf("event: %s", ev)
			}
			t.Logf("new RS = %s; ReplicaSet writes observed: [%s]; writes of a correct controller: [%s]",
				newName, strings.Join(got, "; "), strings.Join(test.wantWrites, "; "))
			final := []string{}
			for _, s := range test.rss {
				final = append(final, fmt.Sprintf("%s=%d", s.name, current[s.name]))
			}
			t.Logf("final spec.replicas: %s", strings.Join(final, " "))

			if len(writes) == 0 {
				t.Errorf("scale-down path not reached: no ReplicaSet write at all")
			}
			for _, v := range violations {
				t.Errorf("%s", v)
			}
			if strings.Join(got, "; ") != strings.Join(test.wantWrites, "; ") {
				// informational for the controls (ordering of old RSs), fatal only together with P1/P2
				t.Logf("NOTE: writes differ from the expected ones")
			}
		})
	}
}

func maxInt32(a, b int32) int32 {
	if a > b {
		return a
	}
	return b
}
