// dest: pkg/controller/batchrelease/zz_audit_C11_3_test.go
package batchrelease

import (
	"context"
	"encoding/json"
	"fmt"
	"testing"

	kruiseappsv1alpha1 "github.com/openkruise/kruise-api/apps/v1alpha1"
	"github.com/openkruise/rollouts/api/v1beta1"
	"github.com/openkruise/rollouts/pkg/util"
	corev1 "k8s.io/api/core/v1"
	metav1 "k8s.io/apimachinery/pkg/apis/meta/v1"
	"k8s.io/apimachinery/pkg/types"
	"k8s.io/apimachinery/pkg/util/intstr"
	"k8s.io/client-go/tools/record"
	"k8s.io/utils/pointer"
	"sigs.k8s.io/controller-runtime/pkg/client"
	"sigs.k8s.io/controller-runtime/pkg/client/fake"
	"sigs.k8s.io/controller-runtime/pkg/reconcile"
)

// C11: "it never works on a batch beyond its batchPartition" ... "if the plan changes, the state falls back"
// quantified over "every plan, threshold and partition".
//
// spec.releasePlan.batchPartition is a plain int32 (no minimum in the CRD, no BatchRelease webhook).
// When the partition of a Progressing release is changed to a negative value, signalRecalculate() only
// clamps the UPPER bound: currentBatch = min(batchPartition, len(batches)-1) = -1. That value is persisted in
// status.canaryStatus.currentBatch (isPlanUnhealthy only checks the upper bound as well), and the next
// Reconcile indexes releasePlan.batches[-1] in CalculateBatchContext -> panic inside Reconcile, which is not
// recovered: the controller process crashes and crash-loops because the bad status is already stored.
func TestAuditC11_3_NegativeBatchPartitionGivesNegativeCurrentBatchAndPanics(t *testing.T) {
	release := &v1beta1.BatchRelease{
		TypeMeta: metav1.TypeMeta{APIVersion: v1beta1.GroupVersion.String(), Kind: "BatchRelease"},
		ObjectMeta: metav1.ObjectMeta{
			Name: "release", Namespace: "application", UID: types.UID("audit-c11-3"),
			Finalizers: []string{ReleaseFinalizer},
		},
		Spec: v1beta1.BatchReleaseSpec{
			WorkloadRef: v1beta1.ObjectRef{APIVersion: "apps.kruise.io/v1alpha1", Kind: "CloneSet", Name: "sample"},
			ReleasePlan: v1beta1.ReleasePlan{
				RollingStyle:   v1beta1.PartitionRollingStyle,
				BatchPartition: pointer.Int32(1),
				Batches: []v1beta1.ReleaseBatch{
					{CanaryReplicas: intstr.FromString("10%")},
					{CanaryReplicas: intstr.FromString("50%")},
					{CanaryReplicas: intstr.FromString("100%")},
				},
			},
		},
	}
	// a healthy release: batch 1 (50%) is Ready
	release.Status.Phase = v1beta1.RolloutPhaseProgressing
	release.Status.ObservedReleasePlanHash = util.HashReleasePlanBatches(&release.Spec.ReleasePlan)
	release.Status.ObservedWorkloadReplicas = 100
	release.Status.StableRevision = "rev-v1"
	release.Status.UpdateRevision = "rev-v2"
	release.Status.CanaryStatus.CurrentBatch = 1
	release.Status.CanaryStatus.CurrentBatchState = v1beta1.ReadyBatchState
	release.Status.CanaryStatus.UpdatedReplicas = 50
	release.Status.CanaryStatus.UpdatedReadyReplicas = 50

	controlInfo, _ := json.Marshal(metav1.NewControllerRef(release, release.GroupVersionKind()))
	clone := &kruiseappsv1alpha1.CloneSet{
		TypeMeta: metav1.TypeMeta{APIVersion: kruiseappsv1alpha1.SchemeGroupVersion.String(), Kind: "CloneSet"},
		ObjectMeta: metav1.ObjectMeta{
			Name: "sample", Namespace: "application", UID: types.UID("audit-c11-3-c"), Generation: 3,
			Labels:      map[string]string{"app": "busybox"},
			Annotations: map[string]string{util.BatchReleaseControlAnnotation: string(controlInfo)},
		},
		Spec: kruiseappsv1alpha1.CloneSetSpec{
			Replicas: pointer.Int32(100),
			UpdateStrategy: kruiseappsv1alpha1.CloneSetUpdateStrategy{
				Partition: &intstr.IntOrString{Type: intstr.String, StrVal: "50%"},
			},
			Selector: &metav1.LabelSelector{MatchLabels: map[string]string{"app": "busybox"}},
			Template: corev1.PodTemplateSpec{
				ObjectMeta: metav1.ObjectMeta{Labels: map[string]string{"app": "busybox"}},
				Spec:       corev1.PodSpec{Containers: containers("v2")},
			},
		},
		Status: kruiseappsv1alpha1.CloneSetStatus{
			ObservedGeneration: 3, Replicas: 100, ReadyReplicas: 100, UpdatedReplicas: 50, UpdatedReadyReplicas: 50,
			CurrentRevision: "rev-v1", UpdateRevision: "rev-v2",
		},
	}

	rec := record.NewFakeRecorder(100)
	cli := fake.NewClientBuilder().WithScheme(scheme).WithObjects(release, clone).Build()
	reconciler := &BatchReleaseReconciler{Client: cli, recorder: rec, Scheme: scheme, executor: NewReleasePlanExecutor(cli, rec)}
	key := client.ObjectKeyFromObject(release)

	// sanity: the release is healthy and stays Ready at batch 1
	if _, err := reconciler.Reconcile(context.TODO(), reconcile.Request{NamespacedName: key}); err != nil {
		t.Fatalf("sanity reconcile: %v", err)
	}
	br := &v1beta1.BatchRelease{}
	if err := cli.Get(context.TODO(), key, br); err != nil {
		t.Fatal(err)
	}
	if br.Status.CanaryStatus.CurrentBatch != 1 || br.Status.CanaryStatus.CurrentBatchState != v1beta1.ReadyBatchState {
		t.Fatalf("sanity: expected batch 1 Ready, got %d %s", br.Status.CanaryStatus.CurrentBatch, br.Status.CanaryStatus.CurrentBatchState)
	}

	// the plan changes: somebody sets batchPartition to -1 (accepted by the API: no minimum, no webhook)
	br.Spec.ReleasePlan.BatchPartition = pointer.Int32(-1)
	if err := cli.Update(context.TODO(), br); err != nil {
		t.Fatal(err)
	}

	// reconcile #1: plan change is observed
	if _, err := reconciler.Reconcile(context.TODO(), reconcile.Request{NamespacedName: key}); err != nil {
		t.Logf("reconcile #1 err: %v", err)
	}
	if err := cli.Get(context.TODO(), key, br); err != nil {
		t.Fatal(err)
	}
	t.Logf("after plan change: phase=%s currentBatch=%d state=%s", br.Status.Phase, br.Status.CanaryStatus.CurrentBatch, br.Status.CanaryStatus.CurrentBatchState)
	if br.Status.CanaryStatus.CurrentBatch >= 0 {
		t.Fatalf("not reproduced: currentBatch=%d", br.Status.CanaryStatus.CurrentBatch)
	}
	fmt.Printf("REPRODUCED C11 (status does not mean what it says): after batchPartition was changed to -1 the BatchRelease persisted status.canaryStatus.currentBatch=%d (phase=%s, state=%s) - a batch that does not exist\n",
		br.Status.CanaryStatus.CurrentBatch, br.Status.Phase, br.Status.CanaryStatus.CurrentBatchState)

	// reconcile #2: works on batch -1
	var recovered interface{}
	func() {
		defer func() { recovered = recover() }()
		_, _ = reconciler.Reconcile(context.TODO(), reconcile.Request{NamespacedName: key})
	}()
	if recovered == nil {
		t.Fatalf("not reproduced: second reconcile did not panic")
	}
	fmt.Printf("REPRODUCED C11 (controller crash): the next Reconcile of that BatchRelease panics inside Reconcile (not recovered by controller-runtime, "+
		"and the bad status is already persisted so it crash-loops): %v\n", recovered)
}
