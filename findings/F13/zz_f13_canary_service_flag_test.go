package v1alpha1

// Reproduction of finding F13 (property C20): spec.strategy.canary.disableGenerateCanaryService exists in both API
// versions but neither Rollout.ConvertTo nor Rollout.ConvertFrom carries it. A Rollout written through v1alpha1 with the
// flag set is stored without it (the controller then generates the canary Service the user switched off), and a
// v1beta1 Rollout with the flag set loses it on a read-modify-write through v1alpha1.
import (
	"fmt"
	"testing"

	"github.com/openkruise/rollouts/api/v1beta1"
)

func TestF13DisableGenerateCanaryServiceLostInConversion(t *testing.T) {
	w := int32(20)
	src := &Rollout{Spec: RolloutSpec{
		ObjectRef: ObjectRef{WorkloadRef: &WorkloadRef{APIVersion: "apps/v1", Kind: "Deployment", Name: "web"}},
		Strategy: RolloutStrategy{Canary: &CanaryStrategy{
			Steps:                        []CanaryStep{{TrafficRoutingStrategy: TrafficRoutingStrategy{Weight: &w}}},
			DisableGenerateCanaryService: true,
		}},
	}}
	hub := &v1beta1.Rollout{}
	if err := src.ConvertTo(hub); err != nil {
		t.Fatal(err)
	}
	lostTo := !hub.Spec.Strategy.Canary.DisableGenerateCanaryService

	stored := &v1beta1.Rollout{Spec: v1beta1.RolloutSpec{
		WorkloadRef: v1beta1.ObjectRef{APIVersion: "apps/v1", Kind: "Deployment", Name: "web"},
		Strategy: v1beta1.RolloutStrategy{Canary: &v1beta1.CanaryStrategy{
			Steps:                        []v1beta1.CanaryStep{{TrafficRoutingStrategy: v1beta1.TrafficRoutingStrategy{Traffic: func() *string { s := "20%"; return &s }()}}},
			DisableGenerateCanaryService: true,
		}},
	}}
	read := &Rollout{}
	if err := read.ConvertFrom(stored); err != nil {
		t.Fatal(err)
	}
	lostFrom := !read.Spec.Strategy.Canary.DisableGenerateCanaryService
	if !lostTo && !lostFrom {
		t.Fatalf("flag survives both conversions")
	}
	fmt.Printf("REPRODUCED disableGenerateCanaryService=true: after ConvertTo the stored v1beta1 object has %v, after ConvertFrom the v1alpha1 view has %v\n",
		hub.Spec.Strategy.Canary.DisableGenerateCanaryService, read.Spec.Strategy.Canary.DisableGenerateCanaryService)
}
