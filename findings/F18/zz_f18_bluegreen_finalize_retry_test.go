// dest: pkg/controller/batchrelease/zz_audit_C11_1_test.go
package batchrelease

import (
	"context"
	"encoding/json"
	"fmt"
	"testing"

	"github.com/openkruise/rollouts/api/v1beta1"
	"github.com/openkruise/rollouts/pkg/util"
	apps "k8s.io/api/apps/v1"
	corev1 "k8s.io/api/core/v1"
	metav1 "k8s.io/apimachinery/pkg/apis/meta/v1"
	"k8s.io/apimachinery/pkg/types"
	"k8s.io/apimachinery/pkg/util/intstr"
	"k8s.io/client-go/tools/record"
	"k8s.io/utils/pointer"
	"sigs.k8s.io/controller-runtime/pkg/client"
	"sigs.k8s.io/controller-runtime/pkg/client/fake"
	"sigs.k8s.io/controller-runtime/pkg/reconcile"
)

// C11: "reports Completed only after the workload has been released from control and every pod
// is updated and ready, on every attempt including retries".
//
// Blue-green Deployment: the first Finalize attempt restores the strategy / removes the annotations and
// then (correctly) refuses to complete because old pods still exist. The SECOND attempt sees the
// annotations already gone (restored()==true), skips the patch, and therefore calls
// waitAllUpdatedAndReady on an EMPTY Deployment object (only name/namespace set) - all-zero status
// trivially passes - and the BatchRelease becomes Completed although nothing changed in the workload.
func TestAuditC11_1_BlueGreenDeploymentFinalizeRetryCompletesWithoutWaiting(t *testing.T) {
	release := &v1beta1.BatchRelease{
		TypeMeta: metav1.TypeMeta{APIVersion: v1beta1.GroupVersion.String(), Kind: "BatchRelease"},
		ObjectMeta: metav1.ObjectMeta{
			Name: "release", Namespace: "application", UID: types.UID("audit-c11-1"),
			Finalizers: []string{ReleaseFinalizer},
		},
		Spec: v1beta1.BatchReleaseSpec{
			WorkloadRef: v1beta1.ObjectRef{APIVersion: "apps/v1", Kind: "Deployment", Name: "sample"},
			ReleasePlan: v1beta1.ReleasePlan{
				RollingStyle:   v1beta1.BlueGreenRollingStyle,
				BatchPartition: nil, // rollout finished: finalize and promote
				Batches: []v1beta1.ReleaseBatch{
					{CanaryReplicas: intstr.FromString("50%")},
					{CanaryReplicas: intstr.FromString("100%")},
				},
			},
		},
	}
	release.Status.Phase = v1beta1.RolloutPhaseFinalizing
	release.Status.ObservedReleasePlanHash = util.HashReleasePlanBatches(&release.Spec.ReleasePlan)
	release.Status.ObservedWorkloadReplicas = 10
	release.Status.CanaryStatus.CurrentBatch = 1
	release.Status.CanaryStatus.CurrentBatchState = v1beta1.ReadyBatchState

	controlInfo, _ := json.Marshal(metav1.NewControllerRef(release, release.GroupVersionKind()))
	// the Deployment in the middle of a blue-green release, last batch (maxSurge=100%) done:
	// 10 old pods + 10 new pods.
	deploy := &apps.Deployment{
		TypeMeta: metav1.TypeMeta{APIVersion: "apps/v1", Kind: "Deployment"},
		ObjectMeta: metav1.ObjectMeta{
			Name: "sample", Namespace: "application", UID: types.UID("audit-c11-1-d"), Generation: 5,
			Labels: map[string]string{"app": "busybox"},
			Annotations: map[string]string{
				util.BatchReleaseControlAnnotation:           string(controlInfo),
				v1beta1.OriginalDeploymentStrategyAnnotation: `{"maxUnavailable":"25%","maxSurge":"25%","minReadySeconds":0,"progressDeadlineSeconds":600}`,
			},
		},
		Spec: apps.DeploymentSpec{
			Replicas:                pointer.Int32(10),
			MinReadySeconds:         v1beta1.MaxReadySeconds,
			ProgressDeadlineSeconds: pointer.Int32(v1beta1.MaxProgressSeconds),
			Strategy: apps.DeploymentStrategy{
				Type: apps.RollingUpdateDeploymentStrategyType,
				RollingUpdate: &apps.RollingUpdateDeployment{
					MaxSurge:       &intstr.IntOrString{Type: intstr.String, StrVal: "100%"},
					MaxUnavailable: &intstr.IntOrString{Type: intstr.Int, IntVal: 0},
				},
			},
			Selector: &metav1.LabelSelector{MatchLabels: map[string]string{"app": "busybox"}},
			Template: corev1.PodTemplateSpec{
				ObjectMeta: metav1.ObjectMeta{Labels: map[string]string{"app": "busybox"}},
				Spec:       corev1.PodSpec{Containers: containers("v2")},
			},
		},
		Status: apps.DeploymentStatus{
			ObservedGeneration: 5,
			Replicas:           20, // 10 old + 10 new
			UpdatedReplicas:    10,
			ReadyReplicas:      20,
			AvailableReplicas:  10,
		},
	}

	rec := record.NewFakeRecorder(100)
	cli := fake.NewClientBuilder().WithScheme(scheme).WithObjects(release, deploy).Build()
	reconciler := &BatchReleaseReconciler{Client: cli, recorder: rec, Scheme: scheme, executor: NewReleasePlanExecutor(cli, rec)}
	key := client.ObjectKeyFromObject(release)

	phaseOf := func() v1beta1.RolloutPhase {
		br := &v1beta1.BatchRelease{}
		if err := cli.Get(context.TODO(), key, br); err != nil {
			t.Fatalf("get release: %v", err)
		}
		return br.Status.Phase
	}
	statusOf := func() apps.DeploymentStatus {
		d := &apps.Deployment{}
		if err := cli.Get(context.TODO(), client.ObjectKeyFromObject(deploy), d); err != nil {
			t.Fatalf("get deployment: %v", err)
		}
		return d.Status
	}

	// attempt 1: must NOT complete - there are 20 pods, only 10 updated.
	// (the very first reconcile may only persist refreshed status fields; reconcile until Finalize really ran,
	// i.e. until the workload's control annotation has been removed by the first Finalize attempt)
	var err1 error
	for i := 0; i < 3; i++ {
		_, err1 = reconciler.Reconcile(context.TODO(), reconcile.Request{NamespacedName: key})
		d := &apps.Deployment{}
		if err := cli.Get(context.TODO(), client.ObjectKeyFromObject(deploy), d); err != nil {
			t.Fatalf("get deployment: %v", err)
		}
		if d.Annotations[util.BatchReleaseControlAnnotation] == "" {
			break
		}
	}
	if p := phaseOf(); p != v1beta1.RolloutPhaseFinalizing || err1 == nil {
		t.Fatalf("unexpected: after first Finalize attempt phase=%s err=%v (expected it to keep waiting)", p, err1)
	}
	t.Logf("attempt 1: phase=%s, err=%v (correctly waiting)", phaseOf(), err1)

	// Nothing happens to the workload between the attempts (no deployment controller in this test):
	// status is still 20 pods / 10 updated.
	before := statusOf()

	// attempt 2 (the retry)
	_, err2 := reconciler.Reconcile(context.TODO(), reconcile.Request{NamespacedName: key})
	after := statusOf()
	p := phaseOf()
	t.Logf("attempt 2: phase=%s, err=%v, workload status=%+v", p, err2, after)

	if before.Replicas != after.Replicas || before.UpdatedReplicas != after.UpdatedReplicas {
		t.Fatalf("test premise broken: workload status changed between attempts")
	}
	if p == v1beta1.RolloutPhaseCompleted && after.UpdatedReplicas != after.Replicas {
		fmt.Printf("REPRODUCED C11 (Completed without waiting on retry): blue-green Deployment BatchRelease reported phase=Completed on the 2nd Finalize attempt "+
			"while the workload still has status.replicas=%d, updatedReplicas=%d, readyReplicas=%d (identical to the status for which the 1st attempt refused to complete); "+
			"the retry waits on an empty Deployment object\n", after.Replicas, after.UpdatedReplicas, after.ReadyReplicas)
		return
	}
	t.Fatalf("not reproduced: phase=%s status=%+v", p, after)
}
