package rollout

// Reproduction of finding F1 (property C09): status.canaryStatus.nextStepIndex is a documented user-editable field
// (step jump). A value larger than the number of steps must be corrected or rejected, not crash the controller.
// Place in pkg/controller/rollout/ and run: go test -vet=off -count=1 -run TestF1 ./pkg/controller/rollout/

import (
	"context"
	"fmt"
	"testing"

	"github.com/openkruise/rollouts/api/v1alpha1"
	"github.com/openkruise/rollouts/api/v1beta1"
	"github.com/openkruise/rollouts/pkg/trafficrouting"
	"github.com/openkruise/rollouts/pkg/util"
	metav1 "k8s.io/apimachinery/pkg/apis/meta/v1"
	"k8s.io/client-go/tools/record"
	utilpointer "k8s.io/utils/pointer"
	"sigs.k8s.io/controller-runtime/pkg/client/fake"
)

func TestF1NextStepIndexOutOfRange(t *testing.T) {
	for _, next := range []int32{5, 100} {
		t.Run(fmt.Sprintf("nextStepIndex=%d", next), func(t *testing.T) {
			dep1 := deploymentDemo.DeepCopy()
			dep2 := deploymentDemo.DeepCopy()
			dep2.UID = "1ca4d850-9ec3-48bd-84cb-19f2e8cf4180"
			dep2.Name = dep1.Name + "-canary"
			dep2.Labels[util.CanaryDeploymentLabel] = dep1.Name
			rs1 := rsDemo.DeepCopy()
			rs2 := rsDemo.DeepCopy()
			rs2.Name = "echoserver-canary-2"
			rs2.OwnerReferences = []metav1.OwnerReference{{APIVersion: "apps/v1", Kind: "Deployment", Name: dep2.Name,
				UID: "1ca4d850-9ec3-48bd-84cb-19f2e8cf4180", Controller: utilpointer.Bool(true)}}
			rs2.Labels["pod-template-hash"] = "pod-template-hash-v2"
			rs2.Spec.Template.Spec.Containers[0].Image = "echoserver:v2"
			rollout := rolloutDemo.DeepCopy()
			rollout.Status.CanaryStatus.ObservedWorkloadGeneration = 2
			rollout.Status.CanaryStatus.RolloutHash = "f55bvd874d5f2fzvw46bv966x4bwbdv4wx6bd9f7b46ww788954b8z8w29b7wxfd"
			rollout.Status.CanaryStatus.StableRevision = "pod-template-hash-v1"
			rollout.Status.CanaryStatus.CanaryRevision = "88bd5dbfd"
			rollout.Status.CanaryStatus.CurrentStepIndex = 1
			rollout.Status.CanaryStatus.CurrentStepState = v1beta1.CanaryStepStateUpgrade
			// the user patches the next-step index (the documented way to jump), with a value beyond the plan
			rollout.Status.CanaryStatus.NextStepIndex = next
			cond := util.GetRolloutCondition(rollout.Status, v1beta1.RolloutConditionProgressing)
			cond.Reason = v1alpha1.ProgressingReasonInRolling
			util.SetRolloutCondition(&rollout.Status, *cond)
			if n := int32(len(rollout.Spec.Strategy.Canary.Steps)); next <= n {
				t.Fatalf("test needs nextStepIndex > number of steps (%d)", n)
			}

			fc := fake.NewClientBuilder().WithScheme(scheme).WithObjects(rollout, demoConf.DeepCopy()).Build()
			_ = fc.Create(context.TODO(), rs1)
			_ = fc.Create(context.TODO(), rs2)
			_ = fc.Create(context.TODO(), dep1)
			_ = fc.Create(context.TODO(), dep2)
			_ = fc.Create(context.TODO(), demoService.DeepCopy())
			_ = fc.Create(context.TODO(), demoIngress.DeepCopy())
			r := &RolloutReconciler{Client: fc, Scheme: scheme, Recorder: record.NewFakeRecorder(10),
				finder: util.NewControllerFinder(fc), trafficRoutingManager: trafficrouting.NewTrafficRoutingManager(fc)}
			r.canaryManager = &canaryReleaseManager{Client: fc, trafficRoutingManager: r.trafficRoutingManager, recorder: r.Recorder}
			newStatus := rollout.Status.DeepCopy()
			defer func() {
				if p := recover(); p != nil {
					t.Fatalf("C09 violated: the controller crashed on a user-patched nextStepIndex=%d (plan has %d steps): %v", next, len(rollout.Spec.Strategy.Canary.Steps), p)
				}
			}()
			if _, err := r.reconcileRolloutProgressing(rollout, newStatus); err != nil {
				t.Logf("reconcile returned an error (acceptable: surfaced on this object): %v", err)
			}
			if got := newStatus.CanaryStatus.NextStepIndex; got > int32(len(rollout.Spec.Strategy.Canary.Steps)) {
				t.Fatalf("the invalid nextStepIndex %d was neither corrected nor rejected", got)
			}
		})
	}
}
