package hpa

// Reproduction of finding F12 (property C09): findHPA reads every HorizontalPodAutoscaler of the workload's namespace
// untyped and asserts spec.scaleTargetRef.apiVersion to be a string. The field is optional in the autoscaling API
// (CrossVersionObjectReference.apiVersion is `omitempty`; only kind and name are validated), so an HPA stored without
// it has no "apiVersion" key and the assertion panics - one such HPA anywhere in the namespace crashes the
// BatchRelease controller as soon as a blue-green release of any Deployment in that namespace disables its HPA.
import (
	"context"
	"fmt"
	"testing"

	"k8s.io/apimachinery/pkg/apis/meta/v1/unstructured"
	"k8s.io/apimachinery/pkg/runtime"
	"k8s.io/apimachinery/pkg/runtime/schema"
	"sigs.k8s.io/controller-runtime/pkg/client/fake"
)

func TestF12HPAWithoutAPIVersionPanics(t *testing.T) {
	object := &unstructured.Unstructured{}
	object.SetGroupVersionKind(schema.GroupVersionKind{Group: "apps", Version: "v1", Kind: "Deployment"})
	object.SetNamespace("default")
	object.SetName("my-deployment")

	// somebody else's HPA in the same namespace, scaling a ReplicationController; apiVersion left out (legal)
	other := &unstructured.Unstructured{}
	other.SetGroupVersionKind(schema.GroupVersionKind{Group: "autoscaling", Version: "v2", Kind: "HorizontalPodAutoscaler"})
	other.SetNamespace("default")
	other.SetName("unrelated-hpa")
	_ = unstructured.SetNestedField(other.Object, map[string]interface{}{"kind": "ReplicationController", "name": "legacy"}, "spec", "scaleTargetRef")

	cli := fake.NewClientBuilder().WithScheme(runtime.NewScheme()).WithObjects(object).Build()
	if err := cli.Create(context.TODO(), other); err != nil {
		t.Fatal(err)
	}
	msg := func() (m string) {
		defer func() {
			if x := recover(); x != nil {
				m = fmt.Sprint(x)
			}
		}()
		_ = DisableHPA(cli, object)
		return ""
	}()
	if msg == "" {
		t.Fatalf("no panic")
	}
	fmt.Printf("REPRODUCED HPA without scaleTargetRef.apiVersion: panic: %s\n", msg)
}
