// dest: api/v1alpha1/zz_audit_C20_4_test.go
package v1alpha1

// Audit C20, finding 4: the status cursor that v1beta1 keeps at the top of the status
// (status.currentStepIndex / status.currentStepState - `required` in the v1beta1 CRD,
// the source of the CANARY_STEP / CANARY_STATE printer columns, kept equal to
// status.canaryStatus.currentStepIndex/State by updateRolloutStatusInternal) is not
// written by Rollout.ConvertTo. Every object that reaches storage through v1alpha1 -
// a v1alpha1 status write, or a read-modify-write of a v1beta1 object through
// v1alpha1 - is stored with cursor 0 / "" next to a canaryStatus that says otherwise.

import (
	"encoding/json"
	"fmt"
	"testing"

	"github.com/openkruise/rollouts/api/v1beta1"
	"k8s.io/apimachinery/pkg/util/intstr"
)

func TestAuditC20_4_StatusCursorLostOnReadModifyWriteThroughV1alpha1(t *testing.T) {
	replicas := intstr.FromString("20%")
	stored := &v1beta1.Rollout{}
	stored.Name, stored.Namespace = "demo", "default"
	stored.Spec.WorkloadRef = v1beta1.ObjectRef{APIVersion: "apps/v1", Kind: "Deployment", Name: "demo"}
	stored.Spec.Strategy.Canary = &v1beta1.CanaryStrategy{
		Steps: []v1beta1.CanaryStep{{Replicas: &replicas}, {Replicas: &replicas}, {Replicas: &replicas}},
	}
	stored.Status = v1beta1.RolloutStatus{
		Phase:            v1beta1.RolloutPhaseProgressing,
		CurrentStepIndex: 2,
		CurrentStepState: v1beta1.CanaryStepStatePaused,
		CanaryStatus: &v1beta1.CanaryStatus{
			CommonStatus: v1beta1.CommonStatus{
				CurrentStepIndex: 2,
				NextStepIndex:    3,
				CurrentStepState: v1beta1.CanaryStepStatePaused,
			},
			CanaryRevision: "abc",
		},
	}

	// read through v1alpha1
	view := &Rollout{}
	if err := view.ConvertFrom(stored.DeepCopy()); err != nil {
		t.Fatalf("ConvertFrom: %v", err)
	}
	wire, _ := json.Marshal(view)
	sent := &Rollout{}
	if err := json.Unmarshal(wire, sent); err != nil {
		t.Fatal(err)
	}
	// the classic v1alpha1 status write: approve the paused step
	sent.Status.CanaryStatus.CurrentStepState = CanaryStepStateReady

	after := &v1beta1.Rollout{}
	if err := sent.ConvertTo(after); err != nil {
		t.Fatalf("ConvertTo: %v", err)
	}
	if after.Status.CanaryStatus.CurrentStepIndex != 2 || after.Status.CanaryStatus.CurrentStepState != v1beta1.CanaryStepStateReady {
		t.Fatalf("unexpected canaryStatus: %+v", after.Status.CanaryStatus)
	}
	if after.Status.CurrentStepIndex == after.Status.CanaryStatus.CurrentStepIndex &&
		after.Status.CurrentStepState == after.Status.CanaryStatus.CurrentStepState {
		t.Fatalf("defect not present: top-level cursor follows canaryStatus")
	}
	fmt.Printf("REPRODUCED C20 (same ... status cursor; a canary-strategy v1beta1 object survives a read-modify-write through v1alpha1): "+
		"v1beta1 Rollout stored with status.currentStepIndex=2 status.currentStepState=StepPaused; after a v1alpha1 client approves the step "+
		"the stored object has status.canaryStatus={currentStepIndex:%d currentStepState:%s} but status.currentStepIndex=%d status.currentStepState=%q\n",
		after.Status.CanaryStatus.CurrentStepIndex, after.Status.CanaryStatus.CurrentStepState,
		after.Status.CurrentStepIndex, after.Status.CurrentStepState)
}
