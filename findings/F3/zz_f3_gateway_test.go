package gateway

// Reproduction of finding F3 (property C13): with a path match listed before a header match, the generated canary
// rule takes the headers of matches[k] where nonPathMatches[k] is meant, so the header condition is lost and the canary
// rule accepts every request of the original rule.
import (
	"fmt"
	"testing"

	"github.com/openkruise/rollouts/api/v1beta1"
	utilpointer "k8s.io/utils/pointer"
	gatewayv1beta1 "sigs.k8s.io/gateway-api/apis/v1beta1"
)

func TestF3HeaderMatchLost(t *testing.T) {
	kind := gatewayv1beta1.Kind("Service")
	prefix := gatewayv1beta1.PathMatchPathPrefix
	exact := gatewayv1beta1.HeaderMatchExact
	rules := []gatewayv1beta1.HTTPRouteRule{{
		Matches: []gatewayv1beta1.HTTPRouteMatch{{Path: &gatewayv1beta1.HTTPPathMatch{Type: &prefix, Value: utilpointer.String("/app")}}},
		BackendRefs: []gatewayv1beta1.HTTPBackendRef{{BackendRef: gatewayv1beta1.BackendRef{
			BackendObjectReference: gatewayv1beta1.BackendObjectReference{Kind: &kind, Name: "stable"}}}},
	}}
	userMatches := []v1beta1.HttpRouteMatch{
		{Path: &gatewayv1beta1.HTTPPathMatch{Type: &prefix, Value: utilpointer.String("/canary-only")}},
		{Headers: []gatewayv1beta1.HTTPHeaderMatch{{Type: &exact, Name: "user-agent", Value: "pc"}}},
	}
	r := &gatewayController{conf: Config{StableService: "stable", CanaryService: "canary"}}
	out := r.buildCanaryHeaderHttpRoutes(rules, userMatches)
	// the generated canary rule is the last one; the match derived from the original rule's own match must carry the header
	canary := out[len(out)-1]
	for _, m := range canary.Matches {
		if m.Path != nil && *m.Path.Value == "/app" && len(m.Headers) == 0 {
			fmt.Printf("REPRODUCED canary rule match %v has no header condition: it accepts every request for /app\n", *m.Path.Value)
			return
		}
	}
	t.Errorf("not reproduced: %+v", canary.Matches)
}
