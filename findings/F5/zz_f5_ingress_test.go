package ingress

// Reproduction of finding F5 (property C14, also C09): buildCanaryIngress dereferences rule.http and
// path.backend.service of the user's stable Ingress. Both are optional in networking.k8s.io/v1 (a host-only rule, a
// resource backend). controller-runtime v0.14 does not recover reconcile panics, so such an Ingress referenced by a
// Rollout crashes the controller process.
import (
	"fmt"
	"testing"

	corev1 "k8s.io/api/core/v1"
	netv1 "k8s.io/api/networking/v1"
)

func panicsWith(f func()) (msg string) {
	defer func() {
		if r := recover(); r != nil {
			msg = fmt.Sprint(r)
		}
	}()
	f()
	return ""
}

func TestF5BuildCanaryIngressPanics(t *testing.T) {
	r := &ingressController{conf: Config{StableService: "stable", CanaryService: "canary"}, canaryIngressName: "x-canary"}
	hostOnly := &netv1.Ingress{Spec: netv1.IngressSpec{Rules: []netv1.IngressRule{{Host: "a.example.com"}}}}
	resourceBackend := &netv1.Ingress{Spec: netv1.IngressSpec{Rules: []netv1.IngressRule{{IngressRuleValue: netv1.IngressRuleValue{HTTP: &netv1.HTTPIngressRuleValue{
		Paths: []netv1.HTTPIngressPath{{Path: "/static", Backend: netv1.IngressBackend{Resource: &corev1.TypedLocalObjectReference{Kind: "StorageBucket", Name: "assets"}}}}}}}}}}
	n := 0
	for name, ing := range map[string]*netv1.Ingress{"rule without http": hostOnly, "path with a resource backend": resourceBackend} {
		if msg := panicsWith(func() { r.buildCanaryIngress(ing) }); msg != "" {
			fmt.Printf("REPRODUCED %s: panic: %s\n", name, msg)
			n++
		}
	}
	if n != 2 {
		t.Errorf("reproduced %d of 2", n)
	}
}
