// dest: pkg/trafficrouting/network/ingress/zz_audit_C14_4_test.go
package ingress

import (
	"context"
	"fmt"
	"os"
	"testing"

	"github.com/openkruise/rollouts/api/v1beta1"
	"github.com/openkruise/rollouts/pkg/util"
	"github.com/openkruise/rollouts/pkg/util/configuration"
	corev1 "k8s.io/api/core/v1"
	netv1 "k8s.io/api/networking/v1"
	"k8s.io/apimachinery/pkg/api/errors"
	metav1 "k8s.io/apimachinery/pkg/apis/meta/v1"
	"k8s.io/apimachinery/pkg/types"
	utilpointer "k8s.io/utils/pointer"
	"sigs.k8s.io/controller-runtime/pkg/client"
	"sigs.k8s.io/controller-runtime/pkg/client/fake"
	gatewayv1beta1 "sigs.k8s.io/gateway-api/apis/v1beta1"
)

var (
	_ = utilpointer.String
	_ = gatewayv1beta1.HeaderMatchExact
	_ = errors.IsNotFound
)

// auditC14Run4 stores the UNMODIFIED built-in class scripts (read from lua_configuration/) in the
// rollout ConfigMap, creates the stable Ingress, and drives the real EnsureRoutes through the given
// steps (each step is retried until EnsureRoutes reports done, like the reconciler does).
// It returns the fake client, the canary Ingress (nil if absent) and the first error of EnsureRoutes.
func auditC14Run4(t *testing.T, class string, stable *netv1.Ingress, steps []*v1beta1.TrafficRoutingStrategy) (client.Client, *netv1.Ingress, error) {
	cm := &corev1.ConfigMap{ObjectMeta: metav1.ObjectMeta{Name: configuration.RolloutConfigurationName, Namespace: util.GetRolloutNamespace()}, Data: map[string]string{}}
	for _, c := range []string{"nginx", "aliyun-alb", "higress", "mse"} {
		b, err := os.ReadFile("../../../../lua_configuration/trafficrouting_ingress/" + c + ".lua")
		if err != nil {
			t.Fatal(err)
		}
		cm.Data[fmt.Sprintf("%s.%s", configuration.LuaTrafficRoutingIngressTypePrefix, c)] = string(b)
	}
	cli := fake.NewClientBuilder().WithScheme(scheme).Build()
	if err := cli.Create(context.TODO(), cm); err != nil {
		t.Fatal(err)
	}
	if err := cli.Create(context.TODO(), stable.DeepCopy()); err != nil {
		t.Fatal(err)
	}
	c, err := NewIngressTrafficRouting(cli, Config{Key: "audit", StableService: "echoserver", CanaryService: "echoserver-canary",
		TrafficConf: &v1beta1.IngressTrafficRouting{Name: stable.Name, ClassType: class}})
	if err != nil {
		t.Fatal(err)
	}
	for _, s := range steps {
		done := false
		for i := 0; i < 5 && !done; i++ {
			done, err = c.EnsureRoutes(context.TODO(), s)
			if err != nil {
				return cli, nil, err
			}
		}
		if !done {
			t.Fatalf("EnsureRoutes did not converge")
		}
	}
	can := &netv1.Ingress{}
	if err := cli.Get(context.TODO(), types.NamespacedName{Name: stable.Name + "-canary"}, can); err != nil {
		if errors.IsNotFound(err) {
			return cli, nil, nil
		}
		t.Fatal(err)
	}
	return cli, can, nil
}

// EnsureRoutes short-circuits `canary not found && weight == 0 -> return true` before looking at
// strategy.Matches. A (blue-green admissible) step {traffic:"0%", matches:[header]} therefore yields
// NO canary Ingress when it is the first step, but a canary Ingress with the header annotations when
// any earlier step created it.
func TestAuditC14_4_ZeroWeightWithMatchesSkippedWhenEnteredFirst(t *testing.T) {
	exact := gatewayv1beta1.HeaderMatchExact
	step := &v1beta1.TrafficRoutingStrategy{
		Traffic: utilpointer.String("0%"),
		Matches: []v1beta1.HttpRouteMatch{{Headers: []gatewayv1beta1.HTTPHeaderMatch{{Type: &exact, Name: "user", Value: "tester"}}}},
	}
	earlier := &v1beta1.TrafficRoutingStrategy{Traffic: utilpointer.String("10%")}
	for _, class := range []string{"nginx", "aliyun-alb", "higress", "mse"} {
		_, fresh, err := auditC14Run4(t, class, demoIngress.DeepCopy(), []*v1beta1.TrafficRoutingStrategy{step})
		if err != nil {
			t.Fatal(err)
		}
		_, after, err := auditC14Run4(t, class, demoIngress.DeepCopy(), []*v1beta1.TrafficRoutingStrategy{earlier, step})
		if err != nil {
			t.Fatal(err)
		}
		if fresh != nil || after == nil {
			t.Fatalf("not reproduced for %s: fresh=%v after=%v", class, fresh, after)
		}
		t.Logf("REPRODUCED: class %s, step {traffic:0%%, matches:[header user=tester]} entered FIRST: EnsureRoutes reports done and no canary Ingress exists "+
			"(header-matched requests never reach the canary); entered after step {traffic:10%%} the canary Ingress has %v - result depends on history", class, after.Annotations)
	}
}
