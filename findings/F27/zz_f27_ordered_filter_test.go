// dest: pkg/controller/batchrelease/labelpatch/zz_audit_C12_3_test.go
package labelpatch

import (
	"context"
	"fmt"
	"k8s.io/klog/v2"
	"sigs.k8s.io/controller-runtime/pkg/client"
	"sigs.k8s.io/controller-runtime/pkg/client/fake"
	"testing"

	"github.com/openkruise/rollouts/api/v1beta1"
	batchcontext "github.com/openkruise/rollouts/pkg/controller/batchrelease/context"
	"github.com/openkruise/rollouts/pkg/util"
	appsv1 "k8s.io/api/apps/v1"
	corev1 "k8s.io/api/core/v1"
	metav1 "k8s.io/apimachinery/pkg/apis/meta/v1"
	"k8s.io/apimachinery/pkg/util/intstr"
	"k8s.io/utils/pointer"
)

// FilterPodsForOrderedUpdate (ordered StatefulSet, rollback in batches) drops low-priority pods (ordinal < partition)
// even when they already carry (rollout-id, batch i) from an earlier pass. Its sibling FilterPodsForUnorderedUpdate
// keeps every pod that already carries the rollout-id (they are "high priority"). A dropped labelled pod no longer
// consumes its batch's budget in patchPodBatchLabel, so the batch is filled a second time.
//
// History (all context values are what partitionstyle/statefulset.CalculateBatchContext computes):
//
//	ordered StatefulSet sts, 3 replicas. v1 -> v2 had updated sts-1, sts-2; the user rolls back to v1
//	(update revision = v1), so sts-0 is a "no need update" pod: NoNeedUpdateReplicas = 1.
//	plan 34% / 51% / 100%, rollout-id r1.
//	batch 1 (34%): planned=ceil(1.02)=2, really updated=ceil(0.68)=1 -> partition 2. sts-2 is rolled back.
//	batch 2 (51%): planned=ceil(1.53)=2, really updated=ceil(1.02)=2 -> partition 1. sts-1 is rolled back.
func TestAuditC12_3_OrderedFilterDropsLabelledPods(t *testing.T) {
	batches := []v1beta1.ReleaseBatch{
		{CanaryReplicas: intstr.FromString("34%")},
		{CanaryReplicas: intstr.FromString("51%")},
		{CanaryReplicas: intstr.FromString("100%")},
	}
	mk := func(ord int, rev string, extra map[string]string) *corev1.Pod {
		labels := map[string]string{appsv1.ControllerRevisionHashLabelKey: rev}
		for k, v := range extra {
			labels[k] = v
		}
		return &corev1.Pod{ObjectMeta: metav1.ObjectMeta{Namespace: "default", Name: fmt.Sprintf("sts-%d", ord), Labels: labels}}
	}
	noNeed := map[string]string{util.NoNeedUpdatePodLabel: "r1"}

	// ---- batch 1: partition 2
	ctx := &batchcontext.BatchContext{
		RolloutID:              "r1",
		UpdateRevision:         "v1",
		CurrentBatch:           0,
		Replicas:               3,
		NoNeedUpdatedReplicas:  pointer.Int32(1),
		PlannedUpdatedReplicas: 2,
		DesiredUpdatedReplicas: 2,
		DesiredPartition:       intstr.FromInt(2),
		FilterFunc:             FilterPodsForOrderedUpdate,
		Pods:                   []*corev1.Pod{mk(0, "v1", noNeed), mk(1, "v2", nil), mk(2, "v1", nil)},
	}
	pods := auditC12Label3(t, ctx, batches)
	count := func(pods []*corev1.Pod) (map[string]int, map[string]string) {
		per := map[string]int{}
		where := map[string]string{}
		for _, p := range pods {
			if p.DeletionTimestamp.IsZero() && p.Labels[v1beta1.RolloutIDLabel] == "r1" {
				per[p.Labels[v1beta1.RolloutBatchIDLabel]]++
				where[p.Name] = p.Labels[v1beta1.RolloutBatchIDLabel]
			}
		}
		return per, where
	}
	per, where := count(pods)
	t.Logf("after batch 1: %v %v", per, where)
	if per["1"] != 2 {
		t.Fatalf("setup: expected 2 pods labelled batch 1 after the first batch, got %v", per)
	}

	// ---- batch 2: partition 1; sts-1 has been rolled back to v1 (recreated, unlabelled)
	var next []*corev1.Pod
	for _, p := range pods {
		if p.Name == "sts-1" {
			continue
		}
		p.ResourceVersion = ""
		next = append(next, p)
	}
	next = append(next, mk(1, "v1", nil))
	ctx = &batchcontext.BatchContext{
		RolloutID:              "r1",
		UpdateRevision:         "v1",
		CurrentBatch:           1,
		Replicas:               3,
		NoNeedUpdatedReplicas:  pointer.Int32(1),
		PlannedUpdatedReplicas: 2,
		DesiredUpdatedReplicas: 3,
		DesiredPartition:       intstr.FromInt(1),
		FilterFunc:             FilterPodsForOrderedUpdate,
		Pods:                   next,
	}
	pods = auditC12Label3(t, ctx, batches)
	per, where = count(pods)
	t.Logf("after batch 2: %v %v", per, where)

	// the plan: batch 1 adds ceil(34% * 3) = 2 pods, batch 2 adds ceil(51% * 3) - 2 = 0 pods
	if per["1"] > 2 {
		t.Logf("REPRODUCED: ordered-StatefulSet rollback, 3 replicas, plan 34%%/51%%/100%%: batch 1 adds 2 pods under the plan, "+
			"but after the batch-2 labelling pass %d live new-revision pods carry (r1, batch 1): %v. "+
			"FilterPodsForOrderedUpdate dropped the already labelled pod sts-0 (ordinal < partition, diff<=0), so it did not consume "+
			"batch 1's budget and sts-1 (a pod of batch 2) was labelled batch 1 on top. The unordered sibling keeps labelled pods.", per["1"], where)
		return
	}
	t.Fatalf("not reproduced: %v %v", per, where)
}

// runs the real patcher against a fake store, then re-reads the pods from the store
func auditC12Label3(t *testing.T, ctx *batchcontext.BatchContext, batches []v1beta1.ReleaseBatch) []*corev1.Pod {
	var objects []client.Object
	for _, pod := range ctx.Pods {
		objects = append(objects, pod)
	}
	cli := fake.NewClientBuilder().WithScheme(scheme).WithObjects(objects...).Build()
	patcher := NewLabelPatcher(cli, klog.ObjectRef{Name: "audit"}, batches)
	if err := patcher.PatchPodBatchLabel(ctx); err != nil {
		t.Fatalf("PatchPodBatchLabel: %v", err)
	}
	podList := &corev1.PodList{}
	if err := cli.List(context.TODO(), podList); err != nil {
		t.Fatalf("list: %v", err)
	}
	var out []*corev1.Pod
	for i := range podList.Items {
		out = append(out, &podList.Items[i])
	}
	return out
}
