// dest: pkg/webhook/rollout/validating/zz_audit_C09_2_test.go
package validating

import (
	"context"
	"encoding/json"
	"fmt"
	"testing"

	rolloutapi "github.com/openkruise/rollouts/api"
	appsv1beta1 "github.com/openkruise/rollouts/api/v1beta1"
	"github.com/openkruise/rollouts/pkg/util"
	admissionv1 "k8s.io/api/admission/v1"
	apps "k8s.io/api/apps/v1"
	corev1 "k8s.io/api/core/v1"
	metav1 "k8s.io/apimachinery/pkg/apis/meta/v1"
	"k8s.io/apimachinery/pkg/runtime"
	"k8s.io/apimachinery/pkg/types"
	"k8s.io/apimachinery/pkg/util/intstr"
	clientgoscheme "k8s.io/client-go/kubernetes/scheme"
	utilpointer "k8s.io/utils/pointer"
	"sigs.k8s.io/controller-runtime/pkg/client/fake"
	"sigs.k8s.io/controller-runtime/pkg/webhook/admission"
)

// C09: "Validation also keeps the structural promises the controllers depend on: ... one Rollout per workload".
//
// validateRolloutSpecObjectRef (util.IsSupportedWorkload) and the controller's workload finder
// (util.verifyGroupKind) both identify the workload by GROUP + KIND + NAME and ignore the version part of
// workloadRef.apiVersion.  validateRolloutConflict, however, compares the whole ObjectRef with
// reflect.DeepEqual (IsSameWorkloadRefGVKName), i.e. including the raw apiVersion string.  Two Rollouts that
// reference the same Deployment as "apps/v1" and "apps/v1beta1" are therefore both admitted, and the
// controller resolves both of them to the very same Deployment.
func TestAuditC09_2_ConflictCheckComparesApiVersionStringSoTwoRolloutsShareOneWorkload(t *testing.T) {
	sch := runtime.NewScheme()
	_ = clientgoscheme.AddToScheme(sch)
	_ = rolloutapi.AddToScheme(sch)
	const ns = "default"

	mk := func(name, apiVersion string) *appsv1beta1.Rollout {
		return &appsv1beta1.Rollout{
			TypeMeta:   metav1.TypeMeta{APIVersion: appsv1beta1.GroupVersion.String(), Kind: "Rollout"},
			ObjectMeta: metav1.ObjectMeta{Name: name, Namespace: ns},
			Spec: appsv1beta1.RolloutSpec{
				WorkloadRef: appsv1beta1.ObjectRef{APIVersion: apiVersion, Kind: "Deployment", Name: "echoserver"},
				Strategy: appsv1beta1.RolloutStrategy{Canary: &appsv1beta1.CanaryStrategy{
					EnableExtraWorkloadForCanary: true,
					Steps: []appsv1beta1.CanaryStep{
						{Replicas: &intstr.IntOrString{Type: intstr.String, StrVal: "20%"}},
						{Replicas: &intstr.IntOrString{Type: intstr.String, StrVal: "100%"}},
					},
				}},
			},
		}
	}
	first := mk("rollout-a", "apps/v1")
	second := mk("rollout-b", "apps/v1beta1") // same group, same kind, same name: the same Deployment

	// the workload both of them point at
	dep := &apps.Deployment{
		TypeMeta:   metav1.TypeMeta{APIVersion: "apps/v1", Kind: "Deployment"},
		ObjectMeta: metav1.ObjectMeta{Name: "echoserver", Namespace: ns, Generation: 1, UID: types.UID("dep-uid")},
		Spec: apps.DeploymentSpec{
			Replicas: utilpointer.Int32(5),
			Selector: &metav1.LabelSelector{MatchLabels: map[string]string{"app": "echoserver"}},
			Template: corev1.PodTemplateSpec{
				ObjectMeta: metav1.ObjectMeta{Labels: map[string]string{"app": "echoserver"}},
				Spec:       corev1.PodSpec{Containers: []corev1.Container{{Name: "main", Image: "echoserver:v1"}}},
			},
		},
		Status: apps.DeploymentStatus{ObservedGeneration: 1},
	}
	rs := &apps.ReplicaSet{
		ObjectMeta: metav1.ObjectMeta{
			Name: "echoserver-1", Namespace: ns,
			Labels: map[string]string{"app": "echoserver", "pod-template-hash": "v1hash"},
			OwnerReferences: []metav1.OwnerReference{{APIVersion: "apps/v1", Kind: "Deployment", Name: "echoserver",
				UID: types.UID("dep-uid"), Controller: utilpointer.Bool(true)}},
		},
		Spec: apps.ReplicaSetSpec{
			Replicas: utilpointer.Int32(5),
			Selector: &metav1.LabelSelector{MatchLabels: map[string]string{"app": "echoserver"}},
			Template: dep.Spec.Template,
		},
	}

	cli := fake.NewClientBuilder().WithScheme(sch).WithObjects(first.DeepCopy(), dep, rs).Build()
	decoder, _ := admission.NewDecoder(sch)
	h := &RolloutCreateUpdateHandler{Client: cli, Decoder: decoder}

	create := func(r *appsv1beta1.Rollout) admission.Response {
		by, _ := json.Marshal(r)
		return h.Handle(context.TODO(), admission.Request{AdmissionRequest: admissionv1.AdmissionRequest{
			Operation: admissionv1.Create,
			Kind:      metav1.GroupVersionKind{Group: appsv1beta1.GroupVersion.Group, Version: "v1beta1", Kind: "Rollout"},
			Name:      r.Name, Namespace: r.Namespace,
			Object: runtime.RawExtension{Raw: by},
		}})
	}

	// sanity: the conflict checker works when the apiVersion string is byte-identical
	if resp := create(mk("rollout-c", "apps/v1")); resp.Allowed {
		t.Fatalf("unexpected: a second Rollout with an identical workloadRef was admitted")
	}

	resp := create(second)
	if !resp.Allowed {
		t.Fatalf("defect not present: second Rollout for the same Deployment was rejected: %v", resp.Result)
	}
	if err := cli.Create(context.TODO(), second.DeepCopy()); err != nil {
		t.Fatal(err)
	}

	// the controller side: both admitted Rollouts resolve to the very same workload object
	finder := util.NewControllerFinder(cli)
	w1, err1 := finder.GetWorkloadForRef(first)
	w2, err2 := finder.GetWorkloadForRef(second)
	if err1 != nil || err2 != nil || w1 == nil || w2 == nil {
		t.Fatalf("finder failed: %v %v %v %v", w1, err1, w2, err2)
	}
	if w1.UID != w2.UID || w1.Name != "echoserver" {
		t.Fatalf("defect not present: the two rollouts resolve to different workloads (%s/%s vs %s/%s)", w1.Name, w1.UID, w2.Name, w2.UID)
	}
	fmt.Printf("REPRODUCED C09: 'one Rollout per workload' is not kept by validation: with Rollout %s (workloadRef apps/v1 Deployment echoserver) "+
		"already present, the validating webhook ADMITTED Rollout %s (workloadRef apps/v1beta1 Deployment echoserver); "+
		"the controller's finder resolves both to the same Deployment uid=%s, so two Rollouts now drive one workload\n",
		first.Name, second.Name, w1.UID)
}
