package rollouthistory

// Reproduction of finding F9 (property C09): with the RolloutHistory feature gate on, the history controller indexes
// spec.strategy.canary.trafficRoutings[0] of every progressing Rollout that has a rollout-id. A Rollout without traffic
// routing (a plain batch rollout, accepted by the webhook) makes it panic; reconcile panics are not recovered, so the
// whole controller process crashes.
import (
	"fmt"
	"testing"

	rolloutv1alpha1 "github.com/openkruise/rollouts/api/v1alpha1"
	metav1 "k8s.io/apimachinery/pkg/apis/meta/v1"
	"sigs.k8s.io/controller-runtime/pkg/client/fake"
)

func TestF9NoTrafficRoutingPanics(t *testing.T) {
	r := &RolloutHistoryReconciler{Client: fake.NewClientBuilder().Build()}
	rollout := &rolloutv1alpha1.Rollout{
		ObjectMeta: metav1.ObjectMeta{Name: "demo", Namespace: "default"},
		Spec: rolloutv1alpha1.RolloutSpec{Strategy: rolloutv1alpha1.RolloutStrategy{Canary: &rolloutv1alpha1.CanaryStrategy{
			Steps: []rolloutv1alpha1.CanaryStep{{}},
		}}},
	}
	msg := func() (m string) {
		defer func() {
			if x := recover(); x != nil {
				m = fmt.Sprint(x)
			}
		}()
		_, _ = r.getServiceInfo(rollout)
		return ""
	}()
	if msg == "" {
		t.Fatalf("no panic")
	}
	fmt.Printf("REPRODUCED rollout without trafficRoutings: panic: %s\n", msg)
}
