package rollouthistory

// Reproduction of finding F10 (property C09): getWorkloadInfoForRef returns (nil, nil) when none of its finders knows the
// workload kind (an Advanced DaemonSet is a supported Rollout workload but not one of the history finders) or the
// workload is gone; getRolloutHistorySpec then dereferences the nil result.
import (
	"fmt"
	"testing"

	rolloutv1alpha1 "github.com/openkruise/rollouts/api/v1alpha1"
	metav1 "k8s.io/apimachinery/pkg/apis/meta/v1"
	"sigs.k8s.io/controller-runtime/pkg/client/fake"
)

func TestF10UnknownWorkloadPanics(t *testing.T) {
	cli := fake.NewClientBuilder().Build()
	r := &RolloutHistoryReconciler{Client: cli, Finder: newControllerFinder2(cli)}
	rollout := &rolloutv1alpha1.Rollout{
		ObjectMeta: metav1.ObjectMeta{Name: "demo", Namespace: "default"},
		Spec: rolloutv1alpha1.RolloutSpec{
			ObjectRef: rolloutv1alpha1.ObjectRef{WorkloadRef: &rolloutv1alpha1.WorkloadRef{APIVersion: "apps.kruise.io/v1alpha1", Kind: "DaemonSet", Name: "ds"}},
			Strategy:  rolloutv1alpha1.RolloutStrategy{Canary: &rolloutv1alpha1.CanaryStrategy{Steps: []rolloutv1alpha1.CanaryStep{{}}}},
		},
		Status: rolloutv1alpha1.RolloutStatus{CanaryStatus: &rolloutv1alpha1.CanaryStatus{ObservedRolloutID: "1"}},
	}
	msg := func() (m string) {
		defer func() {
			if x := recover(); x != nil {
				m = fmt.Sprint(x)
			}
		}()
		_, _ = r.getRolloutHistorySpec(rollout)
		return ""
	}()
	if msg == "" {
		t.Fatalf("no panic")
	}
	fmt.Printf("REPRODUCED rollout on an Advanced DaemonSet: panic: %s\n", msg)
}
