package main

import (
	"bytes"
	"context"
	"encoding/json"
	"flag"
	"fmt"
	"os"
	"os/exec"
	"path/filepath"
	"strings"
	"time"
)

func contextBG() context.Context { return context.Background() }

// tryReplay runs the replay adapter of the function (if any) on the real code through `go test -overlay`.
// Adapters live in /verif/replay/adapters/<name>_test.go.tmpl; they read the model inputs (JSON map path -> SMT value,
// string literals already rendered) from the file named by $GOVC_REPLAY_INPUT and print a line starting with
// "REPRODUCED" when the real function exhibits the failure of the obligation named in $GOVC_REPLAY_OBLIGATION.
func tryReplay(fc *FnCtx, o *Obligation, inputs map[string]string) (string, bool, bool) {
	if fc.con == nil || fc.con.Replay == "" {
		return "", false, false
	}
	verif := os.Getenv("GOVC_VERIF")
	if verif == "" {
		verif = "/verif"
	}
	tmpl := filepath.Join(verif, "replay", "adapters", fc.con.Replay+"_test.go.tmpl")
	src, err := os.ReadFile(tmpl)
	if err != nil {
		return "adapter missing: " + err.Error(), false, false
	}
	work := filepath.Join(verif, "work", "replay", sanitize(shortKey(o.Name())))
	os.MkdirAll(work, 0o755)
	inFile := filepath.Join(work, "input.json")
	ib, _ := json.MarshalIndent(inputs, "", " ")
	os.WriteFile(inFile, ib, 0o644)
	testFile := filepath.Join(work, "adapter_test.go")
	os.WriteFile(testFile, src, 0o644)
	pkgDir := filepath.Dir(fc.con.File)
	ov := map[string]any{"Replace": map[string]string{filepath.Join(pkgDir, "zz_govc_replay_test.go"): testFile}}
	ob, _ := json.Marshal(ov)
	ovFile := filepath.Join(work, "overlay.json")
	os.WriteFile(ovFile, ob, 0o644)
	ctx, cancel := context.WithTimeout(context.Background(), 5*time.Minute)
	defer cancel()
	cmd := exec.CommandContext(ctx, "go", "test", "-overlay", ovFile, "-vet=off", "-count=1", "-v", "-timeout", "60s", "-run", "TestGovcReplay", ".")
	cmd.Dir = pkgDir
	cmd.Env = append(os.Environ(), "GOFLAGS=-mod=mod", "GOPROXY=off", "GOSUMDB=off", "GOTOOLCHAIN=local",
		"GOVC_REPLAY_INPUT="+inFile, "GOVC_REPLAY_OBLIGATION="+o.Name())
	var out bytes.Buffer
	cmd.Stdout = &out
	cmd.Stderr = &out
	cmd.Run()
	s := out.String()
	if len(s) > 6000 {
		s = s[:6000] + "\n...[truncated]"
	}
	return fmt.Sprintf("$ (cd %s && go test -overlay %s -vet=off -count=1 -v -timeout 60s -run TestGovcReplay .)\n%s", pkgDir, ovFile, s), strings.Contains(s, "REPRODUCED") && !strings.Contains(s, "NOT-REPRODUCED"), true
}

// cmdReplay re-decides the obligation recorded in a replay file from /repo's current source: the VCs of its function are
// generated again, the obligation with the recorded name is solved again, and the verdict is printed. Exit 1 when the
// obligation still fails (or is no longer generated), 0 when it is now discharged.
func cmdReplay(args []string) int {
	fs := flag.NewFlagSet("replay", flag.ExitOnError)
	repo := fs.String("repo", "/repo", "repository")
	fs.Parse(args)
	if fs.NArg() < 1 {
		fmt.Fprintln(os.Stderr, "usage: govc replay <replay.json>")
		return 2
	}
	b, err := os.ReadFile(fs.Arg(0))
	if err != nil {
		fmt.Fprintln(os.Stderr, err)
		return 2
	}
	var rec struct {
		Property   string `json:"property"`
		Obligation string `json:"obligation"`
		Function   string `json:"function"`
	}
	if err := json.Unmarshal(b, &rec); err != nil || rec.Obligation == "" {
		fmt.Fprintln(os.Stderr, "not a replay file")
		return 2
	}
	g := newGen()
	if err := g.load(*repo, defaultPatterns); err != nil {
		fmt.Fprintln(os.Stderr, err)
		return 2
	}
	fn := g.funcs[rec.Function]
	if fn == nil {
		fmt.Printf("REPLAY obligation=%s result=function-no-longer-exists\n", rec.Obligation)
		return 1
	}
	fc := g.genFunction(fn, g.contracts[rec.Function], true)
	if fc.err != nil {
		fmt.Printf("REPLAY obligation=%s result=generator-error %v\n", rec.Obligation, fc.err)
		return 2
	}
	var keep []*Obligation
	for _, o := range fc.obls {
		if o.Name() == rec.Obligation {
			keep = append(keep, o)
		}
	}
	if len(keep) == 0 {
		fmt.Printf("REPLAY obligation=%s result=not-generated-any-more\n", rec.Obligation)
		return 1
	}
	fc.obls = keep
	work, _ := os.MkdirTemp("", "govc-replay-")
	defer os.RemoveAll(work)
	solveFunction(fc, SolverCfg{QueryTimeout: 60 * time.Second, IncTimeoutMs: 5000, WorkDir: work, Jobs: 4})
	o := keep[0]
	fmt.Printf("REPLAY property=%s obligation=%s verdict=%s solver=%s\n", rec.Property, o.Name(), o.Verdict, o.Solver)
	if o.Verdict == "refuted" {
		for k, v := range o.Model {
			fmt.Printf("  %s = %s\n", k, v)
		}
		if fc.con != nil {
			inputs := map[string]string{}
			lits := fc.q.litTable()
			for _, in := range o.Inputs {
				if v, ok := o.Model[in.Term]; ok {
					inputs[in.Path] = renderValue(v, lits)
					if in.Sort == sStr {
						if b, ok := o.Model["(isPct "+in.Term+")"]; ok {
							inputs[in.Path+"#isPct"] = b
						}
						if n, ok := o.Model["(pctNum "+in.Term+")"]; ok {
							inputs[in.Path+"#pctNum"] = n
						}
					}
				}
			}
			if out, ok, ran := tryReplay(fc, o, inputs); ran {
				fmt.Printf("  replay on the real code: reproduced=%v\n%s\n", ok, out)
			}
		}
	}
	if o.Verdict == "discharged" {
		return 0
	}
	return 1
}
