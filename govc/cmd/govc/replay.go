package main

import (
	"bytes"
	"context"
	"encoding/json"
	"fmt"
	"os"
	"os/exec"
	"path/filepath"
	"strings"
	"time"
)

func contextBG() context.Context { return context.Background() }

// tryReplay runs the replay adapter of the function (if any) on the real code through `go test -overlay`.
// Adapters live in /verif/replay/adapters/<name>_test.go.tmpl; they read the model inputs (JSON map path -> SMT value,
// string literals already rendered) from the file named by $GOVC_REPLAY_INPUT and print a line starting with
// "REPRODUCED" when the real function exhibits the failure of the obligation named in $GOVC_REPLAY_OBLIGATION.
func tryReplay(fc *FnCtx, o *Obligation, inputs map[string]string) (string, bool, bool) {
	if fc.con == nil || fc.con.Replay == "" {
		return "", false, false
	}
	verif := os.Getenv("GOVC_VERIF")
	if verif == "" {
		verif = "/verif"
	}
	tmpl := filepath.Join(verif, "replay", "adapters", fc.con.Replay+"_test.go.tmpl")
	src, err := os.ReadFile(tmpl)
	if err != nil {
		return "adapter missing: " + err.Error(), false, false
	}
	work := filepath.Join(verif, "work", "replay", sanitize(shortKey(o.Name())))
	os.MkdirAll(work, 0o755)
	inFile := filepath.Join(work, "input.json")
	ib, _ := json.MarshalIndent(inputs, "", " ")
	os.WriteFile(inFile, ib, 0o644)
	testFile := filepath.Join(work, "adapter_test.go")
	os.WriteFile(testFile, src, 0o644)
	pkgDir := filepath.Dir(fc.con.File)
	ov := map[string]any{"Replace": map[string]string{filepath.Join(pkgDir, "zz_govc_replay_test.go"): testFile}}
	ob, _ := json.Marshal(ov)
	ovFile := filepath.Join(work, "overlay.json")
	os.WriteFile(ovFile, ob, 0o644)
	ctx, cancel := context.WithTimeout(context.Background(), 5*time.Minute)
	defer cancel()
	cmd := exec.CommandContext(ctx, "go", "test", "-overlay", ovFile, "-vet=off", "-count=1", "-v", "-timeout", "60s", "-run", "TestGovcReplay", ".")
	cmd.Dir = pkgDir
	cmd.Env = append(os.Environ(), "GOFLAGS=-mod=mod", "GOPROXY=off", "GOSUMDB=off", "GOTOOLCHAIN=local",
		"GOVC_REPLAY_INPUT="+inFile, "GOVC_REPLAY_OBLIGATION="+o.Name())
	var out bytes.Buffer
	cmd.Stdout = &out
	cmd.Stderr = &out
	cmd.Run()
	s := out.String()
	if len(s) > 6000 {
		s = s[:6000] + "\n...[truncated]"
	}
	return fmt.Sprintf("$ (cd %s && go test -overlay %s -vet=off -count=1 -v -timeout 60s -run TestGovcReplay .)\n%s", pkgDir, ovFile, s), strings.Contains(s, "REPRODUCED") && !strings.Contains(s, "NOT-REPRODUCED"), true
}
