package main

import (
	"fmt"
	"go/constant"
	"go/types"
	"sort"
	"strconv"
	"strings"

	"golang.org/x/tools/go/ssa"
)

// Env: evaluation environment of a contract expression.
type Env struct {
	fc        *FnCtx
	vars      map[string]Val
	pre, cur  *State
	loopEntry *State
	results   []Val
	pkg       *types.Package
	self      bool // evaluating the function's own contract: locals visible
	depth     int
	noInv     bool // under a binder: loads must not be named by constants
	triggers  *[]string // candidate e-matching patterns collected under a quantifier
	binderInvs *[]string // type invariants of the values read under the binder (guards of the quantified body)
	bound     map[string]bool
	ownBound  map[string]bool // the variables of the innermost binder (for its own patterns)
	rawLoads  bool // never name a load by a constant (sum bodies)
	ghostOverride map[string]string // call-log ghosts bound by the caller (higher-order contracts)
	byRef     map[string]types.Type // captured variables: the name denotes the content of the cell
	frameArrs []string // arrays the function under this contract may write (for unchangedOutside)
}

func (fc *FnCtx) selfEnv(pre, cur *State, results []Val) *Env {
	env := &Env{fc: fc, vars: map[string]Val{}, pre: pre, cur: cur, results: results, self: true}
	for k, v := range fc.params {
		env.vars[k] = v
	}
	for _, fv := range fc.fn.FreeVars {
		if pt, ok := fv.Type().Underlying().(*types.Pointer); ok {
			if env.byRef == nil {
				env.byRef = map[string]types.Type{}
			}
			env.byRef[fv.Name()] = pt.Elem()
		}
	}
	if fc.fn.Pkg != nil {
		env.pkg = fc.fn.Pkg.Pkg
	} else if fc.con != nil {
		env.pkg = fc.con.Pkg
	}
	if fc.con != nil && fc.con.Pkg != nil {
		env.pkg = fc.con.Pkg
	}
	if results != nil {
		sig := fc.fn.Signature
		for i := 0; i < sig.Results().Len() && i < len(results); i++ {
			if n := sig.Results().At(i).Name(); n != "" && n != "_" {
				if _, isParam := fc.params[n]; !isParam {
					env.vars[n] = results[i]
				}
			}
		}
	}
	return env
}

func (fc *FnCtx) evalBool(env *Env, e *Expr) (string, error) {
	v, err := fc.eval(env, e)
	if err != nil {
		return "", err
	}
	if v.T == "" {
		return "", fmt.Errorf("not a boolean term")
	}
	return v.T, nil
}

func (fc *FnCtx) vsort(v Val) string {
	if v.Typ != nil {
		if s := fc.g.ti.sortOf(v.Typ); s != "" {
			return s
		}
	}
	return guessSort(fc.q, v.T)
}

var intT = types.Typ[types.Int]
var boolT = types.Typ[types.Bool]
var strT = types.Typ[types.String]

func (fc *FnCtx) eval(env *Env, e *Expr) (Val, error) {
	g := fc.g
	ti := g.ti
	switch e.Op {
	case "int":
		return Val{T: e.Int, Typ: intT}, nil
	case "bool":
		return Val{T: e.Name, Typ: boolT}, nil
	case "str":
		return Val{T: fc.q.lit(e.Name), Typ: strT}, nil
	case "nil":
		return Val{T: "nil"}, nil
	case "ident":
		if v, ok := env.vars[e.Name]; ok {
			if et, isRef := env.byRef[e.Name]; isRef {
				lv := fc.evalLoad(env, v, et, "cx_"+sanitize(e.Name))
				lv.Typ = et
				return lv, nil
			}
			return v, nil
		}
		if e.Name == "result" {
			if len(env.results) >= 1 {
				return env.results[0], nil
			}
			return Val{}, fmt.Errorf("no result here")
		}
		if strings.HasPrefix(e.Name, "result") {
			var i int
			if _, err := fmt.Sscanf(e.Name, "result%d", &i); err == nil && i < len(env.results) {
				return env.results[i], nil
			}
		}
		if env.self {
			if v, ok := fc.localByName(env.cur, e.Name); ok {
				return v, nil
			}
		}
		// package-level constant of the contract's package
		if env.pkg != nil {
			if obj := env.pkg.Scope().Lookup(e.Name); obj != nil {
				if c, ok := obj.(*types.Const); ok {
					return fc.constToVal(c), nil
				}
			}
		}
		return Val{}, fmt.Errorf("unknown identifier %q", e.Name)
	case "ghost":
		name := e.Name
		if t, ok := env.ghostOverride[name]; ok {
			return Val{T: t}, nil
		}
		if !strings.Contains(name, ".") {
			return Val{T: env.cur.ghostGet(name, sInt, "0"), Typ: intT}, nil
		}
		if t, ok := env.cur.ghost[name]; ok {
			return Val{T: t}, nil
		}
		if init, ok := fc.ghostInit[name]; ok {
			return Val{T: init}, nil
		}
		// a log field of a registered `track` name that this function never calls keeps its initial (zero) value; its
		// sort comes from the tracked function's signature. (Any other unknown ghost stays an error: typo guard.)
		if srt, ok := fc.g.trackedFieldSort(name); ok {
			return Val{T: zeroOf(srt)}, nil
		}
		return Val{}, fmt.Errorf("ghost %s is never logged in this function", name)
	case "gvar":
		return Val{T: fc.gvarGet(env.cur, e.Name), Typ: intT}, nil
	case "addr":
		x, err := fc.eval(env, e.X)
		if err != nil {
			return Val{}, err
		}
		if x.SV == nil || x.SV.zero || x.Typ == nil {
			return Val{}, fmt.Errorf("& needs a struct-typed field")
		}
		return Val{T: x.SV.ref, Typ: types.NewPointer(x.Typ)}, nil
	case "fact":
		if !g.facts[e.Name] {
			return Val{}, fmt.Errorf("undeclared fact %s", e.Name)
		}
		k := "fact:" + e.Name
		fc.ghostSort[k] = sBool
		if _, ok := fc.ghostInit[k]; !ok {
			fc.ghostInit[k] = fc.factInit(e.Name)
		}
		return Val{T: env.cur.ghostGet(k, sBool, fc.ghostInit[k]), Typ: boolT}, nil
	case "old":
		n := *env
		n.cur = env.pre
		return fc.eval(&n, e.X)
	case "unary":
		x, err := fc.eval(env, e.X)
		if err != nil {
			return Val{}, err
		}
		if e.Name == "!" {
			return Val{T: not(x.T), Typ: boolT}, nil
		}
		return Val{T: "(- " + x.T + ")", Typ: x.Typ}, nil
	case "deref":
		x, err := fc.eval(env, e.X)
		if err != nil {
			return Val{}, err
		}
		p, ok := x.Typ.Underlying().(*types.Pointer)
		if !ok {
			return Val{}, fmt.Errorf("deref of non-pointer")
		}
		v := fc.evalLoad(env, x, p.Elem(), "cx_deref")
		v.Typ = p.Elem()
		return v, nil
	case "binary":
		return fc.evalBinary(env, e)
	case "select":
		// qualified constant pkg.Name
		if e.X.Op == "ident" {
			if _, isVar := env.vars[e.X.Name]; !isVar {
				if v, ok := fc.qualifiedConst(env, e.X.Name, e.Name); ok {
					return v, nil
				}
			}
		}
		x, err := fc.eval(env, e.X)
		if err != nil {
			return Val{}, err
		}
		return fc.selectField(env, x, e.Name)
	case "index":
		x, err := fc.eval(env, e.X)
		if err != nil {
			return Val{}, err
		}
		i, err := fc.eval(env, e.Y)
		if err != nil {
			return Val{}, err
		}
		if x.Typ == nil {
			return Val{}, fmt.Errorf("index of untyped value")
		}
		switch t := x.Typ.Underlying().(type) {
		case *types.Slice:
			ref := embDyn("(sarr "+x.T+")", i.T, ti.sizeOf(t.Elem()))
			if env.triggers != nil && env.mentionsOwnBound(i.T) {
				*env.triggers = append(*env.triggers, ref)
			}
			v := fc.evalLoad(env, Val{T: ref}, t.Elem(), "cx_idx")
			v.Typ = t.Elem()
			return v, nil
		case *types.Map:
			return Val{T: fc.mapGet(env.cur, t, x.T, i.T), Typ: t.Elem()}, nil
		case *types.Array:
			ref := embDyn(x.SV.ref, i.T, ti.sizeOf(t.Elem()))
			v := fc.loadAt(x.SV.st, Val{T: ref}, t.Elem())
			v.Typ = t.Elem()
			return v, nil
		}
		return Val{}, fmt.Errorf("cannot index %s", x.Typ)
	case "forall", "exists":
		n := *env
		n.noInv = true
		n.vars = map[string]Val{}
		for k, v := range env.vars {
			n.vars[k] = v
		}
		var decl []string
		var trig []string
		var invs []string
		n.triggers = &trig
		n.binderInvs = &invs
		n.bound = map[string]bool{}
		n.ownBound = map[string]bool{}
		for b := range env.bound {
			n.bound[b] = true // an enclosing binder's variables are bound here too
		}
		for _, v := range strings.Split(e.Name, ",") {
			fc.q.fresh++
			bv := fmt.Sprintf("q_%s_%d", v, fc.q.fresh)
			n.vars[v] = Val{T: bv, Typ: intT}
			n.bound[bv] = true
			n.ownBound[bv] = true
			decl = append(decl, "("+bv+" Int)")
		}
		body, err := fc.eval(&n, e.X)
		if err != nil {
			return Val{}, err
		}
		bt := body.T
		_ = invs
		if len(trig) > 0 && e.Op == "forall" && len(decl) == 1 {
			// one single-term pattern per distinct indexed read
			seen := map[string]bool{}
			var pats []string
			for _, t0 := range trig {
				for _, t := range fc.patternAlternatives(t0) {
					if !seen[t] {
						seen[t] = true
						pats = append(pats, ":pattern ("+t+")")
					}
				}
			}
			bt = "(! " + bt + " " + strings.Join(pats, " ") + ")"
		}
		return Val{T: fmt.Sprintf("(%s (%s) %s)", e.Op, strings.Join(decl, " "), bt), Typ: boolT}, nil
	case "call":
		return fc.evalCall(env, e)
	case "mcall":
		return Val{}, fmt.Errorf("method calls are not allowed in contracts (%s)", e.Name)
	}
	return Val{}, fmt.Errorf("cannot evaluate %s", e.Op)
}

func (env *Env) mentionsOwnBound(t string) bool {
	for b := range env.ownBound {
		if strings.Contains(t, b) {
			return true
		}
	}
	return false
}

func (env *Env) mentionsBound(t string) bool {
	for b := range env.bound {
		if strings.Contains(t, b) {
			return true
		}
	}
	return false
}

func (fc *FnCtx) gvarGet(st *State, name string) string {
	if _, ok := fc.ghostInit[name]; !ok {
		fc.ghostSort[name] = sInt
		fc.ghostInit[name] = fc.q.declare("gv_"+sanitize(name[1:])+"_entry", sInt)
	}
	return st.ghostGet(name, sInt, fc.ghostInit[name])
}

func (fc *FnCtx) evalLoad(env *Env, addr Val, t types.Type, hint string) Val {
	if env.noInv && (env.rawLoads || env.mentionsBound(addr.T)) {
		v := fc.loadAt(env.cur, addr, t)
		// under a binder the value cannot be named by a constant: its type invariant is stated for the whole array version instead
		if env.binderInvs != nil && v.SV == nil && addr.Local == nil {
			arr := addr.Arr
			if arr == "" {
				arr = fc.g.ti.cellArray(t)
			}
			fc.arrayTypingAxiom(env.cur, arr, t)
		}
		return v
	}
	return fc.loadAtInv(env.cur, addr, t, hint)
}

func (fc *FnCtx) constToVal(c *types.Const) Val {
	v := c.Val()
	switch v.Kind() {
	case constant.Bool:
		if constant.BoolVal(v) {
			return Val{T: "true", Typ: c.Type()}
		}
		return Val{T: "false", Typ: c.Type()}
	case constant.String:
		return Val{T: fc.q.lit(constant.StringVal(v)), Typ: c.Type()}
	case constant.Int:
		return Val{T: bigLit(v.ExactString()), Typ: c.Type()}
	}
	return Val{T: fc.q.freshConst("const", sInt), Typ: c.Type()}
}

func (fc *FnCtx) qualifiedConst(env *Env, pkgName, name string) (Val, bool) {
	if env.pkg == nil {
		return Val{}, false
	}
	var find func(p *types.Package, depth int, seen map[*types.Package]bool) (Val, bool)
	find = func(p *types.Package, depth int, seen map[*types.Package]bool) (Val, bool) {
		if seen[p] || depth > 3 {
			return Val{}, false
		}
		seen[p] = true
		for _, imp := range p.Imports() {
			if imp.Name() == pkgName || fc.g.pkgAlias[pkgName] == imp.Path() {
				if obj := imp.Scope().Lookup(name); obj != nil {
					if c, ok := obj.(*types.Const); ok {
						return fc.constToVal(c), true
					}
				}
			}
		}
		for _, imp := range p.Imports() {
			if strings.HasPrefix(imp.Path(), "github.com/openkruise/rollouts") {
				if v, ok := find(imp, depth+1, seen); ok {
					return v, true
				}
			}
		}
		return Val{}, false
	}
	if p, ok := fc.g.pkgAlias[pkgName]; ok {
		if tp := fc.g.typesPkg[p]; tp != nil {
			if obj := tp.Scope().Lookup(name); obj != nil {
				if c, ok := obj.(*types.Const); ok {
					return fc.constToVal(c), true
				}
			}
		}
	}
	return find(env.pkg, 0, map[*types.Package]bool{})
}

// localByName finds a source-level local variable of the function under verification.
func (fc *FnCtx) localByName(st *State, name string) (Val, bool) {
	want := name
	ord := 1
	if i := strings.Index(name, "$"); i > 0 {
		want = name[:i]
		fmt.Sscanf(name[i+1:], "%d", &ord)
	}
	n := 0
	for _, b := range fc.fn.Blocks {
		for _, in := range b.Instrs {
			a, ok := in.(*ssa.Alloc)
			if !ok || a.Comment != want {
				continue
			}
			n++
			if n != ord {
				continue
			}
			et := a.Type().Underlying().(*types.Pointer).Elem()
			if fc.isSimpleLocal(a) {
				t, ok := st.locals[a]
				if !ok {
					t = zeroOf(fc.g.ti.sortOf(et))
				}
				return Val{T: t, Typ: et}, true
			}
			av, ok := fc.vals[a]
			if !ok {
				return Val{}, false
			}
			v := fc.loadAt(st, av, et)
			v.Typ = et
			return v, true
		}
	}
	return Val{}, false
}

func (fc *FnCtx) selectField(env *Env, x Val, name string) (Val, error) {
	ti := fc.g.ti
	if x.Typ == nil {
		return Val{}, fmt.Errorf("select .%s on untyped value", name)
	}
	// pseudo fields on interfaces
	if _, isIface := x.Typ.Underlying().(*types.Interface); isIface {
		switch name {
		case "tag":
			return Val{T: "(itag " + x.T + ")", Typ: intT}, nil
		}
	}
	obj, path, _ := types.LookupFieldOrMethod(x.Typ, true, env.pkg, name)
	if obj == nil {
		// unexported field of another package: retry with the declaring package
		t := x.Typ
		if p, ok := t.Underlying().(*types.Pointer); ok {
			t = p.Elem()
		}
		if n, ok := types.Unalias(t).(*types.Named); ok && n.Obj().Pkg() != nil {
			obj, path, _ = types.LookupFieldOrMethod(x.Typ, true, n.Obj().Pkg(), name)
		}
	}
	if _, ok := obj.(*types.Var); !ok {
		return Val{}, fmt.Errorf("no field %s in %s", name, x.Typ)
	}
	cur := x
	for _, idx := range path {
		t := cur.Typ
		if p, ok := t.Underlying().(*types.Pointer); ok {
			// pointer to struct: field of pointee
			stt := p.Elem()
			s := stt.Underlying().(*types.Struct)
			ft := s.Field(idx).Type()
			addr := fc.fieldAddrOf(cur.T, stt, idx)
			if isStructLike(ft) {
				cur = Val{SV: &StructVal{st: env.cur, ref: addr.T}, Typ: ft}
			} else {
				cur = fc.evalLoad(env, addr, ft, "cx_"+sanitize(name))
				cur.Typ = ft
			}
			continue
		}
		s, ok := t.Underlying().(*types.Struct)
		if !ok {
			return Val{}, fmt.Errorf("select through non-struct %s", t)
		}
		ft := s.Field(idx).Type()
		if cur.SV == nil {
			return Val{}, fmt.Errorf("struct value expected for %s", t)
		}
		svst := cur.SV.st
		cur = fc.fieldOfStruct(cur.SV, t, idx)
		cur.Typ = ft
		if cur.SV == nil && svst != nil && (!env.noInv || !(env.rawLoads || env.mentionsBound(cur.T))) && needsInv(ti.sortOf(ft), ft) {
			c := fc.q.freshConst("cx_"+sanitize(name), ti.sortOf(ft))
			fc.q.assert(implies(env.cur.reach, eq(c, cur.T)))
			fc.typeInvB(env.cur, c, ft, refinedBound(svst, ti.fieldArray(t, idx), cur.T))
			cur.T = c
		} else if cur.SV == nil && svst != nil && env.noInv && env.binderInvs != nil {
			fc.arrayTypingAxiom(svst, ti.fieldArray(t, idx), ft)
		}
	}
	_ = ti
	return cur, nil
}

func (fc *FnCtx) nilFor(v Val) string {
	s := fc.vsort(v)
	switch s {
	case sSlice:
		return "nilslice"
	case sIface:
		return zeroOf(sIface)
	case sFn:
		return zeroOf(sFn)
	}
	return "nilref"
}

func (fc *FnCtx) evalBinary(env *Env, e *Expr) (Val, error) {
	x, err := fc.eval(env, e.X)
	if err != nil {
		return Val{}, err
	}
	y, err := fc.eval(env, e.Y)
	if err != nil {
		return Val{}, err
	}
	switch e.Name {
	case "&&":
		return Val{T: and(x.T, y.T), Typ: boolT}, nil
	case "||":
		return Val{T: or(x.T, y.T), Typ: boolT}, nil
	case "==>":
		return Val{T: implies(x.T, y.T), Typ: boolT}, nil
	case "<==>":
		return Val{T: eq(x.T, y.T), Typ: boolT}, nil
	case "==", "!=":
		var r string
		switch {
		case x.T == "nil" && y.T == "nil":
			r = "true"
		case y.T == "nil":
			r = fc.nilEq(x)
		case x.T == "nil":
			r = fc.nilEq(y)
		case x.SV != nil || y.SV != nil:
			t := x.Typ
			if t == nil {
				t = y.Typ
			}
			var ls []Leaf
			fc.g.ti.leaves(t, 0, "", &ls)
			var cs []string
			for _, l := range ls {
				cs = append(cs, eq(fc.svLeaf(x.SV, l), fc.svLeaf(y.SV, l)))
			}
			r = and(cs...)
		default:
			r = eq(x.T, y.T)
		}
		if e.Name == "!=" {
			r = not(r)
		}
		return Val{T: r, Typ: boolT}, nil
	case "<", "<=", ">", ">=":
		return Val{T: app(e.Name, x.T, y.T), Typ: boolT}, nil
	case "+":
		if fc.vsort(x) == sStr {
			return Val{T: fc.concat(x.T, y.T), Typ: strT}, nil
		}
		return Val{T: app("+", x.T, y.T), Typ: intT}, nil
	case "-":
		return Val{T: app("-", x.T, y.T), Typ: intT}, nil
	case "*":
		return Val{T: app("*", x.T, y.T), Typ: intT}, nil
	case "/":
		return Val{T: app("tdiv", x.T, y.T), Typ: intT}, nil
	case "%":
		return Val{T: app("tmod", x.T, y.T), Typ: intT}, nil
	}
	return Val{}, fmt.Errorf("operator %s", e.Name)
}

func (fc *FnCtx) nilEq(x Val) string {
	switch fc.vsort(x) {
	case sSlice:
		return eq("(sarr "+x.T+")", "nilref")
	case sIface:
		return eq("(itag "+x.T+")", "0")
	case sFn:
		return eq("(fid "+x.T+")", "0")
	}
	return eq(x.T, "nilref")
}

var builtinSpec = map[string]SpecSig{
	"scaled": {Args: []string{sInt, sInt, sStr, sInt, sBool}, Res: sInt}, "scaledOk": {Args: []string{sInt, sStr}, Res: sBool},
	"clamp": {Args: []string{sInt, sInt, sInt}, Res: sInt}, "imin": {Args: []string{sInt, sInt}, Res: sInt}, "imax": {Args: []string{sInt, sInt}, Res: sInt},
	"ceilDiv100": {Args: []string{sInt}, Res: sInt}, "floorDiv100": {Args: []string{sInt}, Res: sInt},
	"pct": {Args: []string{sInt}, Res: sStr}, "isPct": {Args: []string{sStr}, Res: sBool}, "pctNum": {Args: []string{sStr}, Res: sInt},
	"tdiv": {Args: []string{sInt, sInt}, Res: sInt}, "tmod": {Args: []string{sInt, sInt}, Res: sInt},
	"atoiOk": {Args: []string{sStr}, Res: sBool}, "atoiVal": {Args: []string{sStr}, Res: sInt}, "itoa": {Args: []string{sInt}, Res: sStr},
	"hasSuffix": {Args: []string{sStr, sStr}, Res: sBool}, "hasPrefix": {Args: []string{sStr, sStr}, Res: sBool},
	"gvGroup": {Args: []string{sStr}, Res: sStr}, "gvVersion": {Args: []string{sStr}, Res: sStr}, "gvOk": {Args: []string{sStr}, Res: sBool},
	"strlen": {Args: []string{sStr}, Res: sInt}, "strcat": {Args: []string{sStr, sStr}, Res: sStr}, "toLower": {Args: []string{sStr}, Res: sStr},
}

func sortToType(s string) types.Type {
	switch s {
	case sInt:
		return intT
	case sBool:
		return boolT
	case sStr:
		return strT
	}
	return nil
}

func (fc *FnCtx) evalCall(env *Env, e *Expr) (Val, error) {
	ti := fc.g.ti
	m, ok := fc.g.macros[e.Name]
	if env.pkg != nil {
		if pm, pok := fc.g.macros[env.pkg.Path()+"::"+e.Name]; pok {
			m, ok = pm, true
		}
	}
	if ok {
		if len(m.Params) != len(e.Args) {
			return Val{}, fmt.Errorf("macro %s expects %d arguments", e.Name, len(m.Params))
		}
		if env.depth > 30 {
			return Val{}, fmt.Errorf("macro recursion in %s", e.Name)
		}
		sub := map[string]*Expr{}
		for i, p := range m.Params {
			sub[p] = e.Args[i]
		}
		n := *env
		n.depth++
		return fc.eval(&n, substExpr(m.Body, sub))
	}
	switch e.Name {
	case "old":
		n := *env
		n.cur = env.pre
		return fc.eval(&n, e.Args[0])
	case "len", "cap":
		x, err := fc.eval(env, e.Args[0])
		if err != nil {
			return Val{}, err
		}
		if x.Typ == nil {
			return Val{}, fmt.Errorf("len of untyped")
		}
		switch t := x.Typ.Underlying().(type) {
		case *types.Slice:
			if e.Name == "cap" {
				return Val{T: "(scap " + x.T + ")", Typ: intT}, nil
			}
			return Val{T: "(slen " + x.T + ")", Typ: intT}, nil
		case *types.Basic:
			return Val{T: "(strlen " + x.T + ")", Typ: intT}, nil
		case *types.Map:
			_, _, ln := fc.mapArrays(t)
			return Val{T: ite(eq(x.T, "nilref"), "0", sel(env.cur.get(ln), x.T)), Typ: intT}, nil
		case *types.Array:
			return Val{T: fmt.Sprint(t.Len()), Typ: intT}, nil
		}
		return Val{}, fmt.Errorf("len of %s", x.Typ)
	case "ite":
		c, err := fc.eval(env, e.Args[0])
		if err != nil {
			return Val{}, err
		}
		a, err := fc.eval(env, e.Args[1])
		if err != nil {
			return Val{}, err
		}
		b, err := fc.eval(env, e.Args[2])
		if err != nil {
			return Val{}, err
		}
		if a.T == "nil" {
			a.T = fc.nilFor(b)
		}
		if b.T == "nil" {
			b.T = fc.nilFor(a)
		}
		t := a.Typ
		if t == nil {
			t = b.Typ
		}
		return Val{T: ite(c.T, a.T, b.T), Typ: t}, nil
	case "has":
		// has(m, k): key present in map
		m, err := fc.eval(env, e.Args[0])
		if err != nil {
			return Val{}, err
		}
		k, err := fc.eval(env, e.Args[1])
		if err != nil {
			return Val{}, err
		}
		mt, ok := m.Typ.Underlying().(*types.Map)
		if !ok {
			return Val{}, fmt.Errorf("has() on non-map")
		}
		return Val{T: fc.mapHas(env.cur, mt, m.T, k.T), Typ: boolT}, nil
	case "fresh":
		// fresh(p): p was allocated during this call
		x, err := fc.eval(env, e.Args[0])
		if err != nil {
			return Val{}, err
		}
		r := x.T
		if fc.vsort(x) == sSlice {
			r = "(sarr " + x.T + ")"
		}
		return Val{T: fmt.Sprintf("(> (rbase %s) %s)", r, env.pre.alloc()), Typ: boolT}, nil
	case "atloop":
		if env.loopEntry == nil {
			return Val{}, fmt.Errorf("atloop outside loop invariant")
		}
		n := *env
		n.cur = env.loopEntry
		return fc.eval(&n, e.Args[0])
	case "dyntype":
		// dyntype(x, "pkg.Type"): dynamic type test on an interface value is done via typeIs
		return Val{}, fmt.Errorf("dyntype unsupported")
	case "sprintf":
		// sprintf("format", args...): the same term the generator builds for fmt.Sprintf
		if len(e.Args) < 1 || e.Args[0].Op != "str" {
			return Val{}, fmt.Errorf("sprintf needs a literal format")
		}
		var elems []string
		for _, a := range e.Args[1:] {
			v, err := fc.eval(env, a)
			if err != nil {
				return Val{}, err
			}
			if v.Typ == nil {
				return Val{}, fmt.Errorf("sprintf argument needs a Go type")
			}
			elems = append(elems, fc.makeIface(env.cur, v, v.Typ))
		}
		r, ok := fc.sprintfTerm(e.Args[0].Name, elems)
		if !ok {
			return Val{}, fmt.Errorf("sprintf: verbs and arguments do not match")
		}
		return Val{T: r, Typ: strT}, nil
	case "sum":
		// sum(k, n, e): the sum of e for k in [0, n)
		if len(e.Args) != 3 || e.Args[0].Op != "ident" {
			return Val{}, fmt.Errorf("sum(k, n, expr)")
		}
		nv, err := fc.eval(env, e.Args[1])
		if err != nil {
			return Val{}, err
		}
		n := *env
		n.noInv = true
		n.rawLoads = true // the body's text identifies the sum function: no per-use constants
		n.vars = map[string]Val{}
		for k, v := range env.vars {
			n.vars[k] = v
		}
		bv := "sk_" + e.Args[0].Name
		n.vars[e.Args[0].Name] = Val{T: "(- " + bv + " 1)", Typ: intT}
		body, err := fc.eval(&n, e.Args[2])
		if err != nil {
			return Val{}, err
		}
		fname := fc.q.recFun(bv, body.T)
		return Val{T: app(fname, nv.T), Typ: intT}, nil
	case "unchangedOutside":
		// unchangedOutside(x, ...): every heap cell that existed at entry and that the function may write keeps its value
		// unless it lies in the allocation of one of the arguments (the backing array of a slice, the object a pointer
		// points into)
		var bases, mapBases []string
		for _, a := range e.Args {
			x, err := fc.eval(env, a)
			if err != nil {
				return Val{}, err
			}
			isMap := false
			if x.Typ != nil {
				_, isMap = x.Typ.Underlying().(*types.Map)
			}
			switch {
			case isMap:
				// a map object only has cells in the map arrays
				mapBases = append(mapBases, "(rbase "+x.T+")")
			case fc.vsort(x) == sSlice:
				bases = append(bases, "(rbase (sarr "+x.T+"))")
			case fc.vsort(x) == sRef:
				bases = append(bases, "(rbase "+x.T+")")
			default:
				return Val{}, fmt.Errorf("unchangedOutside() needs slices, pointers or maps")
			}
		}
		var cs []string
		arrs := env.frameArrs
		if arrs == nil {
			// inside the function under verification: every array whose current version differs from the entry version
			for a := range fc.g.arrSort {
				arrs = append(arrs, a)
			}
			sort.Strings(arrs)
		}
		for _, a := range arrs {
			if _, ok := fc.g.arrSort[a]; !ok {
				continue
			}
			o, n := env.pre.get(a), env.cur.get(a)
			if o == n || onlyFreshStores(n, o, env.pre) {
				continue
			}
			fc.q.fresh++
			rv := fmt.Sprintf("ur_%d__%s", fc.q.fresh, sanitize(a)) // the array's name travels in the bound variable (stable obligation labels)
			var out []string
			bs := bases
			if strings.HasPrefix(a, "M_") {
				bs = mapBases
			}
			for _, b := range bs {
				out = append(out, fmt.Sprintf("(not (= (rbase %s) %s))", rv, b))
			}
			out = append(out, fmt.Sprintf("(<= (rbase %s) %s)", rv, env.pre.alloc()))
			var pats []string
			for _, leaf := range fc.arrayLeaves(a, n) {
				pats = append(pats, fmt.Sprintf(":pattern ((select %s %s))", leaf, rv))
			}
			cs = append(cs, fmt.Sprintf("(forall ((%s Ref)) (! (=> %s (= (select %s %s) (select %s %s))) %s))", rv, and(out...), n, rv, o, rv, strings.Join(pats, " ")))
		}
		return Val{T: and(cs...), Typ: boolT}, nil
	case "backing":
		// backing(s): identity of the backing array of slice s (0 for a nil slice)
		x, err := fc.eval(env, e.Args[0])
		if err != nil {
			return Val{}, err
		}
		if fc.vsort(x) == sRef {
			// a pointer: identity of the allocation it points into
			return Val{T: "(rbase " + x.T + ")", Typ: intT}, nil
		}
		if fc.vsort(x) != sSlice {
			return Val{}, fmt.Errorf("backing() needs a slice or a pointer")
		}
		return Val{T: "(rbase (sarr " + x.T + "))", Typ: intT}, nil
	case "typeid":
		if len(e.Args) != 1 || e.Args[0].Op != "str" {
			return Val{}, fmt.Errorf("typeid(\"*pkg.Type\")")
		}
		t := fc.g.lookupType(e.Args[0].Name)
		if t == nil {
			return Val{}, fmt.Errorf("typeid: unknown type %s", e.Args[0].Name)
		}
		return Val{T: fmt.Sprint(fc.g.ti.typeID(t)), Typ: intT}, nil
	case "iref":
		// iref(x): the pointer held by interface value x
		x, err := fc.eval(env, e.Args[0])
		if err != nil {
			return Val{}, err
		}
		return Val{T: "(iref " + x.T + ")"}, nil
	case "patchBody":
		x, err := fc.eval(env, e.Args[0])
		if err != nil {
			return Val{}, err
		}
		return Val{T: "(istr " + x.T + ")", Typ: strT}, nil
	case "as":
		// as(x, "int32"): give an untyped term (ghost value) a Go basic type
		x, err := fc.eval(env, e.Args[0])
		if err != nil {
			return Val{}, err
		}
		if e.Args[1].Op != "str" {
			return Val{}, fmt.Errorf("as(x, \"type\")")
		}
		for _, bt := range types.Typ {
			if bt.Name() == e.Args[1].Name {
				x.Typ = bt
				return x, nil
			}
		}
		if t := fc.g.lookupType(e.Args[1].Name); t != nil {
			x.Typ = t
			return x, nil
		}
		return Val{}, fmt.Errorf("unknown type %s", e.Args[1].Name)
	case "isNotFound", "isConflict", "isAlreadyExists":
		// the k8s error predicates of errors.IsNotFound etc. (same uninterpreted predicates as the trusted rules)
		x, err := fc.eval(env, e.Args[0])
		if err != nil {
			return Val{}, err
		}
		f := fc.q.declareFun("errpred_I"+e.Name[1:], []string{sIface}, sBool)
		return Val{T: and(not(eq("(itag "+x.T+")", "0")), app(f, x.T)), Typ: boolT}, nil
	case "isNil":
		x, err := fc.eval(env, e.Args[0])
		if err != nil {
			return Val{}, err
		}
		return Val{T: fc.nilEq(x), Typ: boolT}, nil
	case "int":
		return fc.eval(env, e.Args[0])
	}
	sig, ok := builtinSpec[e.Name]
	if !ok {
		sig, ok = fc.g.specFuncs[e.Name]
	}
	if !ok {
		return Val{}, fmt.Errorf("unknown spec function %s", e.Name)
	}
	if len(sig.Args) != len(e.Args) {
		return Val{}, fmt.Errorf("%s expects %d arguments", e.Name, len(sig.Args))
	}
	var args []string
	for _, a := range e.Args {
		v, err := fc.eval(env, a)
		if err != nil {
			return Val{}, err
		}
		if v.T == "" {
			return Val{}, fmt.Errorf("%s: non-scalar argument", e.Name)
		}
		args = append(args, v.T)
	}
	if strings.HasPrefix(e.Name, "gv") {
		fc.q.declareFun(e.Name, sig.Args, sig.Res) // declared on demand (not part of the prelude)
	}
	t := app(e.Name, args...)
	if e.Name == "pct" {
		t = fc.pctTerm(args[0])
	}
	_ = ti
	return Val{T: t, Typ: sortToType(sig.Res)}, nil
}

// arrayTypingAxiom: every cell of the array versions occurring in the current term of arr holds a well-typed value
// (reference age bound, allocation typing, slice/interface shape). It is the per-read type invariant of loadAtInv,
// stated once for the whole array so that it also covers reads under quantifiers.
func (fc *FnCtx) arrayTypingAxiom(st *State, arr string, t types.Type) {
	srt := fc.g.ti.sortOf(t)
	if srt != sRef && srt != sSlice && srt != sIface {
		return
	}
	as, ok := fc.g.arrSort[arr]
	if !ok {
		return
	}
	bound := st.boundOf(arr)
	var visit func(term string, depth int)
	seen := map[string]bool{}
	visit = func(term string, depth int) {
		for _, c := range fc.symbolsOf(term) {
			if seen[c] || fc.q.declared[c] != as {
				continue
			}
			seen[c] = true
			if body, isDef := fc.q.defined[c]; isDef {
				if depth < 8 {
					visit(body, depth+1)
				}
				continue
			}
			key := c + "|" + bound
			if fc.q.typedArr[key] {
				continue
			}
			f := fc.typeInvFormula("(select "+c+" ar)", t, bound)
			if f == "true" {
				continue
			}
			fc.q.typedArr[key] = true
			fc.q.assert(fmt.Sprintf("(forall ((ar Ref)) (! %s :pattern ((select %s ar))))", f, c))
		}
	}
	visit(st.get(arr), 0)
}

// arrayLeaves: the terms to use in quantifier patterns for reads of the array term t of arr: t itself when it contains no
// defined (inlined) constant, otherwise the declared array constants it is built from (a select over a definition by
// cases or a lambda is rewritten by the solver and cannot serve as a pattern).
func (fc *FnCtx) arrayLeaves(arr, t string) []string {
	as := fc.g.arrSort[arr]
	hasDef := false
	var leaves []string
	seen := map[string]bool{}
	var visit func(term string, depth int)
	visit = func(term string, depth int) {
		for _, c := range fc.symbolsOf(term) {
			if seen[c] || fc.q.declared[c] != as {
				continue
			}
			seen[c] = true
			if body, isDef := fc.q.defined[c]; isDef {
				hasDef = true
				if depth < 8 {
					visit(body, depth+1)
				}
				continue
			}
			leaves = append(leaves, c)
		}
	}
	visit(t, 0)
	if !hasDef || len(leaves) == 0 {
		return []string{t}
	}
	return leaves
}

// onlyFreshStores: n is o with stores to cells of objects allocated after the state pre only (such stores never touch a
// cell that existed in pre).
func onlyFreshStores(n, o string, pre *State) bool {
	for n != o {
		if !strings.HasPrefix(n, "(store ") {
			return false
		}
		parts := splitTop(n[1 : len(n)-1])
		if len(parts) != 4 || !strings.HasPrefix(parts[2], "(mkref ") {
			return false
		}
		ip := splitTop(parts[2][1 : len(parts[2])-1])
		if len(ip) != 3 {
			return false
		}
		m := allocPlus.FindStringSubmatch(ip[1])
		if m == nil || m[1] != pre.allocB {
			return false
		}
		k, err := strconv.Atoi(m[2])
		if err != nil || k <= pre.allocK {
			return false
		}
		n = parts[1]
	}
	return true
}

// compileFrame turns an assumed frame clause unchangedOutside(args...) into the definition of the arrays themselves:
// for every array in arrs whose current version (in env.cur) differs from its version in env.pre, the current version is
// replaced by  lambda r. if r existed in pre and lies outside the argument allocations then pre[r] else cur[r].
// This says exactly what the clause says, without a quantifier for the solver to instantiate. It returns false (and
// changes nothing) when an argument is not of a form that can be evaluated independently of the arrays being defined.
func (fc *FnCtx) compileFrame(env *Env, e *Expr, arrs []string) bool {
	if e.Op != "call" || e.Name != "unchangedOutside" {
		return false
	}
	var bases []string
	var mapArgs []*Expr
	preEnv := *env
	preEnv.cur = env.pre
	for _, a := range e.Args {
		x, err := fc.eval(env, a)
		if err != nil {
			return false
		}
		if x.Typ != nil {
			if _, isMap := x.Typ.Underlying().(*types.Map); isMap {
				mapArgs = append(mapArgs, a)
				continue
			}
		}
		// the argument must not depend on the arrays that are about to be defined: it has to denote the same term
		// in the state before
		if y, err := fc.eval(&preEnv, a); err != nil || y.T != x.T {
			return false
		}
		switch fc.vsort(x) {
		case sSlice:
			bases = append(bases, "(rbase (sarr "+x.T+"))")
		case sRef:
			bases = append(bases, "(rbase "+x.T+")")
		default:
			return false
		}
	}
	define := func(a string, bs []string) {
		o, n := env.pre.get(a), env.cur.get(a)
		if o == n || onlyFreshStores(n, o, env.pre) {
			return
		}
		var out []string
		for _, b := range bs {
			out = append(out, fmt.Sprintf("(not (= (rbase yr) %s))", b))
		}
		out = append(out, fmt.Sprintf("(<= (rbase yr) %s)", env.pre.alloc()))
		nv := fc.q.define(a+"@fr", fc.g.arrSort[a], fmt.Sprintf("(lambda ((yr Ref)) (ite %s (select %s yr) (select %s yr)))", and(out...), o, n))
		env.cur.heap[a] = nv
		fc.usesLambda()
	}
	sort.Strings(arrs)
	for _, a := range arrs {
		if _, ok := fc.g.arrSort[a]; ok && !strings.HasPrefix(a, "M_") {
			define(a, bases)
		}
	}
	// map arguments are read from the arrays just defined
	var mapBases []string
	for _, a := range mapArgs {
		x, err := fc.eval(env, a)
		if err != nil || x.Typ == nil {
			return true // non-map arrays are done; the map arrays stay unconstrained (weaker, still sound)
		}
		if _, isMap := x.Typ.Underlying().(*types.Map); !isMap {
			return true
		}
		mapBases = append(mapBases, "(rbase "+x.T+")")
	}
	for _, a := range arrs {
		if _, ok := fc.g.arrSort[a]; ok && strings.HasPrefix(a, "M_") {
			define(a, mapBases)
		}
	}
	return true
}

// patternAlternatives: a trigger term that mentions a defined (inlined) array constant cannot be used as a pattern: the
// solver rewrites a select over a definition by cases or a lambda. The alternatives use the declared array constants
// the definition is built from instead (the terms the rewritten selects are made of).
func (fc *FnCtx) patternAlternatives(t string) []string {
	var defs []string
	for _, c := range fc.symbolsOf(t) {
		if _, ok := fc.q.defined[c]; ok && strings.HasPrefix(fc.q.declared[c], "(Array") {
			defs = append(defs, c)
		}
	}
	if len(defs) == 0 {
		return []string{t}
	}
	alts := []string{t}
	for _, d := range defs {
		leaves := fc.constLeaves(d)
		if len(leaves) == 0 || len(leaves) > 4 {
			return nil
		}
		var next []string
		for _, a := range alts {
			for _, l := range leaves {
				next = append(next, replaceSymbol(a, d, l))
			}
		}
		if len(next) > 8 {
			return nil
		}
		alts = next
	}
	return alts
}

// constLeaves: the declared (not defined) array constants of the same sort that the definition of d is built from.
func (fc *FnCtx) constLeaves(d string) []string {
	as := fc.q.declared[d]
	seen := map[string]bool{}
	var leaves []string
	var visit func(c string, depth int)
	visit = func(c string, depth int) {
		if seen[c] {
			return
		}
		seen[c] = true
		body, isDef := fc.q.defined[c]
		if !isDef {
			leaves = append(leaves, c)
			return
		}
		if depth > 8 {
			return
		}
		for _, x := range fc.symbolsOf(body) {
			if fc.q.declared[x] == as {
				visit(x, depth+1)
			}
		}
	}
	visit(d, 0)
	return leaves
}

func replaceSymbol(t, from, to string) string {
	var b strings.Builder
	for i := 0; i < len(t); {
		if strings.HasPrefix(t[i:], from) {
			end := i + len(from)
			startOK := i == 0 || t[i-1] == ' ' || t[i-1] == '('
			endOK := end == len(t) || t[end] == ' ' || t[end] == ')'
			if startOK && endOK {
				b.WriteString(to)
				i = end
				continue
			}
		}
		b.WriteByte(t[i])
		i++
	}
	return b.String()
}

// trackedFieldSort: name is "#<track>.argN" or "#<track>.retN" for a `track <static function> as <track>` directive.
func (g *Gen) trackedFieldSort(name string) (string, bool) {
	dot := strings.LastIndex(name, ".")
	if !strings.HasPrefix(name, "#") || dot < 0 {
		return "", false
	}
	tn, field := name[1:dot], name[dot+1:]
	for key, n := range g.tracked {
		fn := g.funcs[key]
		if n != tn || fn == nil {
			continue
		}
		var idx int
		if len(field) < 4 {
			return "", false
		}
		if _, err := fmt.Sscanf(field[3:], "%d", &idx); err != nil {
			return "", false
		}
		switch field[:3] {
		case "arg":
			if idx < len(fn.Params) {
				return g.ti.sortOf(fn.Params[idx].Type()), true
			}
		case "ret":
			if idx < fn.Signature.Results().Len() {
				return g.ti.sortOf(fn.Signature.Results().At(idx).Type()), true
			}
		}
	}
	return "", false
}
