package main

import (
	"fmt"
	"go/token"
	"go/types"
	"os"
	"sort"
	"strings"

	"golang.org/x/tools/go/ssa"
)

// Frame: what a call may modify.
type Frame struct {
	top        bool
	callsParam bool // invokes a function-typed parameter: the caller adds the argument closure's frame
	why        string
	paramDeps  map[*ssa.Parameter]bool
	paramParts map[*ssa.Parameter]*Frame // arrays reachable only through the given parameter of the function this frame belongs to
	arrs       map[string]bool
	facts      map[string]bool
}

func newFrame() *Frame {
	return &Frame{arrs: map[string]bool{}, facts: map[string]bool{}, paramDeps: map[*ssa.Parameter]bool{}}
}

func (f *Frame) union(o *Frame) bool {
	ch := false
	if o.top && !f.top {
		f.top = true
		f.why = o.why
		ch = true
	}
	if o.callsParam && !f.callsParam {
		f.callsParam = true
		ch = true
	}
	for a := range o.arrs {
		if !f.arrs[a] {
			f.arrs[a] = true
			ch = true
		}
	}
	for a := range o.facts {
		if !f.facts[a] {
			f.facts[a] = true
			ch = true
		}
	}
	for p := range o.paramDeps {
		if f.paramDeps == nil {
			f.paramDeps = map[*ssa.Parameter]bool{}
		}
		if !f.paramDeps[p] {
			f.paramDeps[p] = true
			ch = true
		}
	}
	for p, sub := range o.paramParts {
		if f.paramParts == nil {
			f.paramParts = map[*ssa.Parameter]*Frame{}
		}
		if f.paramParts[p] == nil {
			f.paramParts[p] = newFrame()
			ch = true
		}
		if f.paramParts[p].union(sub) {
			ch = true
		}
	}
	return ch
}

// pure external packages (no effect on the modelled heap)
var purePkgs = map[string]bool{
	"k8s.io/klog/v2": true, "fmt": true, "errors": true, "strings": true, "strconv": true, "math": true,
	"time": true, "reflect": true, "unicode": true, "unicode/utf8": true, "regexp": true, "bytes": true, "path": true, "path/filepath": true,
	"k8s.io/apimachinery/pkg/api/errors":  true,
	"k8s.io/apimachinery/pkg/util/intstr": true, "k8s.io/utils/integer": true, "k8s.io/utils/pointer": true,
	"k8s.io/apimachinery/pkg/labels": true, "k8s.io/apimachinery/pkg/api/equality": true, "k8s.io/apimachinery/third_party/forked/golang/reflect": true, "k8s.io/apimachinery/pkg/conversion": true,
	"k8s.io/apimachinery/pkg/util/validation/field": true, "k8s.io/apimachinery/pkg/util/validation": true,
	"k8s.io/apimachinery/pkg/types": true, "k8s.io/apimachinery/pkg/runtime/schema": true,
	"k8s.io/apimachinery/pkg/util/rand": true, "k8s.io/apimachinery/pkg/util/sets": true,
	"k8s.io/apimachinery/pkg/util/errors": true, "k8s.io/apimachinery/pkg/fields": true,
	"k8s.io/apimachinery/pkg/api/validation": true, "k8s.io/apimachinery/pkg/apis/meta/v1/validation": true,
	"k8s.io/apimachinery/pkg/api/meta": true,
	"encoding/base64":                  true, "hash/fnv": true, "crypto/sha256": true, "encoding/hex": true, "hash": true,
	"sigs.k8s.io/controller-runtime/pkg/controller/controllerutil": false,
	"github.com/davecgh/go-spew/spew":                              true,
	"github.com/yuin/gopher-lua":                                   true, // interpreter state only; data crosses as JSON strings
	"github.com/yuin/gopher-lua/parse":                             true,
	"k8s.io/apimachinery/pkg/util/json":                            false,
	"sigs.k8s.io/controller-runtime/pkg/log":                       true,
	"github.com/go-logr/logr":                                      true,
	"flag":                                                         true, "os": true, "sync": true, "sync/atomic": true, "context": true,
	"k8s.io/client-go/tools/record": true, "k8s.io/client-go/util/workqueue": true,
	"k8s.io/apimachinery/pkg/util/wait": false,
}

// pure external functions (by full name) from otherwise impure packages
var pureFuncs = map[string]bool{
	"encoding/json.Marshal": true, "encoding/json.MarshalIndent": true,
	"k8s.io/apimachinery/pkg/apis/meta/v1.Now": true, "k8s.io/apimachinery/pkg/apis/meta/v1.NewTime": true,
	"k8s.io/apimachinery/pkg/apis/meta/v1.GetControllerOf": true, "k8s.io/apimachinery/pkg/apis/meta/v1.GetControllerOfNoCopy": true,
	"k8s.io/apimachinery/pkg/apis/meta/v1.IsControlledBy": true, "k8s.io/apimachinery/pkg/apis/meta/v1.NewControllerRef": true,
	"k8s.io/apimachinery/pkg/apis/meta/v1.LabelSelectorAsSelector": true, "k8s.io/apimachinery/pkg/apis/meta/v1.HasAnnotation": true,
	"k8s.io/apimachinery/pkg/apis/meta/v1.FormatLabelSelector":                       true,
	"sigs.k8s.io/controller-runtime/pkg/controller/controllerutil.ContainsFinalizer": true,
	"sigs.k8s.io/controller-runtime/pkg/client.IgnoreNotFound":                       true,
	"sigs.k8s.io/controller-runtime/pkg/client.MergeFrom":                            true,
	"sigs.k8s.io/controller-runtime/pkg/client.MergeFromWithOptions":                 true,
	"sigs.k8s.io/controller-runtime/pkg/client.RawPatch":                             true,
	"sigs.k8s.io/controller-runtime/pkg/client.ObjectKeyFromObject":                  true,
	"sigs.k8s.io/controller-runtime/pkg/client.InNamespace":                          true,
	"k8s.io/apimachinery/pkg/runtime.DefaultUnstructuredConverter":                   true,
}

func isPureExternal(fn *ssa.Function) bool {
	if fn.Pkg == nil && fn.Object() != nil && fn.Object().Pkg() != nil {
		// method of external type
		p := fn.Object().Pkg().Path()
		if purePkgs[p] {
			return true
		}
	}
	var path string
	if fn.Object() != nil && fn.Object().Pkg() != nil {
		path = fn.Object().Pkg().Path()
	} else if fn.Pkg != nil {
		path = fn.Pkg.Pkg.Path()
	}
	if purePkgs[path] {
		return true
	}
	full := fn.String()
	if pureFuncs[full] {
		return true
	}
	// read-only accessor methods of API machinery types
	if strings.HasPrefix(path, "k8s.io/apimachinery/pkg/apis/meta/v1") || strings.HasPrefix(path, "k8s.io/api/") || strings.HasPrefix(path, "github.com/openkruise/kruise-api") || strings.HasPrefix(path, "sigs.k8s.io/gateway-api") {
		n := fn.Name()
		if strings.HasPrefix(n, "Get") || strings.HasPrefix(n, "Is") || n == "String" || n == "Equal" || n == "Before" || n == "After" || strings.HasPrefix(n, "DeepCopy") && !strings.HasPrefix(n, "DeepCopyInto") || n == "GroupVersionKind" || n == "Size" || n == "Unix" || n == "Sub" || n == "Add" {
			return true
		}
	}
	return false
}

func pointerLike(t types.Type) bool {
	switch u := t.Underlying().(type) {
	case *types.Basic:
		return u.Kind() == types.UnsafePointer
	case *types.Struct:
		if _, ok := opaqueSort(t); ok {
			return false
		}
		for i := 0; i < u.NumFields(); i++ {
			if pointerLike(u.Field(i).Type()) {
				return true
			}
		}
		return false
	case *types.Array:
		return pointerLike(u.Elem())
	}
	return true
}

// fnKey: canonical contract key of a function: "pkgpath.Func" or "pkgpath.(*T).M" / "pkgpath.(T).M".
func (g *Gen) fnName(fn *ssa.Function) string {
	if fn.Parent() != nil {
		// anonymous function: parent$N
		return g.fnName(fn.Parent()) + "$" + strings.TrimPrefix(fn.Name(), fn.Parent().Name()+"$")
	}
	pkg := ""
	if fn.Pkg != nil {
		pkg = fn.Pkg.Pkg.Path()
	} else if fn.Object() != nil && fn.Object().Pkg() != nil {
		pkg = fn.Object().Pkg().Path()
	}
	if recv := fn.Signature.Recv(); recv != nil {
		rt := recv.Type()
		star := ""
		if p, ok := rt.(*types.Pointer); ok {
			rt = p.Elem()
			star = "*"
		}
		name := types.TypeString(rt, func(*types.Package) string { return "" })
		return fmt.Sprintf("%s.(%s%s).%s", pkg, star, name, fn.Name())
	}
	return pkg + "." + fn.Name()
}

func (g *Gen) fnID(fn *ssa.Function) int {
	if id, ok := g.fnIDs[fn]; ok {
		return id
	}
	id := len(g.fnIDs) + 1
	g.fnIDs[fn] = id
	return id
}

func (g *Gen) globalRef(q *Query, gl *ssa.Global) string {
	name := "glob_" + sanitize(gl.Pkg.Pkg.Name()+"_"+gl.Name())
	if _, ok := q.declared[name]; !ok {
		q.declare(name, sRef)
		id, ok := g.globIDs[gl]
		if !ok {
			id = len(g.globIDs) + 1
			g.globIDs[gl] = id
		}
		q.assert(fmt.Sprintf("(= %s (mkref (- %d) 0))", name, id))
	}
	return name
}

// ifaceMethodKey: contract key for an interface method: "pkgpath.(Iface).M"
func ifaceMethodKey(recv types.Type, m *types.Func) string {
	if n, ok := recv.(*types.Named); ok && n.Obj().Pkg() != nil {
		return fmt.Sprintf("%s.(%s).%s", n.Obj().Pkg().Path(), n.Obj().Name(), m.Name())
	}
	return "(interface)." + m.Name()
}

// trackName: ghost call-log name for a call ("" when untracked).
func (g *Gen) trackName(c *ssa.CallCommon) string {
	if !c.IsInvoke() {
		if p := paramOfFnValue(c.Value); p != nil {
			if con := g.contracts[g.fnName(p.Parent())]; con != nil && con.Invokes == p.Name() {
				return p.Name()
			}
		}
	}
	if c.IsInvoke() {
		rt := c.Value.Type()
		k := ifaceMethodKey(rt, c.Method)
		if n, ok := g.tracked[k]; ok {
			return n
		}
		// API writes through the controller-runtime client are always logged
		if c.Method.Pkg() != nil && strings.HasSuffix(c.Method.Pkg().Path(), "controller-runtime/pkg/client") {
			switch c.Method.Name() {
			case "Create", "Update", "Patch", "Delete", "DeleteAllOf":
				rt := c.Value.Type().String()
				if strings.HasSuffix(rt, "StatusWriter") || strings.HasSuffix(rt, "SubResourceWriter") {
					return "Status" + c.Method.Name()
				}
				return c.Method.Name()
			case "Get", "List":
				return c.Method.Name()
			}
		}
		return ""
	}
	if fn := c.StaticCallee(); fn != nil {
		if n, ok := g.tracked[g.fnName(fn)]; ok {
			return n
		}
	}
	return ""
}

// paramOfFnValue: v is (a load of the local copy of) a function-typed parameter.
func paramOfFnValue(v ssa.Value) *ssa.Parameter {
	switch x := v.(type) {
	case *ssa.Parameter:
		if _, ok := x.Type().Underlying().(*types.Signature); ok {
			return x
		}
	case *ssa.UnOp:
		if a, ok := x.X.(*ssa.Alloc); ok && x.Op == token.MUL {
			var stores []*ssa.Store
			for _, r := range *a.Referrers() {
				if s, ok := r.(*ssa.Store); ok && s.Addr == a {
					stores = append(stores, s)
				}
			}
			if len(stores) == 1 {
				if p, ok := stores[0].Val.(*ssa.Parameter); ok {
					if _, isFn := p.Type().Underlying().(*types.Signature); isFn {
						return p
					}
				}
			}
		}
	}
	return nil
}

// ---------- frame inference ----------

func (g *Gen) storeFrame(fn *ssa.Function, addr ssa.Value, t types.Type, fr *Frame) {
	g.storeFrameX(fn, addr, t, fr, false)
}

// storeFrameX: forLoop asks for the arrays a store changes as seen by the next iteration of an enclosing loop (where
// objects allocated by this function do count); otherwise as seen by callers.
func (g *Gen) storeFrameX(fn *ssa.Function, addr ssa.Value, t types.Type, fr *Frame, forLoop bool) {
	// writes into objects freshly allocated by this function are invisible to callers
	root := addr
	for {
		switch x := root.(type) {
		case *ssa.FieldAddr:
			root = x.X
			continue
		case *ssa.IndexAddr:
			if _, isPtr := x.X.Type().Underlying().(*types.Pointer); isPtr {
				root = x.X
				continue
			}
		}
		break
	}
	if _, ok := root.(*ssa.Alloc); ok && !forLoop {
		return
	}
	ti := g.ti
	if isStructLike(t) {
		var ls []Leaf
		ti.leaves(t, 0, "", &ls)
		for _, l := range ls {
			g.regArr(l.arr, l.sort)
			fr.arrs[l.arr] = true
		}
		return
	}
	if fa, ok := addr.(*ssa.FieldAddr); ok {
		stt := fa.X.Type().Underlying().(*types.Pointer).Elem()
		arr := ti.fieldArray(stt, fa.Field)
		g.regArr(arr, ti.sortOf(t))
		fr.arrs[arr] = true
		return
	}
	arr := ti.cellArray(t)
	g.regArr(arr, ti.sortOf(t))
	fr.arrs[arr] = true
}

// instrFrame: frame of a single instruction (using current inferred frames of callees).
func (g *Gen) instrFrame(fn *ssa.Function, in ssa.Instruction, forCallers bool) *Frame {
	fr := newFrame()
	switch x := in.(type) {
	case *ssa.Store:
		if a, ok := x.Addr.(*ssa.Alloc); ok && !a.Heap {
			return fr
		}
		g.storeFrame(fn, x.Addr, x.Addr.Type().Underlying().(*types.Pointer).Elem(), fr)
	case *ssa.MapUpdate:
		mt := x.Map.Type().Underlying().(*types.Map)
		if _, ok := x.Map.(*ssa.MakeMap); ok {
			return fr
		}
		fc := &FnCtx{g: g}
		h, v, l := fc.mapArrays(mt)
		fr.arrs[h], fr.arrs[v], fr.arrs[l] = true, true, true
	case ssa.CallInstruction:
		fr.union(g.callFrame(x.Common(), forCallers))
	}
	return fr
}

func (g *Gen) callFrame(c *ssa.CallCommon, forCallers bool) *Frame {
	fr := newFrame()
	if c.IsInvoke() {
		k := ifaceMethodKey(c.Value.Type(), c.Method)
		if con := g.contracts[k]; con != nil && con.Modifies != nil {
			fr.union(con.frame(g))
			return fr
		}
		if g.pureIfaceMethod(c) {
			return fr
		}
		if g.inModule(c.Method.Pkg()) {
			if it, ok := c.Value.Type().Underlying().(*types.Interface); ok {
				impls := g.implementations(it, c.Method)
				if len(impls) > 0 {
					for _, f := range impls {
						sub := newFrame()
						sub.union(g.funcFrame(f))
						g.resolveDeps(sub, f, c.Args, true, forCallers)
						g.resolveParts(sub, f, c.Args, true, forCallers)
						fr.union(sub)
					}
					if fr.callsParam {
						fr.callsParam = false
						for _, a := range c.Args {
							if _, isFn := a.Type().Underlying().(*types.Signature); isFn {
								fr.union(g.fnValueFrame(a))
							}
						}
					}
					return fr
				}
			}
			fr.top = true
			return fr
		}
		fr.union(g.argsReach(c.Args, nil, forCallers))
		return fr
	}
	switch v := c.Value.(type) {
	case *ssa.Builtin:
		switch v.Name() {
		case "delete":
			mt := c.Args[0].Type().Underlying().(*types.Map)
			fc := &FnCtx{g: g}
			h, vv, l := fc.mapArrays(mt)
			fr.arrs[h], fr.arrs[vv], fr.arrs[l] = true, true, true
		case "append":
			// in place (len+k <= cap) the new elements are written behind the slice in its own backing array: visible to
			// whoever holds a longer slice of that array, unless the slice was made by this function
			if st, ok := c.Args[0].Type().Underlying().(*types.Slice); ok && !(forCallers && g.isFreshValue(c.Args[0], 0)) {
				var ls []Leaf
				g.ti.leaves(st.Elem(), 0, "", &ls)
				for _, l := range ls {
					g.regArr(l.arr, l.sort)
					fr.arrs[l.arr] = true
				}
				if len(ls) == 0 || !isStructLike(st.Elem()) {
					fr.arrs[g.regArr(g.ti.cellArray(st.Elem()), g.ti.sortOf(st.Elem()))] = true
				}
			}
		case "copy":
			if st, ok := c.Args[0].Type().Underlying().(*types.Slice); ok {
				var ls []Leaf
				g.ti.leaves(st.Elem(), 0, "", &ls)
				for _, l := range ls {
					g.regArr(l.arr, l.sort)
					fr.arrs[l.arr] = true
				}
			}
		}
		return fr
	case *ssa.Function:
		if len(v.Blocks) == 0 && (v.String() == "sort.Sort" || v.String() == "sort.Stable") && len(c.Args) == 1 {
			if mi, ok := c.Args[0].(*ssa.MakeInterface); ok {
				if stt, ok := mi.X.Type().Underlying().(*types.Slice); ok && !isStructLike(stt.Elem()) {
					if !(forCallers && g.isFreshValue(mi.X, 0)) {
						fr.arrs[g.regArr(g.ti.cellArray(stt.Elem()), g.ti.sortOf(stt.Elem()))] = true
					}
					return fr
				}
			}
		}
		if len(v.Blocks) == 0 {
			if isPureExternal(v) || g.trusted[v.String()] != nil && g.trusted[v.String()].pure {
				return fr
			}
			if con := g.contracts[g.fnName(v)]; con != nil && con.Modifies != nil {
				return con.frame(g)
			}
			return g.argsReach(c.Args, nil, forCallers)
		}
		fr.union(g.funcFrame(v))
		if con := g.contracts[g.fnName(v)]; con != nil {
			for _, ef := range con.Effects {
				fr.facts[ef.Var] = true
			}
			for _, se := range con.Sets {
				fr.facts[se.Var] = true
			}
		}
		g.resolveDeps(fr, v, c.Args, false, forCallers)
		g.resolveParts(fr, v, c.Args, false, forCallers)
		if fr.callsParam {
			fr.callsParam = false
			for _, a := range c.Args {
				if _, isFn := a.Type().Underlying().(*types.Signature); isFn {
					fr.union(g.fnValueFrame(a))
				}
			}
		}
		return fr
	case *ssa.MakeClosure:
		fr.union(g.funcFrame(v.Fn.(*ssa.Function)))
		return fr
	}
	fr.union(g.fnValueFrame(c.Value))
	return fr
}

func (g *Gen) pureIfaceMethod(c *ssa.CallCommon) bool {
	n := c.Method.Name()
	if n == "Error" || n == "String" {
		return true
	}
	rt := c.Value.Type().String()
	if strings.HasSuffix(rt, "client.Object") || strings.HasSuffix(rt, "metav1.Object") || strings.HasSuffix(rt, "v1.Object") || strings.HasSuffix(rt, "runtime.Object") {
		if strings.HasPrefix(n, "Get") || strings.HasPrefix(n, "DeepCopy") {
			return true
		}
	}
	if strings.HasSuffix(rt, "record.EventRecorder") || strings.HasSuffix(rt, "logr.Logger") {
		return true
	}
	if strings.HasSuffix(rt, "labels.Selector") || strings.HasSuffix(rt, "fields.Selector") {
		return true
	}
	if strings.HasSuffix(rt, "client.Client") || strings.HasSuffix(rt, "client.Reader") || strings.HasSuffix(rt, "client.Writer") {
		if n == "Status" || n == "Scheme" || n == "RESTMapper" {
			return true
		}
	}
	return false
}

func (g *Gen) funcFrame(fn *ssa.Function) *Frame {
	key := g.fnName(fn)
	if con := g.contracts[key]; con != nil && con.Modifies != nil {
		return con.frame(g)
	}
	if fr, ok := g.frames[fn]; ok {
		return fr
	}
	if len(fn.Blocks) == 0 {
		fr := newFrame()
		if isPureExternal(fn) || g.trusted[fn.String()] != nil && g.trusted[fn.String()].pure {
			g.frames[fn] = fr
			return fr
		}
		pl := false
		for _, p := range fn.Params {
			if pointerLike(p.Type()) {
				pl = true
			}
		}
		sig := fn.Signature
		for i := 0; i < sig.Params().Len(); i++ {
			if pointerLike(sig.Params().At(i).Type()) {
				pl = true
			}
		}
		if sig.Recv() != nil && pointerLike(sig.Recv().Type()) {
			pl = true
		}
		fr.top = pl
		g.frames[fn] = fr
		return fr
	}
	// in-module function: optimistic start, fixpoint in inferFrames
	fr := newFrame()
	g.frames[fn] = fr
	g.frameWork = append(g.frameWork, fn)
	return fr
}

func (g *Gen) computeFrame(fn *ssa.Function) bool {
	fr := g.frames[fn]
	changed := false
	for _, b := range fn.Blocks {
		for _, in := range b.Instrs {
			wasTop := fr.top
			if fr.union(g.instrFrame(fn, in, true)) {
				changed = true
			}
			if fr.top && !wasTop {
				w := fr.why
				if ci, ok := in.(ssa.CallInstruction); ok {
					fr.why = calleeShort(ci.Common()) + " <- " + w
				}
				if len(fr.why) > 300 {
					fr.why = fr.why[:300]
				}
			}
			if mc, ok := in.(*ssa.MakeClosure); ok {
				// a closure created here may be invoked by callees: be conservative only when it is called directly (handled at call)
				_ = mc
			}
		}
	}
	return changed
}

func (g *Gen) inferFrames(roots []*ssa.Function) {
	for _, r := range roots {
		g.funcFrame(r)
	}
	done := map[*ssa.Function]bool{}
	for {
		// discover transitively
		for len(g.frameWork) > 0 {
			fn := g.frameWork[0]
			g.frameWork = g.frameWork[1:]
			if done[fn] {
				continue
			}
			done[fn] = true
			g.computeFrame(fn)
		}
		changed := false
		var fns []*ssa.Function
		for fn := range done {
			fns = append(fns, fn)
		}
		sort.Slice(fns, func(i, j int) bool { return fns[i].String() < fns[j].String() })
		for _, fn := range fns {
			if g.computeFrame(fn) {
				changed = true
			}
		}
		if !changed && len(g.frameWork) == 0 {
			break
		}
	}
}

// ---------- calls ----------

func (fc *FnCtx) execCall(st *State, in ssa.Instruction, c *ssa.CallCommon, resT types.Type) Val {
	g := fc.g
	if resT == nil {
		resT = c.Signature().Results()
		if c.Signature().Results().Len() == 1 {
			resT = c.Signature().Results().At(0).Type()
		}
	}
	var args []Val
	for _, a := range c.Args {
		args = append(args, fc.val(st, a))
	}
	// builtins
	if b, ok := c.Value.(*ssa.Builtin); ok {
		return fc.execBuiltin(st, in, b, c, args, resT)
	}
	track := g.trackName(c)
	var res Val
	handled := false
	preSt := st.clone()
	var callee *ssa.Function
	var con *Contract
	var key string
	if c.IsInvoke() && c.Method.Name() == "Name" && strings.HasSuffix(c.Value.Type().String(), "reflect.Type") {
		// reflect.TypeOf(T{}).Name() for a statically known named type: the literal type name
		if tc, ok := c.Value.(*ssa.Call); ok {
			if f := tc.Call.StaticCallee(); f != nil && f.String() == "reflect.TypeOf" && len(tc.Call.Args) == 1 {
				if mi, ok := tc.Call.Args[0].(*ssa.MakeInterface); ok {
					if nt, ok := types.Unalias(mi.X.Type()).(*types.Named); ok {
						fc.useTrusted("reflect.TypeOf(T{}).Name() is the literal name of the static type T")
						return Val{T: fc.q.lit(nt.Obj().Name())}
					}
				}
			}
		}
	}
	if c.IsInvoke() {
		recv := fc.val(st, c.Value)
		if fc.safetyOn {
			fc.oblige(st, "safe-nil", "invoke "+shortExpr(c.Value)+"."+c.Method.Name(), not(eq("(itag "+recv.T+")", "0")), in.Pos(), nil)
		}
		fc.q.assert(implies(st.reach, not(eq("(itag "+recv.T+")", "0"))))
		key = ifaceMethodKey(c.Value.Type(), c.Method)
		con = g.contracts[key]
		args = append([]Val{recv}, args...)
	} else {
		switch v := c.Value.(type) {
		case *ssa.Function:
			callee = v
		case *ssa.MakeClosure:
			callee = v.Fn.(*ssa.Function)
		}
		if callee != nil {
			key = g.fnName(callee)
			con = g.contracts[key]
			if tr := g.trusted[callee.String()]; tr != nil && tr.rule != nil {
				if r, ok := tr.rule(fc, st, in, c, args, resT); ok {
					res = r
					handled = true
				}
			}
			if !handled && callee.Name() == "DeepCopy" && callee.Signature.Recv() != nil && g.contracts[key] == nil {
				if r, ok := deepCopyRule(fc, st, in, c, args, resT); ok {
					res = r
					handled = true
				}
			}
			if !handled && callee.Signature.Recv() != nil {
				// method call on pointer receiver that is dereferenced: nil receiver is the callee's problem (its own safety), not checked here
			}
		}
	}
	if !handled && con != nil && (len(con.Ensures) > 0 || len(con.Requires) > 0 || con.Modifies != nil || con.Pure || len(con.Sets) > 0 || len(con.Effects) > 0) {
		res = fc.applyContract(st, in, c, callee, con, key, args, resT)
		handled = true
	}
	if !handled && c.IsInvoke() && con == nil && g.inModule(c.Method.Pkg()) {
		if r, ok := fc.applyDispatch(st, in, c, args, resT); ok {
			res = r
			handled = true
		}
	}
	if !handled && callee != nil && con == nil && fc.canInline(callee) {
		if r, ok := fc.inlineCall(st, callee, args); ok {
			res = r
			handled = true
		}
	}
	if !handled {
		// default: havoc frame, fresh results
		if c.IsInvoke() || callee != nil {
			base, parts := g.callFrameParts(c)
			fc.applyCallFrame(st, c, base, parts)
		} else if pp := paramOfFnValue(c.Value); pp != nil && fc.con != nil && fc.inlineDepth == 0 && containsStr(fc.con.PureFns, pp.Name()) {
			// a call of a parameter declared `purefn`: no effect on memory (the callers establish it)
		} else {
			fc.abstract("call through function value")
			fc.applyFrame(st, &Frame{top: true})
		}
		res = fc.freshVal(st, resT, "call_"+sanitize(calleeShort(c)))
		if c.IsInvoke() && c.Method.Name() == "GetObjectKind" && res.T != "" {
			fc.useTrusted("runtime.Object.GetObjectKind() returns a non-nil ObjectKind (every API type returns its embedded TypeMeta, Unstructured returns itself)")
			fc.q.assert(implies(st.reach, not(eq("(itag "+res.T+")", "0"))))
		}
		if callee != nil && len(callee.Blocks) > 0 {
			fc.g.uncontracted[key] = true
		}
	}
	fc.markYoungResults(st, preSt, c, args, res, resT)
	if con != nil && len(con.Effects) > 0 {
		saved := map[string]string{}
		for _, ef := range con.Effects {
			saved[ef.Var] = fc.gvarGet(preSt, ef.Var)
		}
		fc.applyEffects(st, preSt, c, callee, con, args, saved, res)
	}
	if track != "" {
		fc.logCall(st, track, args, res)
	}
	return res
}

// applyEffects: ghost accumulator updates declared on the callee (evaluated over its parameters in the pre-call state).
func (fc *FnCtx) applyEffects(st *State, pre *State, c *ssa.CallCommon, callee *ssa.Function, con *Contract, args []Val, saved map[string]string, res Val) {
	if con == nil || len(con.Effects) == 0 {
		return
	}
	names, ptypes := fc.g.paramNames(c, callee)
	env := &Env{fc: fc, vars: map[string]Val{}, pre: pre, cur: pre, pkg: con.Pkg}
	for i, n := range names {
		if i < len(args) {
			v := args[i]
			v.Typ = ptypes[i]
			env.vars[n] = v
		}
	}
	if res.Tup != nil {
		env.results = res.Tup
	} else if res.T != "" || res.SV != nil {
		env.results = []Val{res}
	}
	sig := c.Signature()
	for i := range env.results {
		if i < sig.Results().Len() {
			env.results[i].Typ = sig.Results().At(i).Type()
		}
	}
	for _, ef := range con.Effects {
		v, err := fc.eval(env, ef.Expr)
		if err != nil {
			fc.err = fmt.Errorf("%s: effect %q: %v", fc.name, ef.Text, err)
			return
		}
		old := saved[ef.Var]
		st.ghost[ef.Var] = fmt.Sprintf("(+ %s %s)", old, v.T)
	}
}

func calleeShort(c *ssa.CallCommon) string {
	if c.IsInvoke() {
		return c.Method.Name()
	}
	if f := c.StaticCallee(); f != nil {
		return f.Name()
	}
	return "fnval"
}

// callFrameParts: the frame of a call split into an unrestricted part and parts that exist only through one argument.
func (g *Gen) callFrameParts(c *ssa.CallCommon) (*Frame, []argPart) {
	var parts []argPart
	g.partCollector = &parts
	base := g.callFrame(c, false)
	g.partCollector = nil
	return base, parts
}

// applyCallFrame: havoc for a call; argument-relative parts are restricted to memory younger than the argument's bound.
func (fc *FnCtx) applyCallFrame(st *State, c *ssa.CallCommon, base *Frame, parts []argPart) {
	merged := newFrame()
	merged.union(base)
	type restricted struct {
		arrs []string
		T    string
	}
	var rs []restricted
	for _, p := range parts {
		pf := fc.g.closeDeps(p.fr)
		v := fc.val(st, p.arg)
		b := ""
		if !pf.top && v.SV == nil {
			b = fc.youngBound(st, v)
		}
		if b == "" {
			merged.union(pf)
			continue
		}
		var as []string
		for a := range pf.arrs {
			as = append(as, a)
		}
		rs = append(rs, restricted{as, b})
		for f := range pf.facts {
			merged.facts[f] = true
		}
	}
	merged = fc.g.closeDeps(merged)
	decoded := false
	if c.IsInvoke() && (c.Method.Name() == "Get" || c.Method.Name() == "List") {
		rt := c.Value.Type().String()
		if strings.HasSuffix(rt, "client.Client") || strings.HasSuffix(rt, "client.Reader") {
			decoded = true
			fc.useTrusted("client Get/List fill the out object with freshly decoded or deep-copied data: every reference stored by the call points to memory allocated during the call (no sharing with objects the caller already holds)")
		}
	}
	for _, r := range rs {
		var as []string
		for _, a := range r.arrs {
			if !merged.arrs[a] && !merged.top {
				as = append(as, a)
			}
		}
		st.havocArrsYoung(as, r.T, decoded)
	}
	fc.applyFrame(st, merged)
}

func (fc *FnCtx) applyFrame(st *State, fr *Frame) {
	fr = fc.g.closeDeps(fr)
	if fr.top {
		st.havocAll()
	} else if len(fr.arrs) > 0 {
		var as []string
		for a := range fr.arrs {
			as = append(as, a)
		}
		st.havocArrs(as)
	}
	if fr.top || len(fr.arrs) > 0 {
		// callee may allocate
		na := fc.q.freshConst("alloc", sInt)
		fc.q.assert(implies(st.reach, fmt.Sprintf("(>= %s %s)", na, st.alloc())))
		st.allocB, st.allocK = na, 0
	} else {
		na := fc.q.freshConst("alloc", sInt)
		fc.q.assert(implies(st.reach, fmt.Sprintf("(>= %s %s)", na, st.alloc())))
		st.allocB, st.allocK = na, 0
	}
	st.fixBounds()
	for f := range fr.facts {
		if strings.HasPrefix(f, "$") {
			fc.gvarGet(st, f)
			st.ghost[f] = fc.q.freshConst("gv_"+sanitize(f[1:]), sInt)
			continue
		}
		k := "fact:" + f
		fc.ghostSort[k] = sBool
		if _, ok := fc.ghostInit[k]; !ok {
			fc.ghostInit[k] = fc.factInit(f)
		}
		st.ghost[k] = fc.q.freshConst("fact_"+f, sBool)
	}
}

func (fc *FnCtx) factInit(f string) string {
	n := "fact0_" + f
	fc.q.declare(n, sBool)
	return n
}

func (fc *FnCtx) logCall(st *State, name string, args []Val, res Val) {
	k := "#" + name
	old := st.ghostGet(k, sInt, "0")
	st.ghost[k] = fmt.Sprintf("(+ %s 1)", old)
	put := func(suffix, sortv, term string) {
		kk := k + "." + suffix
		fc.ghostSort[kk] = sortv
		if _, ok := fc.ghostInit[kk]; !ok {
			fc.ghostInit[kk] = zeroOf(sortv)
		}
		st.ghost[kk] = term
	}
	rs := res.Tup
	if rs == nil && (res.T != "" || res.SV != nil) {
		rs = []Val{res}
	}
	for i, r := range rs {
		if r.T != "" && r.Arr == "" {
			put(fmt.Sprintf("ret%d", i), fc.sortOfTerm(r, nil), r.T)
		}
	}
	for i, a := range args {
		if a.T != "" && a.Arr == "" && a.Local == nil {
			put(fmt.Sprintf("arg%d", i), fc.sortOfTerm(a, nil), a.T)
		}
	}
}

func (fc *FnCtx) sortOfTerm(v Val, t types.Type) string {
	if t != nil {
		return fc.g.ti.sortOf(t)
	}
	if v.Typ != nil {
		return fc.g.ti.sortOf(v.Typ)
	}
	return guessSort(fc.q, v.T)
}

func guessSort(q *Query, t string) string {
	switch {
	case t == "true" || t == "false" || strings.HasPrefix(t, "(not ") || strings.HasPrefix(t, "(and ") || strings.HasPrefix(t, "(or ") || strings.HasPrefix(t, "(= ") || strings.HasPrefix(t, "(< ") || strings.HasPrefix(t, "(<= ") || strings.HasPrefix(t, "(> ") || strings.HasPrefix(t, "(>= ") || strings.HasPrefix(t, "(=> "):
		return sBool
	case strings.HasPrefix(t, "(mkref") || t == "nilref" || strings.HasPrefix(t, "(iref") || strings.HasPrefix(t, "(sarr"):
		return sRef
	case strings.HasPrefix(t, "(mkslice") || t == "nilslice":
		return sSlice
	case strings.HasPrefix(t, "(mkiface"):
		return sIface
	case strings.HasPrefix(t, "(mkfn"):
		return sFn
	case strings.HasPrefix(t, "lit_") || strings.HasPrefix(t, "(pct") || strings.HasPrefix(t, "(strcat") || strings.HasPrefix(t, "(itoa") || strings.HasPrefix(t, "(istr"):
		return sStr
	}
	if s, ok := q.declared[t]; ok {
		return s
	}
	if strings.HasPrefix(t, "(ite ") {
		// sort of the then-branch
		parts := splitTop(t[1 : len(t)-1])
		if len(parts) == 4 {
			return guessSort(q, parts[2])
		}
	}
	return sInt
}

func splitTop(s string) []string {
	var out []string
	d, start := 0, -1
	for i := 0; i < len(s); i++ {
		ch := s[i]
		if ch == ' ' && d == 0 {
			if start >= 0 {
				out = append(out, s[start:i])
				start = -1
			}
			continue
		}
		if start < 0 {
			start = i
		}
		if ch == '(' {
			d++
		} else if ch == ')' {
			d--
		}
	}
	if start >= 0 {
		out = append(out, s[start:])
	}
	return out
}

// applyContract: assert requires, havoc frame, assume ensures.
func (fc *FnCtx) applyContract(st *State, in ssa.Instruction, c *ssa.CallCommon, callee *ssa.Function, con *Contract, key string, args []Val, resT types.Type) Val {
	g := fc.g
	names, ptypes := g.paramNames(c, callee)
	pre := st.clone()
	env := &Env{fc: fc, vars: map[string]Val{}, pre: pre, cur: pre, pkg: con.Pkg}
	for i, n := range names {
		if i < len(args) {
			v := args[i]
			v.Typ = ptypes[i]
			env.vars[n] = v
		}
	}
	short := key[strings.LastIndex(key, "/")+1:]
	for _, r := range con.Requires {
		t, err := fc.evalBool(env, r.Expr)
		if err != nil {
			fc.err = fmt.Errorf("%s: call %s requires %q: %v", fc.name, key, r.Text, err)
			return fc.freshVal(st, resT, "call")
		}
		fc.oblige(st, "pre@"+short, r.Label, t, in.Pos(), fc.callerProps(r.Props))
		fc.q.assert(implies(st.reach, t))
	}
	// purefn parameters: the function value passed must not write memory (decided on its inferred frame)
	for _, pf := range con.PureFns {
		for i, n := range names {
			if n != pf || i >= len(c.Args) {
				continue
			}
			fr := g.closeDeps(g.fnValueFrame(c.Args[i]))
			ok := "true"
			if fr.top || len(fr.arrs) > 0 || len(fr.facts) > 0 {
				ok = "false"
			}
			fc.oblige(st, "pre@"+short, "purefn_"+pf, ok, in.Pos(), fc.callerProps(nil))
		}
	}
	// higher-order contract: the callee invokes its function-typed parameter exactly once, first.
	var override map[string]string
	if con.Invokes != "" {
		for i, n := range names {
			if n != con.Invokes || i >= len(c.Args) && !(callee != nil && i < len(callee.Params)) {
				continue
			}
			argIdx := i
			if argIdx >= len(c.Args) {
				break
			}
			var cfn *ssa.Function
			switch av := c.Args[argIdx].(type) {
			case *ssa.MakeClosure:
				cfn = av.Fn.(*ssa.Function)
			case *ssa.Function:
				cfn = av
			}
			if cfn == nil {
				// delegation: our own function-typed parameter is handed on; its (unknown) results become our log entry
				if pp := paramOfFnValue(c.Args[argIdx]); pp != nil {
					psig := pp.Type().Underlying().(*types.Signature)
					var prt types.Type = psig.Results()
					if psig.Results().Len() == 1 {
						prt = psig.Results().At(0).Type()
					}
					st.havocAll()
					pres := fc.freshVal(st, prt, "delegated_"+pp.Name())
					fc.logCall(st, pp.Name(), nil, pres)
					override = map[string]string{"#" + n: "1"}
					rs := pres.Tup
					if rs == nil && pres.T != "" {
						rs = []Val{pres}
					}
					for ri, r := range rs {
						if r.T != "" {
							override[fmt.Sprintf("#%s.ret%d", n, ri)] = r.T
						}
					}
				}
				break
			}
			cres := fc.invokeClosure(st, in, cfn, c.Args[argIdx])
			override = map[string]string{"#" + n: "1"}
			rs := cres.Tup
			if rs == nil && cres.T != "" {
				rs = []Val{cres}
			}
			for ri, r := range rs {
				if r.T != "" {
					override[fmt.Sprintf("#%s.ret%d", n, ri)] = r.T
				}
			}
		}
	}
	var fr *Frame
	if con.Modifies != nil || con.Pure {
		fr = con.frame(g)
	} else {
		fr = g.callFrame(c, false)
	}
	if override != nil {
		// the closure's own effects have been applied above; what remains is the callee's own frame
		fr = g.ownFrameWithoutParamCalls(callee, fr)
	}
	if con.Modifies == nil && !con.Pure && override == nil {
		base, parts := g.callFrameParts(c)
		fc.applyCallFrame(st, c, base, parts)
	} else {
		fc.applyFrame(st, fr)
	}
	res := fc.freshVal(st, resT, "ret_"+sanitize(calleeShort(c)))
	post := &Env{fc: fc, vars: env.vars, pre: pre, cur: st, pkg: con.Pkg, ghostOverride: override}
	for a := range fc.g.closeDeps(fr).arrs {
		post.frameArrs = append(post.frameArrs, a)
	}
	sort.Strings(post.frameArrs)
	if res.Tup != nil {
		post.results = res.Tup
	} else if res.T != "" || res.SV != nil {
		post.results = []Val{res}
	}
	sig := c.Signature()
	for i := range post.results {
		if i < sig.Results().Len() {
			post.results[i].Typ = sig.Results().At(i).Type()
			if n := sig.Results().At(i).Name(); n != "" && n != "_" {
				post.vars[n] = post.results[i]
			}
		}
	}
	for _, se := range con.Sets {
		t, err := fc.evalBool(post, se.Expr)
		if err != nil {
			fc.err = fmt.Errorf("%s: call %s sets %q: %v", fc.name, key, se.Text, err)
			return res
		}
		k := "fact:" + se.Var
		fc.ghostSort[k] = sBool
		if _, ok := fc.ghostInit[k]; !ok {
			fc.ghostInit[k] = fc.factInit(se.Var)
		}
		st.ghost[k] = t
	}
	// a frame clause of the callee is compiled into the havoc itself (no quantified assumption)
	compiled := map[*Clause]bool{}
	for _, e := range con.Ensures {
		if e.Expr.Op == "call" && e.Expr.Name == "unchangedOutside" && os.Getenv("GOVC_NOFRAMECOMPILE") == "" {
			if fc.compileFrame(post, e.Expr, append([]string(nil), post.frameArrs...)) {
				compiled[e] = true
			}
			break
		}
	}
	for _, e := range con.Ensures {
		if compiled[e] {
			continue
		}
		if fc.g.hasGhostDeep(e.Expr, con.PkgPath, 0) && !(override != nil && ghostsWithin(e.Expr, "#"+con.Invokes)) {
			continue // speaks about the callee's own call log
		}
		t, err := fc.evalBool(post, e.Expr)
		if err != nil {
			fc.err = fmt.Errorf("%s: call %s ensures %q: %v", fc.name, key, e.Text, err)
			return res
		}
		if when, isFinding := fc.g.findingObls[key+"#post:"+e.Label]; isFinding {
			// recorded as a known finding: refuted on the callee inside the region `when`;
			// callers may only assume it outside that region (that part is proved by the callee's twin obligation)
			we, err := parseExpr(when)
			if err != nil {
				continue
			}
			w, err := fc.evalBool(env, we)
			if err != nil {
				continue
			}
			fc.q.assert(implies(and(st.reach, not(w)), t))
			continue
		}
		fc.q.assert(implies(st.reach, t))
	}
	return res
}

// paramNames: receiver + parameter names and types for a call.
func (g *Gen) paramNames(c *ssa.CallCommon, callee *ssa.Function) ([]string, []types.Type) {
	var names []string
	var ts []types.Type
	if callee != nil && len(callee.Params) > 0 || callee != nil && callee.Signature.Params().Len() == 0 {
		for _, p := range callee.Params {
			names = append(names, p.Name())
			ts = append(ts, p.Type())
		}
		if len(callee.Params) == 0 && callee.Signature.Recv() != nil {
			// external method without body: synthesise
			names = append(names, "recv")
			ts = append(ts, callee.Signature.Recv().Type())
		}
		if len(callee.Params) == 0 {
			sig := callee.Signature
			for i := 0; i < sig.Params().Len(); i++ {
				names = append(names, sig.Params().At(i).Name())
				ts = append(ts, sig.Params().At(i).Type())
			}
		}
		return names, ts
	}
	sig := c.Signature()
	if c.IsInvoke() {
		names = append(names, "recv")
		ts = append(ts, c.Value.Type())
	} else if sig.Recv() != nil {
		names = append(names, "recv")
		ts = append(ts, sig.Recv().Type())
	}
	for i := 0; i < sig.Params().Len(); i++ {
		n := sig.Params().At(i).Name()
		if n == "" {
			n = fmt.Sprintf("arg%d", i)
		}
		names = append(names, n)
		ts = append(ts, sig.Params().At(i).Type())
	}
	return names, ts
}

func (fc *FnCtx) execBuiltin(st *State, in ssa.Instruction, b *ssa.Builtin, c *ssa.CallCommon, args []Val, resT types.Type) Val {
	ti := fc.g.ti
	switch b.Name() {
	case "len":
		switch t := c.Args[0].Type().Underlying().(type) {
		case *types.Slice:
			return Val{T: "(slen " + args[0].T + ")"}
		case *types.Basic:
			s := args[0].T
			fc.q.assert(fmt.Sprintf("(and (>= (strlen %s) 0) (= (= (strlen %s) 0) (= %s lit_empty)))", s, s, s))
			return Val{T: "(strlen " + s + ")"}
		case *types.Map:
			return Val{T: fc.mapLen(st, t, args[0].T)}
		case *types.Array:
			return Val{T: fmt.Sprint(t.Len())}
		case *types.Pointer:
			return Val{T: fmt.Sprint(t.Elem().Underlying().(*types.Array).Len())}
		}
	case "cap":
		if _, ok := c.Args[0].Type().Underlying().(*types.Slice); ok {
			return Val{T: "(scap " + args[0].T + ")"}
		}
	case "append":
		return fc.execAppend(st, in, c, args)
	case "copy":
		fc.abstract("builtin copy (destination contents havocked)")
		fc.applyFrame(st, fc.g.callFrame(c, false))
		return fc.freshVal(st, resT, "copy_n")
	case "delete":
		mt := c.Args[0].Type().Underlying().(*types.Map)
		has, _, ln := fc.mapArrays(mt)
		m, k := args[0].T, args[1].T
		if args[1].SV != nil {
			st.havocArrs([]string{has, ln})
			return Val{}
		}
		// delete on nil map is a no-op
		oldHas := fc.mapHas(st, mt, m, k)
		oldLen := sel(st.get(ln), m)
		st.set(ln, sto(st.get(ln), m, ite(oldHas, fmt.Sprintf("(- %s 1)", oldLen), oldLen)))
		st.set(has, ite(eq(m, "nilref"), st.get(has), sto(st.get(has), m, sto(sel(st.get(has), m), k, "false"))))
		return Val{}
	case "panic":
		if fc.safetyOn {
			fc.oblige(st, "safe-panic", "panic()", "false", in.Pos(), nil)
		}
		fc.q.assert(not(st.reach))
		return Val{}
	case "print", "println":
		return Val{}
	case "min", "max":
		f := "imin"
		if b.Name() == "max" {
			f = "imax"
		}
		r := args[0].T
		for _, a := range args[1:] {
			r = app(f, r, a.T)
		}
		return Val{T: r}
	case "ssa:wrapnilchk":
		fc.nilCheck(st, args[0].T, shortExpr(c.Args[0]), in.Pos())
		return args[0]
	case "ssa:deferstack":
		return Val{T: "nilref"}
	case "new":
		return Val{T: fc.allocObject(st, resT.Underlying().(*types.Pointer).Elem())}
	case "recover":
		return Val{T: zeroOf(sIface)}
	}
	fc.abstract("builtin " + b.Name())
	_ = ti
	return fc.freshVal(st, resT, "builtin")
}

// execAppend: model: the result always lives in a fresh backing array (see DESIGN 3.2 / assumptions).
func (fc *FnCtx) execAppend(st *State, in ssa.Instruction, c *ssa.CallCommon, args []Val) Val {
	ti := fc.g.ti
	stt := c.Args[0].Type().Underlying().(*types.Slice)
	et := stt.Elem()
	s := args[0].T
	var e string
	if _, isStr := c.Args[1].Type().Underlying().(*types.Basic); isStr {
		fc.abstract("append(bytes, string...)")
		return fc.freshVal(st, c.Args[0].Type(), "append")
	}
	e = args[1].T
	sz := ti.sizeOf(et)
	nb := st.newRef()
	n1 := "(slen " + s + ")"
	n2 := "(slen " + e + ")"
	total := fmt.Sprintf("(+ %s %s)", n1, n2)
	if e == "nilslice" {
		total, n2 = n1, "0"
	}
	inPlaceCond := fmt.Sprintf("(<= %s (scap %s))", total, s)
	var ls []Leaf
	ti.leaves(et, 0, "", &ls)
	seen := map[string]bool{}
	for _, l := range ls {
		if seen[l.arr] {
			continue
		}
		seen[l.arr] = true
		fc.g.regArr(l.arr, l.sort)
		old := st.get(l.arr)
		// lambda array, both Go behaviours:
		//  in place  (len+k <= cap): the elements of e are written behind s in the same backing array;
		//  realloc   (otherwise)   : fresh block = copy of s's block followed by e's block
		inplace := fmt.Sprintf("(ite (and (= (rbase ar) (rbase (sarr %s))) (<= (+ (roff (sarr %s)) (* %s %d)) (roff ar)) (< (roff ar) (+ (roff (sarr %s)) (* %s %d)))) (select %s (mkref (rbase (sarr %s)) (+ (roff (sarr %s)) (- (roff ar) (+ (roff (sarr %s)) (* %s %d)))))) (select %s ar))",
			s, s, n1, sz, s, total, sz, old, e, e, s, n1, sz, old)
		fresh := fmt.Sprintf("(ite (and (= (rbase ar) (rbase %s)) (<= 0 (roff ar))) (ite (< (roff ar) (* %s %d)) (select %s (mkref (rbase (sarr %s)) (+ (roff (sarr %s)) (roff ar)))) (select %s (mkref (rbase (sarr %s)) (+ (roff (sarr %s)) (- (roff ar) (* %s %d)))))) (select %s ar))",
			nb, n1, sz, old, s, s, old, e, e, n1, sz, old)
		if e == "nilslice" {
			inplace = fmt.Sprintf("(select %s ar)", old)
			fresh = fmt.Sprintf("(ite (and (= (rbase ar) (rbase %s)) (<= 0 (roff ar)) (< (roff ar) (* %s %d))) (select %s (mkref (rbase (sarr %s)) (+ (roff (sarr %s)) (roff ar)))) (select %s ar))", nb, n1, sz, old, s, s, old)
		}
		lam := fmt.Sprintf("(lambda ((ar Ref)) (ite %s %s %s))", inPlaceCond, inplace, fresh)
		// a definition (inlined by the solver) rather than an equality between arrays
		var nv string
		if os.Getenv("GOVC_APPEND_EQ") != "" {
			nv = fc.q.freshConst(l.arr+"@app", fc.g.arrSort[l.arr])
			fc.q.assert(implies(st.reach, eq(nv, lam)))
		} else {
			nv = fc.q.define(l.arr+"@app", fc.g.arrSort[l.arr], lam)
		}
		st.heap[l.arr] = nv
		st.bounds[l.arr] = st.alloc()
	}
	fc.usesLambda()
	cp := fc.q.freshConst("appcap", sInt)
	fc.q.assert(implies(st.reach, fmt.Sprintf("(>= %s %s)", cp, total)))
	res := ite(inPlaceCond, fmt.Sprintf("(mkslice (sarr %s) %s (scap %s))", s, total, s), fmt.Sprintf("(mkslice %s %s %s)", nb, total, cp))
	// append(nil, nil...) stays nil
	if e != "nilslice" {
		res = ite(and(eq("(sarr "+s+")", "nilref"), eq(n2, "0")), "nilslice", res)
	} else {
		res = s
	}
	c2 := fc.q.freshConst("app", sSlice)
	fc.q.assert(implies(st.reach, eq(c2, res)))
	return Val{T: c2}
}

func (fc *FnCtx) usesLambda() { fc.abstracted["[info] uses z3 lambda arrays (append/sort)"] = true }

// invokeClosure: one call of the closure/function value cv (function cfn) at the current point, by its contract
// (or its inferred frame when it has none). Captured variables are the cells bound at closure creation.
func (fc *FnCtx) invokeClosure(st *State, in ssa.Instruction, cfn *ssa.Function, cv ssa.Value) Val {
	g := fc.g
	key := g.fnName(cfn)
	ccon := g.contracts[key]
	sig := cfn.Signature
	var resT types.Type = sig.Results()
	if sig.Results().Len() == 1 {
		resT = sig.Results().At(0).Type()
	}
	pre := st.clone()
	env := &Env{fc: fc, vars: map[string]Val{}, pre: pre, cur: pre}
	if ccon != nil {
		env.pkg = ccon.Pkg
	}
	if mc, ok := cv.(*ssa.MakeClosure); ok {
		env.byRef = map[string]types.Type{}
		for i, fv := range cfn.FreeVars {
			if i < len(mc.Bindings) {
				bv := fc.val(st, mc.Bindings[i])
				bv.Typ = fv.Type()
				env.vars[fv.Name()] = bv
				if pt, ok := fv.Type().Underlying().(*types.Pointer); ok {
					env.byRef[fv.Name()] = pt.Elem()
				}
			}
		}
	}
	short := key[strings.LastIndex(key, "/")+1:]
	if ccon != nil {
		for _, r := range ccon.Requires {
			t, err := fc.evalBool(env, r.Expr)
			if err != nil {
				fc.err = fmt.Errorf("%s: closure %s requires %q: %v", fc.name, key, r.Text, err)
				return fc.freshVal(st, resT, "closure")
			}
			fc.oblige(st, "pre@"+short, r.Label, t, in.Pos(), fc.callerProps(r.Props))
			fc.q.assert(implies(st.reach, t))
		}
	}
	var fr *Frame
	if ccon != nil && (ccon.Modifies != nil || ccon.Pure) {
		fr = ccon.frame(g)
	} else {
		fr = newFrame()
		fr.union(g.funcFrame(cfn))
	}
	if ccon != nil {
		for _, se := range ccon.Sets {
			fr.facts[se.Var] = true
		}
	}
	fc.applyFrame(st, fr)
	res := fc.freshVal(st, resT, "closure_"+sanitize(cfn.Name()))
	if ccon == nil {
		g.uncontracted[key] = true
		return res
	}
	post := &Env{fc: fc, vars: env.vars, pre: pre, cur: st, pkg: ccon.Pkg, byRef: env.byRef}
	if res.Tup != nil {
		post.results = res.Tup
	} else if res.T != "" || res.SV != nil {
		post.results = []Val{res}
	}
	for i := range post.results {
		if i < sig.Results().Len() {
			post.results[i].Typ = sig.Results().At(i).Type()
		}
	}
	for _, se := range ccon.Sets {
		t, err := fc.evalBool(post, se.Expr)
		if err != nil {
			fc.err = fmt.Errorf("%s: closure %s sets %q: %v", fc.name, key, se.Text, err)
			return res
		}
		k := "fact:" + se.Var
		fc.ghostSort[k] = sBool
		if _, ok := fc.ghostInit[k]; !ok {
			fc.ghostInit[k] = fc.factInit(se.Var)
		}
		st.ghost[k] = t
	}
	for _, e := range ccon.Ensures {
		if fc.g.hasGhostDeep(e.Expr, ccon.PkgPath, 0) {
			continue
		}
		t, err := fc.evalBool(post, e.Expr)
		if err != nil {
			fc.err = fmt.Errorf("%s: closure %s ensures %q: %v", fc.name, key, e.Text, err)
			return res
		}
		fc.q.assert(implies(st.reach, t))
	}
	return res
}

// ownFrameWithoutParamCalls: the callee's frame minus what it only does through its function-typed parameters.
func (g *Gen) ownFrameWithoutParamCalls(callee *ssa.Function, resolved *Frame) *Frame {
	if callee == nil || len(callee.Blocks) == 0 {
		return resolved
	}
	own := newFrame()
	own.union(g.funcFrame(callee))
	own.callsParam = false
	return own
}

// markYoungResults: a callee can only hand back memory it allocated or could reach through its inputs. When every
// input is harmless (scalars, clients, recorders, ...) or itself young, every pointer in the results is young.
func (fc *FnCtx) markYoungResults(st *State, pre *State, c *ssa.CallCommon, args []Val, res Val, resT types.Type) {
	bound := pre.alloc()
	var vals []ssa.Value
	if c.IsInvoke() {
		vals = append(vals, c.Value)
	}
	vals = append(vals, c.Args...)
	if mc, ok := c.Value.(*ssa.MakeClosure); ok {
		vals = append(vals, mc.Bindings...)
	}
	if _, isFn := c.Value.(*ssa.Function); !isFn && !c.IsInvoke() {
		if _, isMC := c.Value.(*ssa.MakeClosure); !isMC {
			return
		}
	}
	for i, a := range vals {
		t := a.Type()
		if harmlessType(t, 0) {
			continue
		}
		var v Val
		if i < len(args) {
			v = args[i]
		} else {
			v = fc.val(pre, a)
		}
		b := ""
		if v.SV == nil {
			b = fc.youngBound(pre, v)
		}
		if b == "" {
			return
		}
		bound = app("imin", bound, b)
	}
	mark := func(v Val, t types.Type) {
		if v.T == "" || !pointerLike(t) {
			return
		}
		switch fc.g.ti.sortOf(t) {
		case sRef, sSlice, sIface:
			st.young[v.T] = bound
		}
	}
	if tup, ok := resT.(*types.Tuple); ok {
		for i := 0; i < tup.Len() && i < len(res.Tup); i++ {
			mark(res.Tup[i], tup.At(i).Type())
		}
	} else if resT != nil {
		mark(res, resT)
	}
}

// applyDispatch: dynamic dispatch on an in-module interface whose implementations carry contracts: case split on the
// receiver's dynamic type (closed world: the implementations are those in the loaded module packages).
func (fc *FnCtx) applyDispatch(st *State, in ssa.Instruction, c *ssa.CallCommon, args []Val, resT types.Type) (Val, bool) {
	g := fc.g
	it, ok := c.Value.Type().Underlying().(*types.Interface)
	if !ok {
		return Val{}, false
	}
	impls := g.implementations(it, c.Method)
	type alt struct {
		fn    *ssa.Function
		con   *Contract
		guard string
		env   *Env
	}
	var alts []alt
	any := false
	recv := args[0].T
	pre := st.clone()
	for _, f := range impls {
		con := g.contracts[g.fnName(f)]
		if con != nil && (len(con.Ensures) > 0 || len(con.Requires) > 0) {
			any = true
		}
		rt := f.Signature.Recv().Type()
		guard := eq("(itag "+recv+")", fmt.Sprint(g.ti.typeID(rt)))
		env := &Env{fc: fc, vars: map[string]Val{}, pre: pre, cur: pre}
		if con != nil {
			env.pkg = con.Pkg
		}
		for i, p := range f.Params {
			var v Val
			if i == 0 {
				v = fc.unbox(pre, recv, rt)
			} else if i < len(args) {
				v = args[i]
			}
			v.Typ = p.Type()
			env.vars[p.Name()] = v
		}
		alts = append(alts, alt{f, con, guard, env})
	}
	if !any || len(alts) == 0 {
		return Val{}, false
	}
	var guards []string
	for _, a := range alts {
		guards = append(guards, a.guard)
		if a.con == nil {
			continue
		}
		key := g.fnName(a.fn)
		short := key[strings.LastIndex(key, "/")+1:]
		for _, r := range a.con.Requires {
			t, err := fc.evalBool(a.env, r.Expr)
			if err != nil {
				fc.err = fmt.Errorf("%s: dispatch %s requires %q: %v", fc.name, key, r.Text, err)
				return Val{}, true
			}
			fc.oblige(st, "pre@"+short, r.Label, implies(a.guard, t), in.Pos(), fc.callerProps(r.Props))
			fc.q.assert(implies(and(st.reach, a.guard), t))
		}
	}
	// closed world: the receiver is one of the known implementations
	fc.q.assert(implies(st.reach, or(guards...)))
	base, parts := g.callFrameParts(c)
	fc.applyCallFrame(st, c, base, parts)
	res := fc.freshVal(st, resT, "ret_"+sanitize(c.Method.Name()))
	sig := c.Signature()
	for _, a := range alts {
		if a.con == nil {
			continue
		}
		post := &Env{fc: fc, vars: a.env.vars, pre: pre, cur: st, pkg: a.con.Pkg}
		if res.Tup != nil {
			post.results = res.Tup
		} else if res.T != "" || res.SV != nil {
			post.results = []Val{res}
		}
		for i := range post.results {
			if i < sig.Results().Len() {
				post.results[i].Typ = sig.Results().At(i).Type()
				if n := a.fn.Signature.Results().At(i).Name(); n != "" && n != "_" {
					post.vars[n] = post.results[i]
				}
			}
		}
		for _, se := range a.con.Sets {
			t, err := fc.evalBool(post, se.Expr)
			if err != nil {
				continue
			}
			k := "fact:" + se.Var
			fc.ghostSort[k] = sBool
			if _, ok := fc.ghostInit[k]; !ok {
				fc.ghostInit[k] = fc.factInit(se.Var)
			}
			old := st.ghostGet(k, sBool, fc.ghostInit[k])
			st.ghost[k] = ite(a.guard, t, old)
		}
		for _, e := range a.con.Ensures {
			if fc.g.hasGhostDeep(e.Expr, a.con.PkgPath, 0) {
				continue
			}
			t, err := fc.evalBool(post, e.Expr)
			if err != nil {
				fc.err = fmt.Errorf("%s: dispatch %s ensures %q: %v", fc.name, g.fnName(a.fn), e.Text, err)
				return res, true
			}
			fc.q.assert(implies(and(st.reach, a.guard), t))
		}
	}
	return res, true
}

// callerProps: a precondition obligation at a call site belongs to the properties of the calling function
// (it is the caller that has to establish it) as well as to those of the callee's clause.
func (fc *FnCtx) callerProps(clause []string) []string {
	set := map[string]bool{}
	if fc.con != nil {
		for _, p := range fc.con.Props {
			set[p] = true
		}
	}
	for _, p := range clause {
		set[p] = true
	}
	return sortedKeys(set)
}

// ---------- inlining of small helper functions without a contract ----------

// canInline: callee is an in-module function with a body and no contract, small, loop-free, without defer/recover/
// closures, not already being inlined, and none of its calls would create a proof obligation (calls to functions whose
// contract has a `requires`, or interface calls that dispatch to contracted implementations, are left to the modular
// treatment). Such a call is executed symbolically inside the caller's query instead of being replaced by a havoc: a
// behaviour-preserving "extract function" refactoring then does not lose the facts the caller's proof needs, and a change
// inside a small helper is seen by the callers' postconditions.
func (fc *FnCtx) canInline(callee *ssa.Function) bool {
	g := fc.g
	if os.Getenv("GOVC_NOINLINE") != "" || fc.inlineDepth >= 3 {
		return false
	}
	if v, ok := g.inlinable[callee]; ok && !v {
		return false
	}
	for _, f := range fc.inlineStack {
		if f == callee {
			return false
		}
	}
	if callee == fc.fn {
		return false
	}
	if v, ok := g.inlinable[callee]; ok {
		return v
	}
	why := 0
	ok := func() bool {
		if len(callee.Blocks) == 0 || len(callee.Blocks) > 16 || callee.Recover != nil || len(callee.FreeVars) > 0 || callee.Pkg == nil || !g.inModule(callee.Pkg.Pkg) {
			why = 1
			return false
		}
		if callee.Signature.Variadic() {
			why = 2
			return false
		}
		if tr := g.trusted[callee.String()]; tr != nil {
			why = 3
			return false
		}
		n := 0
		for _, b := range callee.Blocks {
			for _, s := range b.Succs {
				if s.Dominates(b) {
					why = 4
					return false // a loop
				}
			}
			for _, in := range b.Instrs {
				n++
				switch x := in.(type) {
				case *ssa.Defer, *ssa.Go, *ssa.Send, *ssa.Select, *ssa.MakeClosure, *ssa.Panic, *ssa.Range, *ssa.Next:
					why = 5
					if os.Getenv("GOVC_DEBUG_INLINE") != "" {
						fmt.Fprintf(os.Stderr, "  not inlinable: %T in %s\n", in, callee.String())
					}
					return false
				case ssa.CallInstruction:
					c := x.Common()
					if g.trackName(c) != "" {
						why = 6
						return false
					}
					if c.IsInvoke() {
						if g.inModule(c.Method.Pkg()) {
							why = 7
							return false
						}
						if k := ifaceMethodKey(c.Value.Type(), c.Method); g.contracts[k] != nil {
							why = 8
							return false
						}
						continue
					}
					if _, isB := c.Value.(*ssa.Builtin); isB {
						continue
					}
					f := c.StaticCallee()
					if f == nil {
						why = 9
						return false // call through a function value
					}
					if cc := g.contracts[g.fnName(f)]; cc != nil && (len(cc.Requires) > 0 || len(cc.Sets) > 0 || len(cc.Effects) > 0 || cc.Invokes != "") {
						why = 10
						return false
					}
				}
			}
		}
		return n <= 150
	}()
	g.inlinable[callee] = ok
	if os.Getenv("GOVC_DEBUG_INLINE") != "" {
		fmt.Fprintf(os.Stderr, "inline? %s: %v (rule %d)\n", callee.String(), ok, why)
	}
	return ok
}

// inlineCall executes callee's body from the caller's current state; on success st becomes the state at callee's exit
// and the result values are returned. No obligations are generated for the inlined body.
func (fc *FnCtx) inlineCall(st *State, callee *ssa.Function, args []Val) (Val, bool) {
	if len(args) != len(callee.Params) {
		return Val{}, false
	}
	type saved struct {
		fn         *ssa.Function
		vals       map[ssa.Value]Val
		exitStates map[*ssa.BasicBlock]*State
		edgeConds  map[*ssa.BasicBlock][]string
		loops      []*loopInfo
		loopOf     map[*ssa.BasicBlock]*loopInfo
		backEdge   map[[2]int]bool
		returns    []retPoint
		curBlock   *ssa.BasicBlock
		curInstr   ssa.Instruction
		con        *Contract
		safetyOn   bool
		defers     []deferred
		params     map[string]Val
		paramTypes map[string]types.Type
		inputs     []InputTerm
	}
	sv := saved{fc.fn, fc.vals, fc.exitStates, fc.edgeConds, fc.loops, fc.loopOf, fc.backEdge, fc.returns, fc.curBlock, fc.curInstr, fc.con, fc.safetyOn, fc.defers, fc.params, fc.paramTypes, fc.inputs}
	restore := func() {
		fc.fn, fc.vals, fc.exitStates, fc.edgeConds, fc.loops, fc.loopOf, fc.backEdge, fc.returns = sv.fn, sv.vals, sv.exitStates, sv.edgeConds, sv.loops, sv.loopOf, sv.backEdge, sv.returns
		fc.curBlock, fc.curInstr, fc.con, fc.safetyOn, fc.defers, fc.params, fc.paramTypes, fc.inputs = sv.curBlock, sv.curInstr, sv.con, sv.safetyOn, sv.defers, sv.params, sv.paramTypes, sv.inputs
		fc.inlineDepth--
		fc.inlineStack = fc.inlineStack[:len(fc.inlineStack)-1]
	}
	fc.fn, fc.vals, fc.exitStates, fc.edgeConds = callee, map[ssa.Value]Val{}, map[*ssa.BasicBlock]*State{}, map[*ssa.BasicBlock][]string{}
	fc.loops, fc.loopOf, fc.backEdge, fc.returns = nil, map[*ssa.BasicBlock]*loopInfo{}, map[[2]int]bool{}, nil
	fc.con, fc.safetyOn, fc.defers = nil, false, nil
	fc.params, fc.paramTypes = map[string]Val{}, map[string]types.Type{}
	fc.inlineDepth++
	fc.inlineStack = append(fc.inlineStack, callee)
	defer restore()
	for i, p := range callee.Params {
		v := args[i]
		v.Typ = p.Type()
		fc.vals[p] = v
		fc.params[p.Name()] = v
		fc.paramTypes[p.Name()] = p.Type()
	}
	entry := st.clone()
	fc.runBlocks(entry)
	if fc.err != nil {
		return Val{}, false
	}
	exit, results := fc.mergeReturns()
	if exit == nil {
		return Val{}, false
	}
	fc.useTrusted("calls to small loop-free in-module functions without a contract are inlined (executed symbolically in the caller; the safety of their bodies is not claimed)")
	*st = *exit
	switch len(results) {
	case 0:
		return Val{}, true
	case 1:
		return results[0], true
	}
	return Val{Tup: results}, true
}

func containsStr(xs []string, x string) bool {
	for _, y := range xs {
		if y == x {
			return true
		}
	}
	return false
}
