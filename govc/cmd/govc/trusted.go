package main

import (
	"fmt"
	"go/types"
	"regexp"
	"strings"

	"golang.org/x/tools/go/ssa"
)

// Trusted: assumed semantics of a function outside the module (DESIGN 6.1).
type Trusted struct {
	pure bool
	rule func(fc *FnCtx, st *State, in ssa.Instruction, c *ssa.CallCommon, args []Val, resT types.Type) (Val, bool)
	doc  string
}

const intstrPkg = "k8s.io/apimachinery/pkg/util/intstr"

func (fc *FnCtx) useTrusted(doc string) { fc.g.trustedUsed[doc] = true; fc.trustedHere(doc) }
func (fc *FnCtx) trustedHere(doc string) {
	if fc.trustedSet == nil {
		fc.trustedSet = map[string]bool{}
	}
	fc.trustedSet[doc] = true
}

func (fc *FnCtx) mkIntOrString(st *State, ty, iv, sv string, t types.Type) Val {
	ref := st.newRef()
	stt := t.Underlying().(*types.Struct)
	for i := 0; i < stt.NumFields(); i++ {
		a := fc.fieldAddrOf(ref, t, i)
		var v string
		switch stt.Field(i).Name() {
		case "Type":
			v = ty
		case "IntVal":
			v = iv
		case "StrVal":
			v = sv
		}
		st.heap[a.Arr] = sto(st.get(a.Arr), a.T, v)
	}
	return Val{SV: &StructVal{st: st.clone(), ref: ref}, Typ: t}
}

func iosFields(fc *FnCtx, st *State, v Val, t types.Type) (ty, iv, sv string) {
	stt := t.Underlying().(*types.Struct)
	for i := 0; i < stt.NumFields(); i++ {
		var f Val
		if v.SV != nil {
			f = fc.fieldOfStruct(v.SV, t, i)
		} else {
			f = fc.loadAt(st, fc.fieldAddrOf(v.T, t, i), stt.Field(i).Type())
		}
		switch stt.Field(i).Name() {
		case "Type":
			ty = f.T
		case "IntVal":
			iv = f.T
		case "StrVal":
			sv = f.T
		}
	}
	return
}

func errVal(fc *FnCtx, st *State, isNil string) Val {
	e := fc.q.freshConst("err", sIface)
	fc.typeInv(st, e, types.Universe.Lookup("error").Type())
	fc.q.assert(implies(st.reach, eq(eq("(itag "+e+")", "0"), isNil)))
	return Val{T: e}
}

var sprintfVerbRe = regexp.MustCompile(`%[-+# 0]*[0-9]*(\.[0-9]+)?[a-zA-Z%]`)

// varargs: recover the elements of a constant-length variadic slice argument.
func (fc *FnCtx) varargs(st *State, v ssa.Value, sl Val) ([]string, bool) {
	s, ok := v.(*ssa.Slice)
	if !ok {
		if c, isC := v.(*ssa.Const); isC && c.Value == nil {
			return nil, true
		}
		return nil, false
	}
	a, ok := s.X.(*ssa.Alloc)
	if !ok {
		return nil, false
	}
	at, ok := a.Type().Underlying().(*types.Pointer).Elem().Underlying().(*types.Array)
	if !ok {
		return nil, false
	}
	base := fc.val(st, a).T
	var out []string
	esz := fc.g.ti.sizeOf(at.Elem())
	for i := 0; i < int(at.Len()); i++ {
		ev := fc.loadAt(st, Val{T: emb(base, i*esz)}, at.Elem())
		out = append(out, ev.T)
	}
	return out, true
}

func (g *Gen) initTrusted() {
	t := map[string]*Trusted{}
	g.trusted = t
	ios := func(resT types.Type) types.Type { return resT }
	t[intstrPkg+".FromString"] = &Trusted{pure: true, doc: "intstr.FromString(s) = {Type:String, StrVal:s}", rule: func(fc *FnCtx, st *State, in ssa.Instruction, c *ssa.CallCommon, args []Val, resT types.Type) (Val, bool) {
		fc.useTrusted("intstr.FromString(s) = IntOrString{Type: String, StrVal: s}")
		return fc.mkIntOrString(st, "1", "0", args[0].T, ios(resT)), true
	}}
	fromInt := func(fc *FnCtx, st *State, in ssa.Instruction, c *ssa.CallCommon, args []Val, resT types.Type) (Val, bool) {
		fc.useTrusted("intstr.FromInt(n) = IntOrString{Type: Int, IntVal: n}")
		return fc.mkIntOrString(st, "0", args[0].T, "lit_empty", ios(resT)), true
	}
	t[intstrPkg+".FromInt"] = &Trusted{pure: true, rule: fromInt}
	t[intstrPkg+".FromInt32"] = &Trusted{pure: true, rule: fromInt}
	t[intstrPkg+".Parse"] = &Trusted{pure: true}
	t[intstrPkg+".ValueOrDefault"] = &Trusted{pure: true, rule: func(fc *FnCtx, st *State, in ssa.Instruction, c *ssa.CallCommon, args []Val, resT types.Type) (Val, bool) {
		fc.useTrusted("intstr.ValueOrDefault(p, d) = p if p != nil, else a pointer to a copy of d")
		pt := resT.Underlying().(*types.Pointer).Elem()
		ref := fc.materialize(st, args[1].SV, pt)
		return Val{T: ite(eq(args[0].T, "nilref"), ref, args[0].T)}, true
	}}
	scaledRule := func(fc *FnCtx, st *State, in ssa.Instruction, c *ssa.CallCommon, args []Val, resT types.Type) (Val, bool) {
		fc.useTrusted("intstr.GetScaledValueFromIntOrPercent(v,total,up): Int => (IntVal,nil); String \"n%\" => (ceil|floor(n*total/100), nil); nil or anything else => (0, err); float arithmetic treated as exact")
		pt := c.Args[0].Type().Underlying().(*types.Pointer).Elem()
		// a nil argument is not a crash: the library returns (0, error)
		ty, iv, sv := iosFields(fc, st, Val{T: args[0].T}, pt)
		ok := and(not(eq(args[0].T, "nilref")), app("scaledOk", ty, sv))
		val := app("scaled", ty, iv, sv, args[1].T, args[2].T)
		// the value read here is part of a counterexample (replay adapters rebuild the IntOrString from it)
		if base := shortExpr(c.Args[0]); base != "" {
			for _, f := range []struct{ n, t, srt string }{{"Type", ty, sInt}, {"IntVal", iv, sInt}, {"StrVal", sv, sStr}} {
				c := fc.q.freshConst("ios_"+f.n, f.srt)
				fc.q.assert(eq(c, f.t))
				fc.inputs = append(fc.inputs, InputTerm{Path: base + "." + f.n, Term: c, Sort: f.srt})
			}
		}
		r := fc.q.freshConst("scaled", sInt)
		fc.q.assert(implies(st.reach, eq(r, ite(ok, val, "0"))))
		return Val{Tup: []Val{{T: r}, errVal(fc, st, ok)}}, true
	}
	t[intstrPkg+".GetScaledValueFromIntOrPercent"] = &Trusted{pure: true, rule: scaledRule}
	t[intstrPkg+".GetValueFromIntOrPercent"] = &Trusted{pure: true, rule: scaledRule}
	t["(*"+intstrPkg+".IntOrString).IntValue"] = &Trusted{pure: true, rule: func(fc *FnCtx, st *State, in ssa.Instruction, c *ssa.CallCommon, args []Val, resT types.Type) (Val, bool) {
		fc.useTrusted("(*IntOrString).IntValue(): Int => IntVal; String => Atoi(StrVal) or 0")
		pt := c.Args[0].Type().Underlying().(*types.Pointer).Elem()
		fc.nilCheck(st, args[0].T, shortExpr(c.Args[0]), in.Pos())
		ty, iv, sv := iosFields(fc, st, Val{T: args[0].T}, pt)
		return Val{T: ite(eq(ty, "1"), ite(app("atoiOk", sv), app("atoiVal", sv), "0"), iv)}, true
	}}
	t["(*"+intstrPkg+".IntOrString).String"] = &Trusted{pure: true, rule: func(fc *FnCtx, st *State, in ssa.Instruction, c *ssa.CallCommon, args []Val, resT types.Type) (Val, bool) {
		fc.useTrusted("(*IntOrString).String(): String => StrVal; Int => itoa(IntVal)")
		pt := c.Args[0].Type().Underlying().(*types.Pointer).Elem()
		fc.nilCheck(st, args[0].T, shortExpr(c.Args[0]), in.Pos())
		ty, iv, sv := iosFields(fc, st, Val{T: args[0].T}, pt)
		return Val{T: ite(eq(ty, "1"), sv, app("itoa", iv))}, true
	}}
	// min / max helpers
	mm := func(f string) *Trusted {
		return &Trusted{pure: true, rule: func(fc *FnCtx, st *State, in ssa.Instruction, c *ssa.CallCommon, args []Val, resT types.Type) (Val, bool) {
			return Val{T: app(f, args[0].T, args[1].T)}, true
		}}
	}
	for _, n := range []string{"IntMin", "Int32Min", "Int64Min"} {
		t["k8s.io/utils/integer."+n] = mm("imin")
	}
	for _, n := range []string{"IntMax", "Int32Max", "Int64Max"} {
		t["k8s.io/utils/integer."+n] = mm("imax")
	}
	// pointer.X(v): fresh cell holding v
	ptrOf := func(fc *FnCtx, st *State, in ssa.Instruction, c *ssa.CallCommon, args []Val, resT types.Type) (Val, bool) {
		et := resT.Underlying().(*types.Pointer).Elem()
		ref := st.newRef()
		fc.storeAt(st, Val{T: ref}, args[0], et)
		return Val{T: ref}, true
	}
	for _, n := range []string{"Int32", "Int32Ptr", "Int64", "Int64Ptr", "Bool", "BoolPtr", "String", "StringPtr", "Int", "IntPtr"} {
		t["k8s.io/utils/pointer."+n] = &Trusted{pure: true, rule: ptrOf}
	}
	t["strconv.Itoa"] = &Trusted{pure: true, rule: func(fc *FnCtx, st *State, in ssa.Instruction, c *ssa.CallCommon, args []Val, resT types.Type) (Val, bool) {
		r := app("itoa", args[0].T)
		fc.q.assert(fmt.Sprintf("(and (atoiOk %s) (= (atoiVal %s) %s))", r, r, args[0].T))
		return Val{T: r}, true
	}}
	t["strconv.Atoi"] = &Trusted{pure: true, rule: func(fc *FnCtx, st *State, in ssa.Instruction, c *ssa.CallCommon, args []Val, resT types.Type) (Val, bool) {
		fc.useTrusted("strconv.Atoi(s) = (atoiVal(s), nil) iff atoiOk(s), else (0, err)")
		s := args[0].T
		r := fc.q.freshConst("atoi", sInt)
		fc.q.assert(implies(st.reach, eq(r, ite(app("atoiOk", s), app("atoiVal", s), "0"))))
		fc.typeInv(st, r, types.Typ[types.Int])
		return Val{Tup: []Val{{T: r}, errVal(fc, st, app("atoiOk", s))}}, true
	}}
	nonNilErr := func(fc *FnCtx, st *State, in ssa.Instruction, c *ssa.CallCommon, args []Val, resT types.Type) (Val, bool) {
		return errVal(fc, st, "false"), true
	}
	t["fmt.Errorf"] = &Trusted{pure: true, rule: nonNilErr}
	for _, n := range []string{"hash/fnv.New32a", "hash/fnv.New32", "hash/fnv.New64a", "hash/fnv.New64"} {
		t[n] = &Trusted{pure: true, rule: func(fc *FnCtx, st *State, in ssa.Instruction, c *ssa.CallCommon, args []Val, resT types.Type) (Val, bool) {
			fc.useTrusted("hash/fnv.New*(): a non-nil hasher")
			h := fc.q.freshConst("hasher", sIface)
			fc.typeInv(st, h, resT)
			fc.q.assert(implies(st.reach, not(eq("(itag "+h+")", "0"))))
			return Val{T: h}, true
		}}
	}
	t["errors.New"] = &Trusted{pure: true, rule: nonNilErr}
	t["fmt.Sprintf"] = &Trusted{pure: true, rule: func(fc *FnCtx, st *State, in ssa.Instruction, c *ssa.CallCommon, args []Val, resT types.Type) (Val, bool) {
		fconst, ok := c.Args[0].(*ssa.Const)
		if !ok || fconst.Value == nil {
			return Val{}, false
		}
		format := constantString(fconst)
		elems, ok := fc.varargs(st, c.Args[1], args[1])
		if !ok {
			return Val{}, false
		}
		verbs := sprintfVerbRe.FindAllString(format, -1)
		nverbs := 0
		for _, v := range verbs {
			if v != "%%" {
				nverbs++
			}
		}
		_ = nverbs
		if r, ok := fc.sprintfTerm(format, elems); ok {
			return Val{T: r}, true
		}
		return Val{}, false
	}}
	t["sigs.k8s.io/controller-runtime/pkg/client.RawPatch"] = &Trusted{pure: true, rule: func(fc *FnCtx, st *State, in ssa.Instruction, c *ssa.CallCommon, args []Val, resT types.Type) (Val, bool) {
		fc.useTrusted("client.RawPatch(type, data): an opaque patch value carrying exactly the bytes of data")
		return Val{T: fmt.Sprintf("(mkiface %d nilref 0 (strOfBytes %s))", fc.g.ti.typeID(resT)+1000, args[1].T)}, true
	}}
	sortRule := func(fc *FnCtx, st *State, in ssa.Instruction, c *ssa.CallCommon, args []Val, resT types.Type) (Val, bool) {
		// sort.Sort(X(s)) / sort.Stable: permutes the elements of slice s in place (trusted: Less/Swap implement an ordering on a slice)
		mi, ok := c.Args[0].(*ssa.MakeInterface)
		if !ok {
			return Val{}, false
		}
		stt, ok := mi.X.Type().Underlying().(*types.Slice)
		if !ok || isStructLike(stt.Elem()) {
			return Val{}, false
		}
		fc.useTrusted("sort.Sort / sort.Stable on a slice type: an in-place permutation of the slice's elements (nothing else changes); sums over the slice that exist at the call are preserved")
		sl := fc.val(st, mi.X).T
		ti := fc.g.ti
		arr := ti.cellArray(stt.Elem())
		fc.g.regArr(arr, ti.sortOf(stt.Elem()))
		old := st.get(arr)
		fc.q.fresh++
		perm := fc.q.declareFun(fmt.Sprintf("perm_%d", fc.q.fresh), []string{sInt}, sInt)
		n := "(slen " + sl + ")"
		fc.q.assert(implies(st.reach, fmt.Sprintf("(forall ((pi Int)) (! (=> (and (<= 0 pi) (< pi %s)) (and (<= 0 (%s pi)) (< (%s pi) %s))) :pattern ((%s pi))))", n, perm, perm, n, perm)))
		lam := fmt.Sprintf("(lambda ((ar Ref)) (ite (and (= (rbase ar) (rbase (sarr %s))) (<= (roff (sarr %s)) (roff ar)) (< (roff ar) (+ (roff (sarr %s)) %s))) (select %s (eref (sarr %s) (%s (- (roff ar) (roff (sarr %s)))) 1)) (select %s ar)))", sl, sl, sl, n, old, sl, perm, sl, old)
		nv := fc.q.freshConst(arr+"@sorted", fc.g.arrSort[arr])
		fc.q.assert(implies(st.reach, eq(nv, lam)))
		st.heap[arr] = nv
		fc.written[arr] = true
		fc.usesLambda()
		// sums over this slice that are already defined keep their value
		for _, key := range sortedKeys(fc.q.recFuns) {
			fname := fc.q.recFuns[key]
			bv, body, _ := strings.Cut(key, "|")
			if !strings.Contains(body, old) {
				continue
			}
			g := fc.q.recFun(bv, strings.ReplaceAll(body, old, nv))
			fc.q.assert(implies(st.reach, eq(app(fname, n), app(g, n))))
		}
		return Val{}, true
	}
	// schema.ParseGroupVersion(s) = (GroupVersion{Group: gvGroup(s), Version: gvVersion(s)}, err) with err == nil iff gvOk(s):
	// the parse is a function of the string alone (uninterpreted here)
	t["k8s.io/apimachinery/pkg/runtime/schema.ParseGroupVersion"] = &Trusted{pure: true, rule: func(fc *FnCtx, st *State, in ssa.Instruction, c *ssa.CallCommon, args []Val, resT types.Type) (Val, bool) {
		tup, ok := resT.(*types.Tuple)
		if !ok || tup.Len() != 2 {
			return Val{}, false
		}
		gvT := tup.At(0).Type()
		stt, ok := gvT.Underlying().(*types.Struct)
		if !ok {
			return Val{}, false
		}
		fc.useTrusted("schema.ParseGroupVersion(s) is a function of s: Group = gvGroup(s), Version = gvVersion(s), error nil iff gvOk(s)")
		fc.q.declareFun("gvGroup", []string{sStr}, sStr)
		fc.q.declareFun("gvVersion", []string{sStr}, sStr)
		fc.q.declareFun("gvOk", []string{sStr}, sBool)
		ref := st.newRef()
		for i := 0; i < stt.NumFields(); i++ {
			a := fc.fieldAddrOf(ref, gvT, i)
			v := app("gvVersion", args[0].T)
			if stt.Field(i).Name() == "Group" {
				v = app("gvGroup", args[0].T)
			}
			st.heap[a.Arr] = sto(st.get(a.Arr), a.T, v)
		}
		return Val{Tup: []Val{{SV: &StructVal{st: st.clone(), ref: ref}, Typ: gvT}, errVal(fc, st, app("gvOk", args[0].T))}}, true
	}}
	t["sort.Sort"] = &Trusted{rule: sortRule}
	t["sort.Stable"] = &Trusted{rule: sortRule}
	deepEq := func(fc *FnCtx, st *State, in ssa.Instruction, c *ssa.CallCommon, args []Val, resT types.Type) (Val, bool) {
		// reflect.DeepEqual / Semantic.DeepEqual on two pointers to the same struct type whose leaves are all scalars:
		// both nil, or both non-nil with equal fields. Anything else: an uninterpreted boolean.
		n := len(c.Args)
		ma, okA := c.Args[n-2].(*ssa.MakeInterface)
		mb, okB := c.Args[n-1].(*ssa.MakeInterface)
		if !okA || !okB || !types.Identical(ma.X.Type(), mb.X.Type()) {
			return Val{}, false
		}
		if isStructLike(ma.X.Type()) {
			// two struct values of scalars: field-wise equality
			var ls []Leaf
			fc.g.ti.leaves(ma.X.Type(), 0, "", &ls)
			for _, l := range ls {
				if l.sort != sInt && l.sort != sStr && l.sort != sBool {
					return Val{}, false
				}
			}
			a, b := fc.val(st, ma.X), fc.val(st, mb.X)
			if a.SV == nil || b.SV == nil {
				return Val{}, false
			}
			fc.useTrusted("reflect.DeepEqual on struct values whose leaves are scalars: field-wise equality")
			leaf := func(sv *StructVal, l Leaf) string {
				if sv.zero {
					return zeroOf(l.sort)
				}
				fc.g.regArr(l.arr, l.sort)
				return sel(sv.st.get(l.arr), emb(sv.ref, l.off))
			}
			var cs []string
			for _, l := range ls {
				cs = append(cs, eq(leaf(a.SV, l), leaf(b.SV, l)))
			}
			return Val{T: and(cs...)}, true
		}
		pt, ok := ma.X.Type().Underlying().(*types.Pointer)
		if !ok || !isStructLike(pt.Elem()) {
			return Val{}, false
		}
		var ls []Leaf
		fc.g.ti.leaves(pt.Elem(), 0, "", &ls)
		for _, l := range ls {
			if l.sort != sInt && l.sort != sStr && l.sort != sBool {
				return Val{}, false
			}
		}
		fc.useTrusted("reflect.DeepEqual on pointers to a struct of scalars: both nil, or both non-nil with equal fields")
		a, b := fc.val(st, ma.X).T, fc.val(st, mb.X).T
		var cs []string
		for _, l := range ls {
			fc.g.regArr(l.arr, l.sort)
			cs = append(cs, eq(sel(st.get(l.arr), emb(a, l.off)), sel(st.get(l.arr), emb(b, l.off))))
		}
		return Val{T: or(and(eq(a, "nilref"), eq(b, "nilref")), and(not(eq(a, "nilref")), not(eq(b, "nilref")), and(cs...)))}, true
	}
	t["reflect.DeepEqual"] = &Trusted{pure: true, rule: deepEq}
	// (schema.GroupVersion).String() on a well-known package-level GroupVersion variable: its literal value
	t["(k8s.io/apimachinery/pkg/runtime/schema.GroupVersion).String"] = &Trusted{pure: true, rule: func(fc *FnCtx, st *State, in ssa.Instruction, c *ssa.CallCommon, args []Val, resT types.Type) (Val, bool) {
		ld, ok := c.Args[0].(*ssa.UnOp)
		if !ok {
			return Val{}, false
		}
		gl, ok := ld.X.(*ssa.Global)
		if !ok {
			return Val{}, false
		}
		known := map[string]string{
			"k8s.io/api/apps/v1.SchemeGroupVersion":                         "apps/v1",
			"github.com/openkruise/kruise-api/apps/v1alpha1.GroupVersion":    "apps.kruise.io/v1alpha1",
			"github.com/openkruise/kruise-api/apps/v1beta1.GroupVersion":     "apps.kruise.io/v1beta1",
			"github.com/openkruise/kruise-api/apps/v1alpha1.SchemeGroupVersion": "apps.kruise.io/v1alpha1",
			"github.com/openkruise/kruise-api/apps/v1beta1.SchemeGroupVersion":  "apps.kruise.io/v1beta1",
			"k8s.io/api/core/v1.SchemeGroupVersion":                         "v1",
		}
		if v, ok := known[gl.Pkg.Pkg.Path()+"."+gl.Name()]; ok {
			fc.useTrusted("GroupVersion.String() of the package-level variables apps/v1, apps.kruise.io/v1alpha1, apps.kruise.io/v1beta1 is their literal value")
			return Val{T: fc.q.lit(v)}, true
		}
		return Val{}, false
	}}
	strPred := func(f string) *Trusted {
		return &Trusted{pure: true, rule: func(fc *FnCtx, st *State, in ssa.Instruction, c *ssa.CallCommon, args []Val, resT types.Type) (Val, bool) {
			return Val{T: app(f, args[0].T, args[1].T)}, true
		}}
	}
	t["strings.HasSuffix"] = strPred("hasSuffix")
	t["strings.HasPrefix"] = strPred("hasPrefix")
	t["strings.Contains"] = strPred("strContains")
	t["strings.ToLower"] = &Trusted{pure: true, rule: func(fc *FnCtx, st *State, in ssa.Instruction, c *ssa.CallCommon, args []Val, resT types.Type) (Val, bool) {
		return Val{T: app("toLower", args[0].T)}, true
	}}
	t["strings.EqualFold"] = &Trusted{pure: true, rule: func(fc *FnCtx, st *State, in ssa.Instruction, c *ssa.CallCommon, args []Val, resT types.Type) (Val, bool) {
		return Val{T: eq(app("toLower", args[0].T), app("toLower", args[1].T))}, true
	}}
	// metav1.ObjectMeta accessors
	const metaPkg = "k8s.io/apimachinery/pkg/apis/meta/v1"
	for _, f := range []string{"Name", "Namespace", "Labels", "Annotations", "DeletionTimestamp", "Generation", "UID", "Finalizers", "OwnerReferences", "ResourceVersion", "GenerateName", "CreationTimestamp"} {
		field := f
		t["(*"+metaPkg+".ObjectMeta).Get"+f] = &Trusted{pure: true, rule: func(fc *FnCtx, st *State, in ssa.Instruction, c *ssa.CallCommon, args []Val, resT types.Type) (Val, bool) {
			pt := c.Args[0].Type().Underlying().(*types.Pointer).Elem()
			stt := pt.Underlying().(*types.Struct)
			fc.nilCheck(st, args[0].T, shortExpr(c.Args[0]), in.Pos())
			for i := 0; i < stt.NumFields(); i++ {
				if stt.Field(i).Name() == field {
					v := fc.loadAt(st, fc.fieldAddrOf(args[0].T, pt, i), stt.Field(i).Type())
					if v.SV == nil && needsInv(fc.g.ti.sortOf(stt.Field(i).Type()), stt.Field(i).Type()) {
						cst := fc.q.freshConst("get"+field, fc.g.ti.sortOf(stt.Field(i).Type()))
						fc.q.assert(implies(st.reach, eq(cst, v.T)))
						fc.typeInv(st, cst, stt.Field(i).Type())
						v.T = cst
					}
					return v, true
				}
			}
			return Val{}, false
		}}
	}
	t["(*"+metaPkg+".Time).IsZero"] = &Trusted{pure: true, rule: func(fc *FnCtx, st *State, in ssa.Instruction, c *ssa.CallCommon, args []Val, resT types.Type) (Val, bool) {
		fc.useTrusted("(*metav1.Time).IsZero(): t == nil || t.Time is the zero time (time.Time abstracted as an integer, zero time = 0)")
		pt := c.Args[0].Type().Underlying().(*types.Pointer).Elem()
		inner := fc.loadAt(st, fc.fieldAddrOf(args[0].T, pt, 0), pt.Underlying().(*types.Struct).Field(0).Type())
		return Val{T: or(eq(args[0].T, "nilref"), eq(inner.T, "0"))}, true
	}}
	t[metaPkg+".Now"] = &Trusted{pure: true, rule: func(fc *FnCtx, st *State, in ssa.Instruction, c *ssa.CallCommon, args []Val, resT types.Type) (Val, bool) {
		ref := st.newRef()
		now := fc.q.freshConst("now", sInt)
		fc.q.assert(fmt.Sprintf("(> %s 0)", now))
		a := fc.fieldAddrOf(ref, resT, 0)
		st.heap[a.Arr] = sto(st.get(a.Arr), a.T, now)
		return Val{SV: &StructVal{st: st.clone(), ref: ref}}, true
	}}
	isErrPred := func(name string) *Trusted {
		return &Trusted{pure: true, rule: func(fc *FnCtx, st *State, in ssa.Instruction, c *ssa.CallCommon, args []Val, resT types.Type) (Val, bool) {
			f := fc.q.declareFun("errpred_"+name, []string{sIface}, sBool)
			return Val{T: and(not(eq("(itag "+args[0].T+")", "0")), app(f, args[0].T))}, true
		}}
	}
	for _, n := range []string{"IsNotFound", "IsAlreadyExists", "IsConflict", "IsInvalid", "IsBadRequest", "IsForbidden", "IsGone", "IsTimeout", "IsServerTimeout"} {
		t["k8s.io/apimachinery/pkg/api/errors."+n] = isErrPred(n)
	}
	t["sigs.k8s.io/controller-runtime/pkg/client.IgnoreNotFound"] = &Trusted{pure: true, rule: func(fc *FnCtx, st *State, in ssa.Instruction, c *ssa.CallCommon, args []Val, resT types.Type) (Val, bool) {
		f := fc.q.declareFun("errpred_IsNotFound", []string{sIface}, sBool)
		nf := and(not(eq("(itag "+args[0].T+")", "0")), app(f, args[0].T))
		return Val{T: ite(nf, zeroOf(sIface), args[0].T)}, true
	}}
}

// deepCopyRule: x.DeepCopy() for a pointer receiver: a fresh object with equal scalar contents; pointer fields are
// nil iff the original's are, point to fresh memory otherwise, and pointed-to scalar cells keep their values
// (generated deepcopy code of k8s API types; assumed, not verified).
func deepCopyRule(fc *FnCtx, st *State, in ssa.Instruction, c *ssa.CallCommon, args []Val, resT types.Type) (Val, bool) {
	pt, ok := resT.Underlying().(*types.Pointer)
	if !ok || len(args) != 1 || !isStructLike(pt.Elem()) {
		return Val{}, false
	}
	if !types.Identical(c.Args[0].Type(), resT) {
		return Val{}, false
	}
	ti := fc.g.ti
	var ls []Leaf
	ti.leaves(pt.Elem(), 0, "", &ls)
	big := len(ls) > 300
	fc.useTrusted("generated (*T).DeepCopy(): fresh object, equal scalar fields, pointer fields nil iff original nil and pointing to fresh memory, pointed-to scalar cells copied; slices/maps keep their length only")
	src := args[0].T
	before := st.alloc()
	ref := st.newRef()
	fc.q.assert(implies(st.reach, fmt.Sprintf("(= (rootTy %s) %d)", st.alloc(), ti.typeID(types.Unalias(pt.Elem())))))
	for _, l := range ls {
		fc.g.regArr(l.arr, l.sort)
		if big && l.sort != sRef && l.sort != sSlice {
			continue // very large object: scalar contents of the copy are left unconstrained (over-approximation)
		}
		ov := sel(st.get(l.arr), emb(src, l.off))
		nv := ov
		switch l.sort {
		case sRef:
			fresh := st.newRef()
			nv = ite(eq(ov, "nilref"), "nilref", fresh)
			if p2, isPtr := l.typ.Underlying().(*types.Pointer); isPtr && !isStructLike(p2.Elem()) {
				ca := ti.cellArray(p2.Elem())
				fc.g.regArr(ca, ti.sortOf(p2.Elem()))
				st.set(ca, sto(st.get(ca), fresh, sel(st.get(ca), ov)))
			}
		case sSlice:
			fresh := st.newRef()
			nv = ite(eq("(sarr "+ov+")", "nilref"), "nilslice", fmt.Sprintf("(mkslice %s (slen %s) (slen %s))", fresh, ov, ov))
		}
		st.set(l.arr, sto(st.get(l.arr), emb(ref, l.off), nv))
	}
	r := fc.q.freshConst("deepcopy", sRef)
	fc.q.assert(implies(st.reach, eq(r, ite(eq(src, "nilref"), "nilref", ref))))
	// a deep copy shares nothing with memory that existed before the call
	st.young[r] = before
	return Val{T: r}, true
}

func constantString(c *ssa.Const) string {
	s := c.Value.ExactString()
	if strings.HasPrefix(s, "\"") {
		var out string
		fmt.Sscanf(s, "%q", &out)
		return out
	}
	return s
}

// inlineRule: tiny in-module leaf functions marked //@ inline are not supported by body inlining;
// instead they must have contracts. (kept for future use)
func (g *Gen) inlineRule(fc *FnCtx, st *State, in ssa.Instruction, callee *ssa.Function, args []Val, resT types.Type) *Val {
	return nil
}

// sprintfTerm: the term standing for fmt.Sprintf(format, elems...) with boxed (interface) arguments.
func (fc *FnCtx) sprintfTerm(format string, elems []string) (string, bool) {
	verbs := sprintfVerbRe.FindAllString(format, -1)
	nverbs := 0
	for _, v := range verbs {
		if v != "%%" {
			nverbs++
		}
	}
	if (format == "%v%%" || format == "%d%%") && len(elems) == 1 {
		fc.useTrusted("fmt.Sprintf(\"%d%%\", n) = pct(n)")
		return fc.pctTerm("(iint " + elems[0] + ")"), true
	}
	if format == "%d" && len(elems) == 1 {
		fc.useTrusted("fmt.Sprintf(\"%d\", n) = itoa(n)")
		return "(itoa (iint " + elems[0] + "))", true
	}
	if nverbs != len(elems) {
		return "", false
	}
	fc.useTrusted("fmt.Sprintf with a constant format is an uninterpreted function of its arguments (one symbol per format string)")
	fname := fmt.Sprintf("sprintf_%x", hashStr(format))
	var sorts []string
	for range elems {
		sorts = append(sorts, sIface)
	}
	fc.q.declareFun(fname, sorts, sStr)
	return app(fname, elems...), true
}
