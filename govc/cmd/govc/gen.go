package main

import (
	"fmt"
	"go/types"
	"os"
	"path/filepath"
	"sort"
	"strings"
	"time"

	"golang.org/x/tools/go/packages"
	"golang.org/x/tools/go/ssa"
	"golang.org/x/tools/go/ssa/ssautil"
)

type Gen struct {
	inlinable    map[*ssa.Function]bool
	prog         *ssa.Program
	pkgs         []*packages.Package
	spkgs        map[string]*ssa.Package
	typesPkg     map[string]*types.Package
	pkgAlias     map[string]string // short name -> path (for qualified constants in contracts)
	ti           *TypeInfo
	arrSort      map[string]string
	contracts    map[string]*Contract
	macros       map[string]*Macro
	specFuncs    map[string]SpecSig
	userSMT      []string
	facts        map[string]bool
	lemmas       []*Lemma
	tracked      map[string]string
	trusted      map[string]*Trusted
	trustedUsed  map[string]bool
	frames       map[*ssa.Function]*Frame
	frameWork    []*ssa.Function
	fnIDs        map[*ssa.Function]int
	globIDs      map[*ssa.Global]int
	closureOf    map[*ssa.MakeClosure]*ssa.Function
	uncontracted map[string]bool
	funcs        map[string]*ssa.Function // key -> function (module functions with bodies)
	reachCache   map[string]*Frame
	fieldStoreIdx map[string][]ssa.Value
	callSiteIdx  map[*ssa.Function][]ssa.CallInstruction
	containerIdx map[string][]types.Type
	directContainers map[string][]types.Type
	freshResCache map[*ssa.Function]bool
	dynBusy      map[*ssa.Parameter]bool
	implCache    map[string][]*ssa.Function
	debug        bool
	partCollector *[]argPart
	findingObls  map[string]string // obligation name -> when-expression of the recorded finding
	loadTime     time.Duration
	contractFiles []string
}

func newGen() *Gen {
	g := &Gen{spkgs: map[string]*ssa.Package{}, typesPkg: map[string]*types.Package{}, pkgAlias: map[string]string{}, ti: newTypeInfo(), arrSort: map[string]string{},
		contracts: map[string]*Contract{}, macros: map[string]*Macro{}, specFuncs: map[string]SpecSig{}, facts: map[string]bool{}, tracked: map[string]string{},
		trustedUsed: map[string]bool{}, frames: map[*ssa.Function]*Frame{}, fnIDs: map[*ssa.Function]int{}, globIDs: map[*ssa.Global]int{},
		closureOf: map[*ssa.MakeClosure]*ssa.Function{}, uncontracted: map[string]bool{}, funcs: map[string]*ssa.Function{}, reachCache: map[string]*Frame{}, findingObls: map[string]string{}, freshResCache: map[*ssa.Function]bool{}, dynBusy: map[*ssa.Parameter]bool{}, implCache: map[string][]*ssa.Function{}, inlinable: map[*ssa.Function]bool{}}
	g.initTrusted()
	return g
}

func (g *Gen) load(repo string, patterns []string) error {
	t0 := time.Now()
	cfg := &packages.Config{
		Mode: packages.NeedName | packages.NeedFiles | packages.NeedCompiledGoFiles | packages.NeedImports | packages.NeedTypes | packages.NeedSyntax | packages.NeedTypesInfo | packages.NeedTypesSizes,
		Dir:  repo, BuildFlags: []string{"-tags=verif"},
		Env: append(os.Environ(), "GOFLAGS=-mod=mod", "GOPROXY=off", "GOSUMDB=off", "GOTOOLCHAIN=local"),
	}
	pkgs, err := packages.Load(cfg, patterns...)
	if err != nil {
		return err
	}
	var errs []string
	for _, p := range pkgs {
		for _, e := range p.Errors {
			errs = append(errs, e.Error())
		}
	}
	if len(errs) > 0 {
		return fmt.Errorf("package errors:\n%s", strings.Join(errs, "\n"))
	}
	g.pkgs = pkgs
	prog, spkgs := ssautil.Packages(pkgs, ssa.NaiveForm|ssa.GlobalDebug)
	g.prog = prog
	for i, sp := range spkgs {
		if sp == nil {
			continue
		}
		sp.Build()
		g.spkgs[pkgs[i].PkgPath] = sp
		g.typesPkg[pkgs[i].PkgPath] = pkgs[i].Types
		for _, imp := range pkgs[i].Types.Imports() {
			g.typesPkg[imp.Path()] = imp
			if _, ok := g.pkgAlias[imp.Name()]; !ok {
				g.pkgAlias[imp.Name()] = imp.Path()
			}
		}
	}
	// well-known aliases used in contracts
	for _, kv := range [][2]string{
		{"v1alpha1", "github.com/openkruise/rollouts/api/v1alpha1"}, {"v1beta1", "github.com/openkruise/rollouts/api/v1beta1"},
		{"util", "github.com/openkruise/rollouts/pkg/util"}, {"intstr", "k8s.io/apimachinery/pkg/util/intstr"},
		{"apps", "k8s.io/api/apps/v1"}, {"corev1", "k8s.io/api/core/v1"}, {"metav1", "k8s.io/apimachinery/pkg/apis/meta/v1"},
		{"control", "github.com/openkruise/rollouts/pkg/controller/batchrelease/control"},
		{"kruiseappsv1alpha1", "github.com/openkruise/kruise-api/apps/v1alpha1"}, {"kruiseappsv1beta1", "github.com/openkruise/kruise-api/apps/v1beta1"},
		{"netv1", "k8s.io/api/networking/v1"}, {"gatewayv1beta1", "sigs.k8s.io/gateway-api/apis/v1beta1"},
		{"batchcontext", "github.com/openkruise/rollouts/pkg/controller/batchrelease/context"},
	} {
		g.pkgAlias[kv[0]] = kv[1]
	}
	// index functions
	for fn := range ssautil.AllFunctions(prog) {
		if len(fn.Blocks) == 0 || fn.Synthetic != "" && !strings.Contains(fn.Synthetic, "bound") {
			continue
		}
		if fn.Pkg == nil && fn.Parent() == nil {
			continue
		}
		g.funcs[g.fnName(fn)] = fn
	}
	// contract files
	for _, p := range pkgs {
		for _, f := range p.GoFiles {
			if filepath.Base(f) == "zz_verif_contracts.go" {
				if err := g.loadContractFile(f, p.PkgPath, p.Types); err != nil {
					return err
				}
				g.contractFiles = append(g.contractFiles, f)
			}
		}
	}
	g.loadTime = time.Since(t0)
	return nil
}

// selectFunctions: functions with contracts carrying one of the props (or all when props empty).
func (g *Gen) selectFunctions(props map[string]bool) ([]string, []string) {
	var keys, missing []string
	for k, c := range g.contracts {
		if c.Extern {
			continue
		}
		if len(props) > 0 {
			hit := false
			for _, p := range c.allProps() {
				if props[p] {
					hit = true
				}
			}
			if !hit {
				continue
			}
		}
		if _, ok := g.funcs[k]; !ok {
			// interface method contracts have no body
			if strings.Contains(k, ").") && g.isInterfaceKey(k) {
				continue
			}
			missing = append(missing, k)
			continue
		}
		keys = append(keys, k)
	}
	sort.Strings(keys)
	sort.Strings(missing)
	return keys, missing
}

func (c *Contract) allProps() []string {
	set := map[string]bool{}
	for _, p := range c.Props {
		set[p] = true
	}
	add := func(cs []*Clause) {
		for _, cl := range cs {
			for _, p := range cl.Props {
				set[p] = true
			}
		}
	}
	add(c.Requires)
	add(c.Ensures)
	for _, l := range c.LoopInv {
		add(l)
	}
	return sortedKeys(set)
}

func (g *Gen) isInterfaceKey(k string) bool {
	// pkg.(Name).Method where Name is an interface type in pkg
	i := strings.LastIndex(k, ".(")
	if i < 0 {
		return false
	}
	pkg := k[:i]
	rest := k[i+2:]
	j := strings.Index(rest, ")")
	if j < 0 {
		return false
	}
	name := strings.TrimPrefix(rest[:j], "*")
	tp := g.typesPkg[pkg]
	if tp == nil {
		return false
	}
	obj := tp.Scope().Lookup(name)
	if obj == nil {
		return false
	}
	_, ok := obj.Type().Underlying().(*types.Interface)
	return ok
}

// lemmaCtx: a function-less verification context holding one pure lemma obligation.
func (g *Gen) lemmaCtx(lm *Lemma) *FnCtx {
	pkgPath := ""
	if lm.Pkg != nil {
		pkgPath = lm.Pkg.Path()
	}
	fc := &FnCtx{g: g, name: pkgPath + ".lemma", q: newQuery(), vals: map[ssa.Value]Val{},
		exitStates: map[*ssa.BasicBlock]*State{}, edgeConds: map[*ssa.BasicBlock][]string{},
		oblNames: map[string]int{}, abstracted: map[string]bool{}, written: map[string]bool{},
		ghostSort: map[string]string{}, ghostInit: map[string]string{}, loopOf: map[*ssa.BasicBlock]*loopInfo{},
		backEdge: map[[2]int]bool{}, params: map[string]Val{}, paramTypes: map[string]types.Type{}, dupSafe: map[string]bool{}}
	st := &State{fc: fc, reach: "true", locals: map[*ssa.Alloc]string{}, heap: map[string]string{}, ghost: map[string]string{}, nonnil: map[string]bool{}, bounds: map[string]string{}, baseBound: "alloc0", young: map[string]string{}}
	st.allocB = fc.q.declare("alloc0", sInt)
	env := &Env{fc: fc, vars: map[string]Val{}, pre: st, cur: st, pkg: lm.Pkg}
	t, err := fc.evalBool(env, lm.Expr)
	if err != nil {
		fc.err = fmt.Errorf("lemma %s: %v", lm.Name, err)
		return fc
	}
	o := &Obligation{Fn: fc.name, Kind: "lemma", Label: lm.Name, Goal: t, NAsserts: len(fc.q.asserts), Props: lm.Props}
	fc.obls = append(fc.obls, o)
	return fc
}
