package main

import (
	"bufio"
	"fmt"
	"go/types"
	"os"
	"regexp"
	"strconv"
	"strings"
)

type Clause struct {
	Label string
	Text  string
	Expr  *Expr
	Cover *Expr
	Props []string
	File  string
	Line  int
}

type Contract struct {
	Key      string
	PkgPath  string
	Pkg      *types.Package
	Props    []string
	Requires []*Clause
	Ensures  []*Clause
	LoopInv  map[int][]*Clause
	Asserts  []*Clause
	Modifies []string // nil = inferred
	PureFns  []string // function-valued parameters promised to be side-effect free
	Pure     bool
	Extern   bool // assumed contract on a function outside the module / without body
	Assumed  bool // body exists but contract is assumed, not verified (must be listed)
	Inline   bool
	NoSafety bool
	Replay   string
	DynTypes []string // result's possible dynamic types (for interface-typed results)
	Effects  []Effect
	Invokes  string   // name of a function-typed parameter that is called exactly once, before any other effect
	Sets     []Effect // ghost fact definitions: @fact := expr (over results / post-state), assigned at return
	File     string
	Line     int
	used     bool
}

func (c *Contract) frame(g *Gen) *Frame {
	fr := newFrame()
	if c.Pure {
		return fr
	}
	for _, m := range c.Modifies {
		switch {
		case m == "*":
			fr.top = true
		case m == "nothing":
		case strings.HasPrefix(m, "@"):
			fr.facts[m[1:]] = true
		case strings.HasPrefix(m, "$"):
			fr.facts[m] = true
		default:
			fr.arrs[m] = true
		}
	}
	return fr
}

// Effect: ghost accumulator update performed by every call of the function: $Var += Expr (over the callee's parameters, pre-state).
type Effect struct {
	Var  string
	Expr *Expr
	Text string
}

type Macro struct {
	Params []string
	Body   *Expr
}

type SpecSig struct {
	Args []string
	Res  string
}

type Lemma struct {
	Name  string
	Text  string
	Expr  *Expr
	Props []string
	Pkg   *types.Package
	File  string
}

// ---------- expression AST ----------

type Expr struct {
	Op   string // ident, int, str, bool, nil, unary, binary, select, index, call, old, forall, exists, ghost, fact, deref, result, atloop
	Name string
	X, Y *Expr
	Args []*Expr
	Int  string
}

type lexer struct {
	toks []string
	pos  int
}

var tokRe = regexp.MustCompile(`\s*(<==>|==>|&&|\|\||==|!=|<=|>=|::|[A-Za-z_][A-Za-z0-9_$]*|[0-9]+|"(?:[^"\\]|\\.)*"|#[A-Za-z_][A-Za-z0-9_.]*|@[A-Za-z_][A-Za-z0-9_]*|\$[A-Za-z_][A-Za-z0-9_]*|[-+*/%!<>()\[\].,?:&])`)

func lex(s string) (*lexer, error) {
	var toks []string
	rest := s
	for strings.TrimSpace(rest) != "" {
		m := tokRe.FindStringSubmatchIndex(rest)
		if m == nil || m[0] != 0 {
			return nil, fmt.Errorf("cannot tokenize at %q", rest)
		}
		toks = append(toks, rest[m[2]:m[3]])
		rest = rest[m[1]:]
	}
	return &lexer{toks: toks}, nil
}

func (l *lexer) peek() string {
	if l.pos < len(l.toks) {
		return l.toks[l.pos]
	}
	return ""
}
func (l *lexer) next() string { t := l.peek(); l.pos++; return t }
func (l *lexer) accept(t string) bool {
	if l.peek() == t {
		l.pos++
		return true
	}
	return false
}
func (l *lexer) expect(t string) error {
	if !l.accept(t) {
		return fmt.Errorf("expected %q, got %q", t, l.peek())
	}
	return nil
}

func parseExpr(s string) (*Expr, error) {
	l, err := lex(s)
	if err != nil {
		return nil, err
	}
	e, err := l.parseIff()
	if err != nil {
		return nil, err
	}
	if l.pos != len(l.toks) {
		return nil, fmt.Errorf("trailing tokens from %q", l.peek())
	}
	return e, nil
}

func (l *lexer) parseIff() (*Expr, error) {
	x, err := l.parseImp()
	if err != nil {
		return nil, err
	}
	for l.accept("<==>") {
		y, err := l.parseImp()
		if err != nil {
			return nil, err
		}
		x = &Expr{Op: "binary", Name: "<==>", X: x, Y: y}
	}
	return x, nil
}

func (l *lexer) parseImp() (*Expr, error) {
	x, err := l.parseOr()
	if err != nil {
		return nil, err
	}
	if l.accept("==>") {
		y, err := l.parseImp() // right assoc
		if err != nil {
			return nil, err
		}
		return &Expr{Op: "binary", Name: "==>", X: x, Y: y}, nil
	}
	if l.accept("?") {
		a, err := l.parseImp()
		if err != nil {
			return nil, err
		}
		if err := l.expect(":"); err != nil {
			return nil, err
		}
		b, err := l.parseImp()
		if err != nil {
			return nil, err
		}
		return &Expr{Op: "call", Name: "ite", Args: []*Expr{x, a, b}}, nil
	}
	return x, nil
}

func (l *lexer) parseOr() (*Expr, error) {
	x, err := l.parseAnd()
	if err != nil {
		return nil, err
	}
	for l.accept("||") {
		y, err := l.parseAnd()
		if err != nil {
			return nil, err
		}
		x = &Expr{Op: "binary", Name: "||", X: x, Y: y}
	}
	return x, nil
}

func (l *lexer) parseAnd() (*Expr, error) {
	x, err := l.parseCmp()
	if err != nil {
		return nil, err
	}
	for l.accept("&&") {
		y, err := l.parseCmp()
		if err != nil {
			return nil, err
		}
		x = &Expr{Op: "binary", Name: "&&", X: x, Y: y}
	}
	return x, nil
}

func (l *lexer) parseCmp() (*Expr, error) {
	x, err := l.parseAdd()
	if err != nil {
		return nil, err
	}
	for {
		switch t := l.peek(); t {
		case "==", "!=", "<", "<=", ">", ">=":
			l.next()
			y, err := l.parseAdd()
			if err != nil {
				return nil, err
			}
			x = &Expr{Op: "binary", Name: t, X: x, Y: y}
		default:
			return x, nil
		}
	}
}

func (l *lexer) parseAdd() (*Expr, error) {
	x, err := l.parseMul()
	if err != nil {
		return nil, err
	}
	for {
		switch t := l.peek(); t {
		case "+", "-":
			l.next()
			y, err := l.parseMul()
			if err != nil {
				return nil, err
			}
			x = &Expr{Op: "binary", Name: t, X: x, Y: y}
		default:
			return x, nil
		}
	}
}

func (l *lexer) parseMul() (*Expr, error) {
	x, err := l.parseUnary()
	if err != nil {
		return nil, err
	}
	for {
		switch t := l.peek(); t {
		case "*", "/", "%":
			l.next()
			y, err := l.parseUnary()
			if err != nil {
				return nil, err
			}
			x = &Expr{Op: "binary", Name: t, X: x, Y: y}
		default:
			return x, nil
		}
	}
}

func (l *lexer) parseUnary() (*Expr, error) {
	switch t := l.peek(); t {
	case "!", "-":
		l.next()
		x, err := l.parseUnary()
		if err != nil {
			return nil, err
		}
		return &Expr{Op: "unary", Name: t, X: x}, nil
	case "*":
		l.next()
		x, err := l.parseUnary()
		if err != nil {
			return nil, err
		}
		return &Expr{Op: "deref", X: x}, nil
	case "&":
		l.next()
		x, err := l.parseUnary()
		if err != nil {
			return nil, err
		}
		return &Expr{Op: "addr", X: x}, nil
	}
	return l.parsePostfix()
}

func (l *lexer) parsePostfix() (*Expr, error) {
	x, err := l.parseAtom()
	if err != nil {
		return nil, err
	}
	for {
		switch {
		case l.accept("."):
			n := l.next()
			x = &Expr{Op: "select", Name: n, X: x}
		case l.accept("["):
			i, err := l.parseIff()
			if err != nil {
				return nil, err
			}
			if err := l.expect("]"); err != nil {
				return nil, err
			}
			x = &Expr{Op: "index", X: x, Y: i}
		case l.peek() == "(" && (x.Op == "ident" || x.Op == "select"):
			l.next()
			var args []*Expr
			for l.peek() != ")" {
				a, err := l.parseIff()
				if err != nil {
					return nil, err
				}
				args = append(args, a)
				if !l.accept(",") {
					break
				}
			}
			if err := l.expect(")"); err != nil {
				return nil, err
			}
			if x.Op == "ident" {
				x = &Expr{Op: "call", Name: x.Name, Args: args}
			} else {
				x = &Expr{Op: "mcall", Name: x.Name, X: x.X, Args: args}
			}
		default:
			return x, nil
		}
	}
}

var identRe = regexp.MustCompile(`^[A-Za-z_][A-Za-z0-9_$]*$`)

func (l *lexer) parseAtom() (*Expr, error) {
	t := l.next()
	switch {
	case t == "":
		return nil, fmt.Errorf("unexpected end of expression")
	case t == "(":
		e, err := l.parseIff()
		if err != nil {
			return nil, err
		}
		if err := l.expect(")"); err != nil {
			return nil, err
		}
		return e, nil
	case t == "true" || t == "false":
		return &Expr{Op: "bool", Name: t}, nil
	case t == "nil":
		return &Expr{Op: "nil"}, nil
	case t == "forall" || t == "exists":
		var vars []string
		for {
			v := l.next()
			if !identRe.MatchString(v) {
				return nil, fmt.Errorf("bad bound variable %q", v)
			}
			vars = append(vars, v)
			if !l.accept(",") {
				break
			}
		}
		if err := l.expect("::"); err != nil {
			return nil, err
		}
		body, err := l.parseIff()
		if err != nil {
			return nil, err
		}
		return &Expr{Op: t, Name: strings.Join(vars, ","), X: body}, nil
	case t[0] >= '0' && t[0] <= '9':
		return &Expr{Op: "int", Int: t}, nil
	case t[0] == '"':
		s, err := strconv.Unquote(t)
		if err != nil {
			return nil, err
		}
		return &Expr{Op: "str", Name: s}, nil
	case t[0] == '#':
		return &Expr{Op: "ghost", Name: t}, nil
	case t[0] == '@':
		return &Expr{Op: "fact", Name: t[1:]}, nil
	case t[0] == '$':
		return &Expr{Op: "gvar", Name: t}, nil
	case identRe.MatchString(t):
		return &Expr{Op: "ident", Name: t}, nil
	}
	return nil, fmt.Errorf("unexpected token %q", t)
}

// substitute macro parameters
func substExpr(e *Expr, m map[string]*Expr) *Expr {
	if e == nil {
		return nil
	}
	if e.Op == "ident" {
		if r, ok := m[e.Name]; ok {
			return r
		}
		return e
	}
	n := *e
	n.X = substExpr(e.X, m)
	n.Y = substExpr(e.Y, m)
	if e.Args != nil {
		n.Args = make([]*Expr, len(e.Args))
		for i, a := range e.Args {
			n.Args[i] = substExpr(a, m)
		}
	}
	return &n
}

// ---------- contract files ----------

var labelRe = regexp.MustCompile(`^([A-Za-z_][A-Za-z0-9_\-]*):\s+(.*)$`)
var propsRe = regexp.MustCompile(`^\{([A-Z0-9, ]+)\}\s*(.*)$`)

func (g *Gen) loadContractFile(path, pkgPath string, pkg *types.Package) error {
	f, err := os.Open(path)
	if err != nil {
		return err
	}
	defer f.Close()
	sc := bufio.NewScanner(f)
	sc.Buffer(make([]byte, 1<<20), 1<<20)
	var lines []struct {
		text string
		line int
	}
	ln := 0
	for sc.Scan() {
		ln++
		t := strings.TrimSpace(sc.Text())
		if strings.HasPrefix(t, "//@+") {
			if len(lines) > 0 {
				lines[len(lines)-1].text += " " + strings.TrimSpace(t[4:])
			}
			continue
		}
		if strings.HasPrefix(t, "//@") {
			lines = append(lines, struct {
				text string
				line int
			}{strings.TrimSpace(t[3:]), ln})
		}
	}
	var cur *Contract
	var curProps []string
	var lastClause *Clause
	for _, l := range lines {
		text := l.text
		if i := strings.Index(text, " //"); i >= 0 && !strings.Contains(text[:i], "\"") {
			text = strings.TrimSpace(text[:i])
		}
		kw, rest, _ := strings.Cut(text, " ")
		rest = strings.TrimSpace(rest)
		mk := func(rest string) (*Clause, error) {
			c := &Clause{File: path, Line: l.line, Props: curProps}
			if m := propsRe.FindStringSubmatch(rest); m != nil {
				c.Props = splitProps(m[1])
				rest = m[2]
			}
			if m := labelRe.FindStringSubmatch(rest); m != nil && !strings.HasPrefix(m[2], ":") {
				c.Label = m[1]
				rest = m[2]
			}
			c.Text = rest
			e, err := parseExpr(rest)
			if err != nil {
				return nil, fmt.Errorf("%s:%d: %v", path, l.line, err)
			}
			c.Expr = e
			return c, nil
		}
		switch kw {
		case "func", "extern", "assumed":
			key := rest
			if kw == "func" || kw == "assumed" {
				key = pkgPath + "." + rest
			}
			cur = &Contract{Key: key, PkgPath: pkgPath, Pkg: pkg, LoopInv: map[int][]*Clause{}, File: path, Line: l.line, Extern: kw == "extern", Assumed: kw == "assumed"}
			if old := g.contracts[key]; old != nil {
				return fmt.Errorf("%s:%d: duplicate contract for %s", path, l.line, key)
			}
			g.contracts[key] = cur
			curProps = nil
		case "props":
			ps := splitProps(rest)
			if cur != nil && len(cur.Requires)+len(cur.Ensures) == 0 && cur.Props == nil {
				cur.Props = ps
			}
			curProps = ps
		case "requires", "ensures", "assert":
			if cur == nil {
				return fmt.Errorf("%s:%d: clause outside func", path, l.line)
			}
			c, err := mk(rest)
			if err != nil {
				return err
			}
			switch kw {
			case "requires":
				if c.Label == "" {
					c.Label = fmt.Sprint(len(cur.Requires) + 1)
				}
				cur.Requires = append(cur.Requires, c)
			case "ensures":
				if c.Label == "" {
					c.Label = fmt.Sprint(len(cur.Ensures) + 1)
				}
				cur.Ensures = append(cur.Ensures, c)
			}
			lastClause = c
		case "cover":
			if lastClause == nil {
				return fmt.Errorf("%s:%d: cover without clause", path, l.line)
			}
			e, err := parseExpr(rest)
			if err != nil {
				return fmt.Errorf("%s:%d: %v", path, l.line, err)
			}
			lastClause.Cover = e
		case "loop":
			if cur == nil {
				return fmt.Errorf("%s:%d: loop outside func", path, l.line)
			}
			parts := strings.SplitN(rest, " ", 3)
			if len(parts) < 3 || parts[1] != "invariant" {
				return fmt.Errorf("%s:%d: expected 'loop N invariant expr'", path, l.line)
			}
			n, err := strconv.Atoi(parts[0])
			if err != nil {
				return fmt.Errorf("%s:%d: bad loop ordinal", path, l.line)
			}
			c, err := mk(parts[2])
			if err != nil {
				return err
			}
			if c.Label == "" {
				c.Label = fmt.Sprint(len(cur.LoopInv[n]) + 1)
			}
			cur.LoopInv[n] = append(cur.LoopInv[n], c)
		case "modifies":
			if cur == nil {
				return fmt.Errorf("%s:%d: modifies outside func", path, l.line)
			}
			if cur.Modifies == nil {
				cur.Modifies = []string{}
			}
			for _, m := range strings.Split(rest, ",") {
				m = strings.TrimSpace(m)
				if m != "" {
					cur.Modifies = append(cur.Modifies, m)
				}
			}
		case "pure":
			cur.Pure = true
			cur.Modifies = []string{}
		case "purefn":
			// purefn p: the function value passed as parameter p writes no memory (checked at every call site against
			// the inferred frame of the value passed; inside the function a call of p is then a pure call)
			if cur == nil || strings.TrimSpace(rest) == "" {
				return fmt.Errorf("%s:%d: purefn <parameter>", path, l.line)
			}
			cur.PureFns = append(cur.PureFns, strings.TrimSpace(rest))
		case "inline":
			cur.Inline = true
		case "nosafety":
			cur.NoSafety = true
		case "effect":
			m := regexp.MustCompile(`^(\$[A-Za-z_][A-Za-z0-9_]*)\s*\+=\s*(.*)$`).FindStringSubmatch(rest)
			if m == nil || cur == nil {
				return fmt.Errorf("%s:%d: effect $var += expr", path, l.line)
			}
			e, err := parseExpr(m[2])
			if err != nil {
				return fmt.Errorf("%s:%d: %v", path, l.line, err)
			}
			cur.Effects = append(cur.Effects, Effect{Var: m[1], Expr: e, Text: rest})
		case "invokes":
			if cur == nil {
				return fmt.Errorf("%s:%d: invokes outside func", path, l.line)
			}
			cur.Invokes = rest
		case "sets":
			m := regexp.MustCompile(`^@([A-Za-z_][A-Za-z0-9_]*)\s*:=\s*(.*)$`).FindStringSubmatch(rest)
			if m == nil || cur == nil {
				return fmt.Errorf("%s:%d: sets @fact := expr", path, l.line)
			}
			e, err := parseExpr(m[2])
			if err != nil {
				return fmt.Errorf("%s:%d: %v", path, l.line, err)
			}
			cur.Sets = append(cur.Sets, Effect{Var: m[1], Expr: e, Text: rest})
		case "replay":
			cur.Replay = rest
		case "dyntypes":
			cur.DynTypes = strings.Fields(rest)
		case "track":
			// track <function key relative to package or absolute> as <name>
			parts := strings.Fields(rest)
			if len(parts) == 3 && parts[1] == "as" {
				k := parts[0]
				if !strings.Contains(k, "/") {
					k = pkgPath + "." + k
				}
				g.tracked[k] = parts[2]
			} else {
				return fmt.Errorf("%s:%d: track <func> as <name>", path, l.line)
			}
		case "define":
			// define name(a, b) = expr
			m := regexp.MustCompile(`^([A-Za-z_][A-Za-z0-9_]*)\(([^)]*)\)\s*=\s*(.*)$`).FindStringSubmatch(rest)
			if m == nil {
				return fmt.Errorf("%s:%d: bad define", path, l.line)
			}
			e, err := parseExpr(m[3])
			if err != nil {
				return fmt.Errorf("%s:%d: %v", path, l.line, err)
			}
			var ps []string
			for _, p := range strings.Split(m[2], ",") {
				if p = strings.TrimSpace(p); p != "" {
					ps = append(ps, p)
				}
			}
			g.macros[pkgPath+"::"+m[1]] = &Macro{Params: ps, Body: e}
			if _, dup := g.macros[m[1]]; !dup {
				g.macros[m[1]] = &Macro{Params: ps, Body: e}
			}
		case "smt":
			g.userSMT = append(g.userSMT, rest)
			if m := regexp.MustCompile(`^\((?:define-fun|define-fun-rec|declare-fun)\s+(\S+)\s+\(([^)]*(?:\([^)]*\)[^)]*)*)\)\s+(\S+)`).FindStringSubmatch(rest); m != nil {
				sig := SpecSig{Res: m[3]}
				if strings.HasPrefix(rest, "(declare-fun") {
					for _, a := range strings.Fields(m[2]) {
						sig.Args = append(sig.Args, a)
					}
				} else {
					for _, pm := range regexp.MustCompile(`\(\s*\S+\s+(\S+)\s*\)`).FindAllStringSubmatch(m[2], -1) {
						sig.Args = append(sig.Args, pm[1])
					}
				}
				g.specFuncs[m[1]] = sig
			}
		case "fact":
			g.facts[rest] = true
		case "lemma":
			c, err := mk(rest)
			if err != nil {
				return err
			}
			g.lemmas = append(g.lemmas, &Lemma{Name: c.Label, Text: c.Text, Expr: c.Expr, Props: c.Props, Pkg: pkg, File: path})
		case "":
		default:
			return fmt.Errorf("%s:%d: unknown directive %q", path, l.line, kw)
		}
	}
	return nil
}

func splitProps(s string) []string {
	var ps []string
	for _, p := range strings.FieldsFunc(s, func(r rune) bool { return r == ',' || r == ' ' }) {
		ps = append(ps, p)
	}
	return ps
}

func (g *Gen) expandMacros(e *Expr, depth int) *Expr {
	if e == nil || depth > 20 {
		return e
	}
	n := *e
	n.X = g.expandMacros(e.X, depth)
	n.Y = g.expandMacros(e.Y, depth)
	if e.Args != nil {
		n.Args = make([]*Expr, len(e.Args))
		for i, a := range e.Args {
			n.Args[i] = g.expandMacros(a, depth)
		}
	}
	if n.Op == "call" {
		if m, ok := g.macros[n.Name]; ok && len(m.Params) == len(n.Args) {
			sub := map[string]*Expr{}
			for i, p := range m.Params {
				sub[p] = n.Args[i]
			}
			return g.expandMacros(substExpr(m.Body, sub), depth+1)
		}
	}
	return &n
}

// ghostsWithin: every call-log ghost of e belongs to the given name (e.g. "#f").
func ghostsWithin(e *Expr, name string) bool {
	if e == nil {
		return true
	}
	if e.Op == "ghost" && e.Name != name && !strings.HasPrefix(e.Name, name+".") {
		return false
	}
	if !ghostsWithin(e.X, name) || !ghostsWithin(e.Y, name) {
		return false
	}
	for _, a := range e.Args {
		if !ghostsWithin(a, name) {
			return false
		}
	}
	return true
}

func hasGhost(e *Expr) bool {
	if e == nil {
		return false
	}
	if e.Op == "ghost" {
		return true
	}
	if hasGhost(e.X) || hasGhost(e.Y) {
		return true
	}
	for _, a := range e.Args {
		if hasGhost(a) {
			return true
		}
	}
	return false
}

// hasGhostDeep: like hasGhost, looking through macros.
func (g *Gen) hasGhostDeep(e *Expr, pkgPath string, depth int) bool {
	if e == nil || depth > 25 {
		return false
	}
	if e.Op == "ghost" {
		return true
	}
	if e.Op == "call" {
		m, ok := g.macros[pkgPath+"::"+e.Name]
		if !ok {
			m, ok = g.macros[e.Name]
		}
		if ok && g.hasGhostDeep(m.Body, pkgPath, depth+1) {
			return true
		}
	}
	if g.hasGhostDeep(e.X, pkgPath, depth) || g.hasGhostDeep(e.Y, pkgPath, depth) {
		return true
	}
	for _, a := range e.Args {
		if g.hasGhostDeep(a, pkgPath, depth) {
			return true
		}
	}
	return false
}
