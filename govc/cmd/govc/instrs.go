package main

import (
	"fmt"
	"go/token"
	"go/types"
	"strings"

	"golang.org/x/tools/go/ssa"
)

func (fc *FnCtx) execBlock(st *State, b *ssa.BasicBlock) {
	li := fc.loopOf[b]
	invAssumed := li == nil
	for _, in := range b.Instrs {
		fc.curInstr = in
		if !invAssumed {
			if _, isPhi := in.(*ssa.Phi); !isPhi {
				fc.assumeLoopInv(li, st)
				invAssumed = true
			}
		}
		fc.exec(st, b, in)
		if fc.err != nil {
			return
		}
	}
}

func (fc *FnCtx) exec(st *State, b *ssa.BasicBlock, in ssa.Instruction) {
	ti := fc.g.ti
	switch x := in.(type) {
	case *ssa.DebugRef:
	case *ssa.Alloc:
		et := x.Type().Underlying().(*types.Pointer).Elem()
		if fc.isSimpleLocal(x) {
			st.locals[x] = zeroOf(ti.sortOf(et))
			return
		}
		if strings.Contains(et.String(), "deferStack") {
			fc.vals[x] = Val{T: "nilref"}
			return
		}
		ref := fc.allocObject(st, et)
		fc.vals[x] = Val{T: ref}
		if !x.Heap {
			fc.localObjs = append(fc.localObjs, &localObj{ref: ref, typ: et})
		}
	case *ssa.Phi:
		if li := fc.loopOf[b]; li != nil {
			v := fc.freshVal(st, x.Type(), "phi_"+x.Name())
			fc.vals[x] = v
			// monotone counter heuristic: entry value is a constant c and the back edge adds a positive constant
			fc.phiCounterFact(st, li, x, v)
			return
		}
		var preds []parentLink
		var vals []Val
		for i, p := range b.Preds {
			ps, ok := fc.exitStates[p]
			if !ok {
				continue
			}
			for si, s := range p.Succs {
				if s == b {
					preds = append(preds, parentLink{edge: and(ps.reach, fc.edgeConds[p][si]), st: ps})
					vals = append(vals, fc.val(ps, x.Edges[i]))
					break
				}
			}
		}
		if isStructLike(x.Type()) {
			fc.abstract("phi of struct value")
			fc.vals[x] = fc.freshVal(st, x.Type(), "phi")
			return
		}
		var terms []string
		for _, v := range vals {
			terms = append(terms, v.T)
		}
		fc.vals[x] = Val{T: mergeTerm(fc, "phi_"+x.Name(), ti.sortOf(x.Type()), preds, terms)}
	case *ssa.UnOp:
		fc.execUnOp(st, x)
	case *ssa.BinOp:
		fc.vals[x] = fc.binop(st, x.Op, fc.val(st, x.X), fc.val(st, x.Y), x.X.Type(), x.Pos(), shortExpr(x))
	case *ssa.Store:
		addr := fc.val(st, x.Addr)
		et := x.Addr.Type().Underlying().(*types.Pointer).Elem()
		if addr.Local == nil {
			fc.nilCheck(st, addr.T, shortExpr(x.Addr), x.Pos())
		}
		fc.storeAt(st, addr, fc.val(st, x.Val), et)
	case *ssa.FieldAddr:
		base := fc.val(st, x.X)
		stt := x.X.Type().Underlying().(*types.Pointer).Elem()
		fc.nilCheck(st, base.T, shortExpr(x.X), x.Pos())
		fc.vals[x] = fc.fieldAddrOf(base.T, stt, x.Field)
	case *ssa.Field:
		sv := fc.val(st, x.X)
		fc.vals[x] = fc.fieldOfStruct(sv.SV, x.X.Type(), x.Field)
	case *ssa.IndexAddr:
		fc.execIndexAddr(st, x)
	case *ssa.Index:
		// array value or string indexing
		if _, ok := x.X.Type().Underlying().(*types.Array); ok {
			av := fc.val(st, x.X)
			arrT := x.X.Type().Underlying().(*types.Array)
			idx := fc.val(st, x.Index).T
			if fc.safetyOn {
				fc.oblige(st, "safe-index", shortExpr(x), fmt.Sprintf("(and (<= 0 %s) (< %s %d))", idx, idx, arrT.Len()), x.Pos(), nil)
			}
			if av.SV == nil || av.SV.zero {
				fc.vals[x] = Val{T: zeroOf(ti.sortOf(x.Type()))}
				return
			}
			eref := embDyn(av.SV.ref, idx, ti.sizeOf(arrT.Elem()))
			fc.vals[x] = fc.loadAt(av.SV.st, Val{T: eref}, arrT.Elem())
			return
		}
		fc.abstract("string index")
		fc.vals[x] = fc.freshVal(st, x.Type(), "idx")
	case *ssa.Slice:
		fc.execSlice(st, x)
	case *ssa.MakeSlice:
		et := x.Type().Underlying().(*types.Slice).Elem()
		ln := fc.val(st, x.Len).T
		cp := fc.val(st, x.Cap).T
		ref := st.newRef()
		if fc.safetyOn {
			fc.oblige(st, "safe-makeslice", shortExpr(x), fmt.Sprintf("(and (<= 0 %s) (<= %s %s))", ln, ln, cp), x.Pos(), nil)
		}
		if ln != "0" {
			fc.zeroRange(st, ref, et, ln)
		}
		fc.vals[x] = Val{T: fmt.Sprintf("(mkslice %s %s %s)", ref, ln, cp)}
	case *ssa.MakeMap:
		ref := st.newRef()
		mt := x.Type().Underlying().(*types.Map)
		has, _, ln := fc.mapArrays(mt)
		ks := ti.sortOf(mt.Key())
		st.set(has, sto(st.get(has), ref, fmt.Sprintf("((as const (Array %s Bool)) false)", ks)))
		st.set(ln, sto(st.get(ln), ref, "0"))
		fc.vals[x] = Val{T: ref}
	case *ssa.MakeChan:
		fc.vals[x] = Val{T: st.newRef()}
	case *ssa.MakeInterface:
		fc.vals[x] = Val{T: fc.makeIface(st, fc.val(st, x.X), x.X.Type())}
	case *ssa.MakeClosure:
		fn := x.Fn.(*ssa.Function)
		env := st.newRef()
		// bindings are stored in a ghost environment object so that calls can recover them
		for i, bnd := range x.Bindings {
			bv := fc.val(st, bnd)
			arr := fmt.Sprintf("ENV_%d_%s", i, ti.sortOf(bnd.Type()))
			if bv.Arr != "" || bv.Local != nil || bv.SV != nil {
				fc.abstract("closure captures non-cell address")
				continue
			}
			fc.g.regArr(arr, ti.sortOf(bnd.Type()))
			st.heap[arr] = sto(st.get(arr), env, bv.T)
		}
		fc.vals[x] = Val{T: fmt.Sprintf("(mkfn %d %s)", fc.g.fnID(fn), env)}
		fc.g.closureOf[x] = fn
	case *ssa.ChangeInterface:
		fc.vals[x] = fc.val(st, x.X)
	case *ssa.ChangeType:
		fc.vals[x] = fc.val(st, x.X)
	case *ssa.Convert:
		fc.execConvert(st, x)
	case *ssa.TypeAssert:
		fc.execTypeAssert(st, x)
	case *ssa.Extract:
		tv := fc.val(st, x.Tuple)
		if x.Index < len(tv.Tup) {
			fc.vals[x] = tv.Tup[x.Index]
		} else {
			fc.abstract("extract from non-tuple")
			fc.vals[x] = fc.freshVal(st, x.Type(), "extract")
		}
	case *ssa.Lookup:
		fc.execLookup(st, x)
	case *ssa.MapUpdate:
		m := fc.val(st, x.Map).T
		mt := x.Map.Type().Underlying().(*types.Map)
		if fc.safetyOn {
			fc.oblige(st, "safe-mapnil", shortExpr(x.Map), not(eq(m, "nilref")), x.Pos(), nil)
		}
		fc.q.assert(implies(st.reach, not(eq(m, "nilref"))))
		has, val, ln := fc.mapArrays(mt)
		k := fc.val(st, x.Key)
		v := fc.val(st, x.Value)
		if k.SV != nil || v.SV != nil {
			fc.abstract("map with struct key/value")
			st.havocArrs([]string{has, val, ln})
			return
		}
		oldHas := sel(sel(st.get(has), m), k.T)
		oldLen := sel(st.get(ln), m)
		st.set(has, sto(st.get(has), m, sto(sel(st.get(has), m), k.T, "true")))
		st.set(val, sto(st.get(val), m, sto(sel(st.get(val), m), k.T, v.T)))
		st.set(ln, sto(st.get(ln), m, ite(oldHas, oldLen, fmt.Sprintf("(+ %s 1)", oldLen))))
	case *ssa.Range:
		// iterator: remember the collection
		fc.vals[x] = fc.val(st, x.X)
	case *ssa.Next:
		fc.execNext(st, x)
	case *ssa.Call:
		fc.vals[x] = fc.execCall(st, x, x.Common(), x.Type())
	case *ssa.Defer:
		fc.defers = append(fc.defers, deferred{instr: x, block: b})
	case *ssa.RunDefers:
		for i := len(fc.defers) - 1; i >= 0; i-- {
			d := fc.defers[i]
			if !d.block.Dominates(b) {
				fc.abstract("conditional defer")
				st.havocAll()
				continue
			}
			fc.execCall(st, d.instr, d.instr.Common(), nil)
		}
	case *ssa.If:
		c := fc.val(st, x.Cond).T
		fc.edgeConds[b] = []string{c, not(c)}
	case *ssa.Jump:
		fc.edgeConds[b] = []string{"true"}
	case *ssa.Return:
		var rs []Val
		for _, r := range x.Results {
			rs = append(rs, fc.val(st, r))
		}
		fc.returns = append(fc.returns, retPoint{st: st.clone(), results: rs, block: b})
		fc.edgeConds[b] = nil
	case *ssa.Panic:
		if fc.safetyOn {
			fc.oblige(st, "safe-panic", "explicit panic", "false", x.Pos(), nil)
		}
		fc.edgeConds[b] = nil
	default:
		fc.abstract(fmt.Sprintf("instruction %T", in))
		if v, ok := in.(ssa.Value); ok {
			fc.vals[v] = fc.freshVal(st, v.Type(), "unsupported")
		}
	}
}

func (fc *FnCtx) phiCounterFact(st *State, li *loopInfo, x *ssa.Phi, v Val) {
	if fc.g.ti.sortOf(x.Type()) != sInt {
		return
	}
	var init *ssa.Const
	okInc := true
	for i, p := range li.header.Preds {
		e := x.Edges[i]
		if li.blocks[p] {
			bo, ok := e.(*ssa.BinOp)
			if !ok || bo.Op != token.ADD || bo.X != ssa.Value(x) {
				okInc = false
				continue
			}
			c, ok := bo.Y.(*ssa.Const)
			if !ok || c.Value == nil || c.Int64() <= 0 {
				okInc = false
			}
		} else {
			c, ok := e.(*ssa.Const)
			if !ok || c.Value == nil {
				okInc = false
				continue
			}
			init = c
		}
	}
	if okInc && init != nil {
		fc.q.assert(implies(st.reach, fmt.Sprintf("(>= %s %s)", v.T, intLit(init.Int64()))))
	}
}

func (fc *FnCtx) execUnOp(st *State, x *ssa.UnOp) {
	ti := fc.g.ti
	switch x.Op {
	case token.MUL:
		addr := fc.val(st, x.X)
		et := x.X.Type().Underlying().(*types.Pointer).Elem()
		if addr.Local == nil {
			fc.nilCheck(st, addr.T, shortExpr(x.X), x.Pos())
		}
		v := fc.loadAt(st, addr, et)
		if addr.Local == nil && v.SV == nil {
			// name the loaded value and assert type invariants
			{
				c := fc.q.freshConst("ld_"+x.Name(), ti.sortOf(et))
				fc.q.assert(implies(st.reach, eq(c, v.T)))
				if needsInv(ti.sortOf(et), et) {
					arr := addr.Arr
					if arr == "" {
						arr = ti.cellArray(et)
					}
					fc.typeInvB(st, c, et, st.boundOf(arr))
				}
				v.T = c
			}
			if g, ok := x.X.(*ssa.Global); !ok || g == nil {
				fc.inputs = append(fc.inputs, InputTerm{Path: shortExpr(x), Term: v.T, Sort: ti.sortOf(et)})
			}
		}
		fc.vals[x] = v
	case token.NOT:
		fc.vals[x] = Val{T: not(fc.val(st, x.X).T)}
	case token.SUB:
		fc.vals[x] = Val{T: fmt.Sprintf("(- %s)", fc.val(st, x.X).T)}
	case token.XOR:
		fc.abstract("bitwise complement")
		fc.vals[x] = fc.freshVal(st, x.Type(), "xor")
	case token.ARROW:
		fc.abstract("channel receive")
		fc.vals[x] = fc.freshVal(st, x.Type(), "recv")
	default:
		fc.abstract("unop " + x.Op.String())
		fc.vals[x] = fc.freshVal(st, x.Type(), "unop")
	}
}

func needsInv(srt string, t types.Type) bool {
	switch srt {
	case sRef, sSlice, sIface:
		return true
	case sInt:
		if b, ok := t.Underlying().(*types.Basic); ok {
			switch b.Kind() {
			case types.Int8, types.Int16, types.Int32, types.Uint8, types.Uint16, types.Uint32, types.Uint, types.Uint64:
				return true
			}
		}
	}
	return false
}

func (fc *FnCtx) binop(st *State, op token.Token, a, b Val, operandT types.Type, p token.Pos, label string) Val {
	ti := fc.g.ti
	if isStructLike(operandT) && (op == token.EQL || op == token.NEQ) {
		var ls []Leaf
		ti.leaves(operandT, 0, "", &ls)
		var cs []string
		for _, l := range ls {
			cs = append(cs, eq(fc.svLeaf(a.SV, l), fc.svLeaf(b.SV, l)))
		}
		r := and(cs...)
		if op == token.NEQ {
			r = not(r)
		}
		return Val{T: r}
	}
	srt := ti.sortOf(operandT)
	x, y := a.T, b.T
	switch op {
	case token.EQL, token.NEQ:
		var r string
		if srt == sSlice {
			// only comparison with nil is legal
			if y == "nilslice" {
				r = eq("(sarr "+x+")", "nilref")
			} else {
				r = eq("(sarr "+y+")", "nilref")
			}
		} else if srt == sFn {
			if y == zeroOf(sFn) {
				r = eq("(fid "+x+")", "0")
			} else {
				r = eq("(fid "+y+")", "0")
			}
		} else if srt == sIface {
			// comparing with nil interface: tag test is enough
			if y == zeroOf(sIface) {
				r = eq("(itag "+x+")", "0")
			} else if x == zeroOf(sIface) {
				r = eq("(itag "+y+")", "0")
			} else {
				r = eq(x, y)
			}
		} else {
			r = eq(x, y)
		}
		if op == token.NEQ {
			r = not(r)
		}
		return Val{T: r}
	case token.LSS, token.LEQ, token.GTR, token.GEQ:
		if srt == sStr {
			switch op {
			case token.LSS:
				return Val{T: app("strLess", x, y)}
			case token.GTR:
				return Val{T: app("strLess", y, x)}
			case token.LEQ:
				return Val{T: not(app("strLess", y, x))}
			default:
				return Val{T: not(app("strLess", x, y))}
			}
		}
		m := map[token.Token]string{token.LSS: "<", token.LEQ: "<=", token.GTR: ">", token.GEQ: ">="}
		return Val{T: app(m[op], x, y)}
	case token.ADD:
		if srt == sStr {
			return Val{T: fc.concat(x, y)}
		}
		return Val{T: app("+", x, y)}
	case token.SUB:
		return Val{T: app("-", x, y)}
	case token.MUL:
		return Val{T: app("*", x, y)}
	case token.QUO:
		if isFloat(operandT) {
			fc.abstract("float division")
			return Val{T: fc.q.freshConst("fdiv", sInt)}
		}
		if fc.safetyOn {
			fc.oblige(st, "safe-div", label, not(eq(y, "0")), p, nil)
		}
		return Val{T: app("tdiv", x, y)}
	case token.REM:
		if fc.safetyOn {
			fc.oblige(st, "safe-div", label, not(eq(y, "0")), p, nil)
		}
		return Val{T: app("tmod", x, y)}
	case token.AND, token.OR, token.XOR, token.SHL, token.SHR, token.AND_NOT:
		if srt == sBool {
			if op == token.AND {
				return Val{T: and(x, y)}
			}
			if op == token.OR {
				return Val{T: or(x, y)}
			}
		}
		return Val{T: app("bitop", intLit(int64(op)), x, y)}
	}
	fc.abstract("binop " + op.String())
	return Val{T: fc.q.freshConst("binop", srt)}
}

func isFloat(t types.Type) bool {
	b, ok := t.Underlying().(*types.Basic)
	return ok && b.Info()&types.IsFloat != 0
}

func (fc *FnCtx) concat(x, y string) string {
	if y == fc.q.lit("%") && strings.HasPrefix(x, "(itoa ") {
		n := x[len("(itoa ") : len(x)-1]
		return fc.pctTerm(n)
	}
	if x == "lit_empty" {
		return y
	}
	if y == "lit_empty" {
		return x
	}
	return app("strcat", x, y)
}

func (fc *FnCtx) pctTerm(n string) string {
	t := app("pct", n)
	if strings.Contains(n, "q_") {
		// under a binder: the instance cannot be asserted, so the axiom itself is added (once) to this function's queries
		ax := "(assert (forall ((pn Int)) (! (and (isPct (pct pn)) (= (pctNum (pct pn)) pn)) :pattern ((pct pn)))))"
		for _, a := range fc.q.axioms {
			if a == ax {
				return t
			}
		}
		fc.q.axioms = append(fc.q.axioms, ax)
		return t
	}
	fc.q.assert(fmt.Sprintf("(and (isPct %s) (= (pctNum %s) %s))", t, t, n))
	return t
}

func (fc *FnCtx) execIndexAddr(st *State, x *ssa.IndexAddr) {
	ti := fc.g.ti
	idx := fc.val(st, x.Index).T
	base := fc.val(st, x.X)
	switch t := x.X.Type().Underlying().(type) {
	case *types.Slice:
		if fc.safetyOn {
			fc.oblige(st, "safe-index", shortExpr(x), fmt.Sprintf("(and (<= 0 %s) (< %s (slen %s)))", idx, idx, base.T), x.Pos(), nil)
		}
		fc.q.assert(implies(st.reach, fmt.Sprintf("(and (<= 0 %s) (< %s (slen %s)))", idx, idx, base.T)))
		fc.vals[x] = Val{T: embDyn("(sarr "+base.T+")", idx, ti.sizeOf(t.Elem()))}
	case *types.Pointer:
		at := t.Elem().Underlying().(*types.Array)
		fc.nilCheck(st, base.T, shortExpr(x.X), x.Pos())
		if fc.safetyOn {
			if _, isConst := x.Index.(*ssa.Const); !isConst {
				fc.oblige(st, "safe-index", shortExpr(x), fmt.Sprintf("(and (<= 0 %s) (< %s %d))", idx, idx, at.Len()), x.Pos(), nil)
			}
		}
		fc.vals[x] = Val{T: embDyn(base.T, idx, ti.sizeOf(at.Elem()))}
	default:
		fc.abstract("indexaddr on " + x.X.Type().String())
		fc.vals[x] = fc.freshVal(st, x.Type(), "idxaddr")
	}
}

func (fc *FnCtx) execSlice(st *State, x *ssa.Slice) {
	ti := fc.g.ti
	base := fc.val(st, x.X)
	opt := func(v ssa.Value, def string) string {
		if v == nil {
			return def
		}
		return fc.val(st, v).T
	}
	switch t := x.X.Type().Underlying().(type) {
	case *types.Slice:
		lo := opt(x.Low, "0")
		hi := opt(x.High, "(slen "+base.T+")")
		mx := opt(x.Max, "(scap "+base.T+")")
		if fc.safetyOn && (x.Low != nil || x.High != nil || x.Max != nil) {
			fc.oblige(st, "safe-slice", shortExpr(x), fmt.Sprintf("(and (<= 0 %s) (<= %s %s) (<= %s %s) (<= %s (scap %s)))", lo, lo, hi, hi, mx, mx, base.T), x.Pos(), nil)
		}
		if x.Low == nil && x.High == nil && x.Max == nil {
			fc.vals[x] = base
			return
		}
		fc.q.assert(implies(st.reach, fmt.Sprintf("(and (<= 0 %s) (<= %s %s) (<= %s (scap %s)))", lo, lo, hi, hi, base.T)))
		fc.vals[x] = Val{T: fmt.Sprintf("(mkslice %s (- %s %s) (- %s %s))", embDyn("(sarr "+base.T+")", lo, ti.sizeOf(t.Elem())), hi, lo, mx, lo)}
	case *types.Pointer:
		at := t.Elem().Underlying().(*types.Array)
		n := fmt.Sprint(at.Len())
		lo := opt(x.Low, "0")
		hi := opt(x.High, n)
		mx := opt(x.Max, n)
		if fc.safetyOn && (x.Low != nil || x.High != nil) {
			fc.oblige(st, "safe-slice", shortExpr(x), fmt.Sprintf("(and (<= 0 %s) (<= %s %s) (<= %s %s))", lo, lo, hi, hi, n), x.Pos(), nil)
		}
		sl := fmt.Sprintf("(mkslice %s (- %s %s) (- %s %s))", embDyn(base.T, lo, ti.sizeOf(at.Elem())), hi, lo, mx, lo)
		if lo == "0" {
			sl = fmt.Sprintf("(mkslice %s %s %s)", base.T, hi, mx)
		}
		fc.vals[x] = Val{T: sl}
	default:
		// string slicing
		if fc.safetyOn {
			lo := opt(x.Low, "0")
			hi := opt(x.High, "(strlen "+base.T+")")
			fc.oblige(st, "safe-slice", shortExpr(x), fmt.Sprintf("(and (<= 0 %s) (<= %s %s) (<= %s (strlen %s)))", lo, lo, hi, hi, base.T), x.Pos(), nil)
		}
		c := fc.q.freshConst("substr", sStr)
		fc.typeInv(st, c, x.Type())
		fc.vals[x] = Val{T: c}
	}
}

// zeroRange: the first n elements of the fresh array at ref are zero (quantified axiom on fresh base).
func (fc *FnCtx) zeroRange(st *State, ref string, et types.Type, n string) {
	ti := fc.g.ti
	var ls []Leaf
	ti.leaves(et, 0, "", &ls)
	sz := ti.sizeOf(et)
	seen := map[string]bool{}
	for _, l := range ls {
		if seen[l.arr] {
			continue
		}
		seen[l.arr] = true
		fc.g.regArr(l.arr, l.sort)
		// new version equal to old except zero on the fresh base
		nv := fc.q.freshConst(l.arr+"@mk", fc.g.arrSort[l.arr])
		old := st.get(l.arr)
		fc.q.assert(implies(st.reach, fmt.Sprintf("(forall ((zr Ref)) (! (= (select %s zr) (ite (= (rbase zr) (rbase %s)) %s (select %s zr))) :pattern ((select %s zr))))", nv, ref, zeroOf(l.sort), old, nv)))
		st.heap[l.arr] = nv
		fc.written[l.arr] = true
	}
	_ = sz
	fc.abstract("quantified zero-initialisation of make([]T, n)")
}

func (fc *FnCtx) mapArrays(mt *types.Map) (has, val, ln string) {
	ti := fc.g.ti
	ks, vs := ti.sortOf(mt.Key()), ti.sortOf(mt.Elem())
	if ks == "" {
		ks = sInt
	}
	if vs == "" {
		vs = sRef // struct-valued maps: values boxed (unsupported precisely)
	}
	n := "M_" + ti.short(mt.Key()) + "_" + ti.short(mt.Elem())
	has, val, ln = n+"_has", n+"_val", n+"_len"
	if _, ok := fc.g.arrSort[has]; !ok {
		fc.g.arrSort[has] = arrSortOf(sRef, arrSortOf(ks, sBool))
		fc.g.arrSort[val] = arrSortOf(sRef, arrSortOf(ks, vs))
		fc.g.arrSort[ln] = arrSortOf(sRef, sInt)
	}
	return
}

func (fc *FnCtx) mapHas(st *State, mt *types.Map, m, k string) string {
	has, _, _ := fc.mapArrays(mt)
	return and(not(eq(m, "nilref")), sel(sel(st.get(has), m), k))
}

func (fc *FnCtx) mapGet(st *State, mt *types.Map, m, k string) string {
	_, val, _ := fc.mapArrays(mt)
	return ite(fc.mapHas(st, mt, m, k), sel(sel(st.get(val), m), k), zeroOf(fc.g.ti.sortOf(mt.Elem())))
}

func (fc *FnCtx) mapLen(st *State, mt *types.Map, m string) string {
	_, _, ln := fc.mapArrays(mt)
	c := fc.q.freshConst("maplen", sInt)
	fc.q.assert(implies(st.reach, fmt.Sprintf("(and (>= %s 0) (= %s (ite (= %s nilref) 0 (select %s %s))))", c, c, m, st.get(ln), m)))
	return c
}

func (fc *FnCtx) execLookup(st *State, x *ssa.Lookup) {
	ti := fc.g.ti
	mt, ok := x.X.Type().Underlying().(*types.Map)
	if !ok {
		fc.abstract("string lookup")
		fc.vals[x] = fc.freshVal(st, x.Type(), "lookup")
		return
	}
	m := fc.val(st, x.X).T
	k := fc.val(st, x.Index)
	if k.SV != nil || isStructLike(mt.Elem()) {
		fc.abstract("map with struct key/value")
		fc.vals[x] = fc.freshVal(st, x.Type(), "lookup")
		return
	}
	v := fc.mapGet(st, mt, m, k.T)
	if needsInv(ti.sortOf(mt.Elem()), mt.Elem()) || ti.sortOf(mt.Elem()) == sStr {
		c := fc.q.freshConst("mv_"+x.Name(), ti.sortOf(mt.Elem()))
		fc.q.assert(implies(st.reach, eq(c, v)))
		fc.typeInv(st, c, mt.Elem())
		v = c
	}
	if x.CommaOk {
		fc.vals[x] = Val{Tup: []Val{{T: v}, {T: fc.mapHas(st, mt, m, k.T)}}}
	} else {
		fc.vals[x] = Val{T: v}
	}
}

func (fc *FnCtx) execNext(st *State, x *ssa.Next) {
	ti := fc.g.ti
	rng := x.Iter.(*ssa.Range)
	tup := x.Type().(*types.Tuple)
	ok := fc.q.freshConst("next_ok", sBool)
	if mt, isMap := rng.X.Type().Underlying().(*types.Map); isMap && !isStructLike(mt.Elem()) && !isStructLike(mt.Key()) {
		m := fc.val(st, rng.X).T
		k := fc.freshVal(st, mt.Key(), "next_k")
		fc.q.assert(implies(and(st.reach, ok), fc.mapHas(st, mt, m, k.T)))
		v := fc.mapGet(st, mt, m, k.T)
		vc := fc.q.freshConst("next_v", ti.sortOf(mt.Elem()))
		fc.q.assert(implies(st.reach, eq(vc, v)))
		fc.typeInv(st, vc, mt.Elem())
		fc.vals[x] = Val{Tup: []Val{{T: ok}, k, {T: vc}}}
		fc.mapCopySummary(st, x, mt, m, ok)
		return
	}
	fc.abstract("range over " + rng.X.Type().String())
	fc.vals[x] = Val{Tup: []Val{{T: ok}, fc.freshVal(st, tup.At(1).Type(), "next_k"), fc.freshVal(st, tup.At(2).Type(), "next_v")}}
}

// makeIface boxes v (of static type t) into an interface value.
func (fc *FnCtx) makeIface(st *State, v Val, t types.Type) string {
	ti := fc.g.ti
	if _, isIface := t.Underlying().(*types.Interface); isIface {
		return v.T
	}
	id := ti.typeID(t)
	if isStructLike(t) {
		ref := fc.materialize(st, v.SV, t)
		return fmt.Sprintf("(mkiface %d %s 0 lit_empty)", id, ref)
	}
	switch ti.sortOf(t) {
	case sRef:
		return fmt.Sprintf("(mkiface %d %s 0 lit_empty)", id, v.T)
	case sInt:
		return fmt.Sprintf("(mkiface %d nilref %s lit_empty)", id, v.T)
	case sBool:
		return fmt.Sprintf("(mkiface %d nilref (ite %s 1 0) lit_empty)", id, v.T)
	case sStr:
		return fmt.Sprintf("(mkiface %d nilref 0 %s)", id, v.T)
	case sFn:
		return fmt.Sprintf("(mkiface %d (fenv %s) (fid %s) lit_empty)", id, v.T, v.T)
	case sSlice:
		ref := st.newRef()
		arr := ti.cellArray(t)
		fc.g.regArr(arr, sSlice)
		st.set(arr, sto(st.get(arr), ref, v.T))
		return fmt.Sprintf("(mkiface %d %s 0 lit_empty)", id, ref)
	}
	return fmt.Sprintf("(mkiface %d nilref 0 lit_empty)", id)
}

func (fc *FnCtx) unbox(st *State, iface string, t types.Type) Val {
	ti := fc.g.ti
	if isStructLike(t) {
		return Val{SV: &StructVal{st: st.clone(), ref: "(iref " + iface + ")"}}
	}
	switch ti.sortOf(t) {
	case sRef:
		return Val{T: "(iref " + iface + ")"}
	case sInt:
		return Val{T: "(iint " + iface + ")"}
	case sBool:
		return Val{T: "(= (iint " + iface + ") 1)"}
	case sStr:
		return Val{T: "(istr " + iface + ")"}
	case sSlice:
		arr := ti.cellArray(t)
		fc.g.regArr(arr, sSlice)
		return Val{T: sel(st.get(arr), "(iref "+iface+")")}
	case sFn:
		return Val{T: fmt.Sprintf("(mkfn (iint %s) (iref %s))", iface, iface)}
	}
	return fc.freshVal(st, t, "unbox")
}

func (fc *FnCtx) execTypeAssert(st *State, x *ssa.TypeAssert) {
	ti := fc.g.ti
	iv := fc.val(st, x.X).T
	var ok string
	var v Val
	if _, isIface := x.AssertedType.Underlying().(*types.Interface); isIface {
		f := fc.q.declareFun("implements_"+ti.short(x.AssertedType), []string{sInt}, sBool)
		ok = and(not(eq("(itag "+iv+")", "0")), app(f, "(itag "+iv+")"))
		// statically known: if the operand's static interface type implements the target, only nil fails
		if types.Implements(x.X.Type(), x.AssertedType.Underlying().(*types.Interface)) {
			ok = not(eq("(itag "+iv+")", "0"))
		}
		v = Val{T: iv}
	} else {
		ok = eq("(itag "+iv+")", fmt.Sprint(ti.typeID(x.AssertedType)))
		v = fc.unbox(st, iv, x.AssertedType)
	}
	if x.CommaOk {
		// on failure the value is the zero value
		if v.SV == nil {
			v.T = ite(ok, v.T, zeroOf(ti.sortOf(x.AssertedType)))
		}
		fc.vals[x] = Val{Tup: []Val{v, {T: ok}}}
		return
	}
	if fc.safetyOn {
		fc.oblige(st, "safe-assert", shortExpr(x), ok, x.Pos(), nil)
	}
	fc.q.assert(implies(st.reach, ok))
	fc.vals[x] = v
}

func (fc *FnCtx) execConvert(st *State, x *ssa.Convert) {
	ti := fc.g.ti
	from, to := x.X.Type(), x.Type()
	fs, ts := ti.sortOf(from), ti.sortOf(to)
	v := fc.val(st, x.X)
	switch {
	case fs == sInt && ts == sInt:
		if isFloat(from) != isFloat(to) {
			fc.abstract("int/float conversion treated as exact")
		}
		fc.vals[x] = Val{T: v.T}
	case fs == sStr && ts == sStr:
		fc.vals[x] = v
	case fs == sRef && ts == sRef:
		fc.vals[x] = v
	case fs == sStr && ts == sSlice:
		// []byte(s): injective uninterpreted function
		r := app("bytesOf", v.T)
		fc.q.assert(eq(app("strOfBytes", r), v.T))
		fc.vals[x] = Val{T: r}
	case fs == sSlice && ts == sStr:
		fc.vals[x] = Val{T: app("strOfBytes", v.T)}
	default:
		fc.abstract(fmt.Sprintf("convert %s -> %s", from, to))
		fc.vals[x] = fc.freshVal(st, to, "conv")
	}
}

// mapCopySummary: the loop `for k, v := range src { dst[k] = v }` (nothing else in its body) copies src into dst. The
// range semantics ("every key is visited once") cannot be expressed by a loop invariant over the havocked state, so this
// one idiom is summarised: at the loop head dst holds its entries from before the loop plus copies of entries of src;
// when the iteration ends every entry of src is in dst with src's value and every other key is as before the loop.
// (Assumed, listed under the trusted rules; it only fires on the exact syntactic shape checked by mapCopyIdiom.)
func (fc *FnCtx) mapCopySummary(st *State, n *ssa.Next, mt *types.Map, src string, ok string) {
	li := fc.loopOf[n.Block()]
	if li == nil || li.header != n.Block() || li.entrySt == nil {
		return
	}
	mu := fc.mapCopyIdiom(li, n)
	if mu == nil {
		return
	}
	ks := fc.g.ti.sortOf(mt.Key())
	if ks == "" {
		return
	}
	var dst string
	if ld, isLoad := mu.Map.(*ssa.UnOp); isLoad {
		// the map variable is read inside the body; it is not assigned there (mapCopyIdiom), so its value at the head is the one used
		a := ld.X.(*ssa.Alloc)
		dst = fc.loadAt(st, fc.val(st, a), a.Type().Underlying().(*types.Pointer).Elem()).T
	} else if _, seen := fc.vals[mu.Map]; seen {
		dst = fc.val(st, mu.Map).T
	}
	if dst == "" {
		return
	}
	fc.useTrusted("the loop `for k, v := range src { dst[k] = v }` copies every entry of src into dst and changes nothing else")
	hasA, valA, _ := fc.mapArrays(mt)
	pre := li.entrySt
	hc, vc := sel(st.get(hasA), dst), sel(st.get(valA), dst)
	hp, vp := sel(pre.get(hasA), dst), sel(pre.get(valA), dst)
	hs, vs := sel(st.get(hasA), src), sel(st.get(valA), src)
	h := func(a string) string {
		if a == hs {
			// a nil source map has no entries
			return "(and (not (= " + src + " nilref)) (select " + a + " ck))"
		}
		return "(select " + a + " ck)"
	}
	partial := fmt.Sprintf("(forall ((ck %s)) (! (=> %s (or (and %s (= %s %s)) (and %s (= %s %s)))) :pattern (%s) :pattern (%s)))",
		ks, h(hc), h(hs), h(vc), h(vs), h(hp), h(vc), h(vp), h(hc), h(vc))
	complete := fmt.Sprintf("(forall ((ck %s)) (! (and (=> %s (and %s (= %s %s))) (=> (not %s) (and (= %s %s) (= %s %s)))) :pattern (%s) :pattern (%s)))",
		ks, h(hs), h(hc), h(vc), h(vs), h(hs), h(hc), h(hp), h(vc), h(vp), h(hc), h(vc))
	notSame := not(eq(dst, src))
	fc.q.assert(implies(and(st.reach, notSame, not(eq(dst, "nilref"))), partial))
	fc.q.assert(implies(and(st.reach, notSame, not(eq(dst, "nilref")), not(ok)), complete))
}

// mapCopyIdiom: the body of loop li (a range over a map driven by n) is exactly one `dst[k] = v` with k, v the range
// variables and dst a map that the loop does not reassign. Returns that MapUpdate, or nil.
func (fc *FnCtx) mapCopyIdiom(li *loopInfo, n *ssa.Next) *ssa.MapUpdate {
	var mu *ssa.MapUpdate
	stores := map[*ssa.Alloc][]ssa.Value{}
	for b := range li.blocks {
		for _, in := range b.Instrs {
			switch x := in.(type) {
			case *ssa.Next:
				if x != n {
					return nil
				}
			case *ssa.Extract:
				if x.Tuple != ssa.Value(n) {
					return nil
				}
			case *ssa.If, *ssa.Jump, *ssa.DebugRef, *ssa.Alloc:
			case *ssa.UnOp:
				if x.Op != token.MUL {
					return nil
				}
				if _, isAlloc := x.X.(*ssa.Alloc); !isAlloc {
					return nil
				}
			case *ssa.Store:
				a, isAlloc := x.Addr.(*ssa.Alloc)
				if !isAlloc {
					return nil
				}
				stores[a] = append(stores[a], x.Val)
			case *ssa.MapUpdate:
				if mu != nil {
					return nil
				}
				mu = x
			default:
				return nil
			}
		}
	}
	if mu == nil {
		return nil
	}
	fromNext := func(v ssa.Value, idx int) bool {
		ld, ok := v.(*ssa.UnOp)
		if !ok {
			return false
		}
		a, ok := ld.X.(*ssa.Alloc)
		if !ok || len(stores[a]) != 1 {
			return false
		}
		ex, ok := stores[a][0].(*ssa.Extract)
		return ok && ex.Tuple == ssa.Value(n) && ex.Index == idx
	}
	if !fromNext(mu.Key, 1) || !fromNext(mu.Value, 2) {
		return nil
	}
	// the destination map variable is not assigned inside the loop
	if ld, ok := mu.Map.(*ssa.UnOp); ok {
		if a, isAlloc := ld.X.(*ssa.Alloc); isAlloc && len(stores[a]) > 0 {
			return nil
		}
	}
	return mu
}
