package main

import "golang.org/x/tools/go/ssa"

type ssaFn = ssa.Function

func cmdCheck(args []string) int { return 2 }
