package main

import (
	"bufio"
	"encoding/json"
	"flag"
	"fmt"
	"os"
	"path/filepath"
	"regexp"
	"sort"
	"strconv"
	"strings"
	"sync"
	"time"

	"golang.org/x/tools/go/ssa"
)

type ssaFn = ssa.Function

type Finding struct {
	Fixed      bool
	Prop       string
	Obligation string
	When       string
	Desc       string
	Line       string
}

var findingRe = regexp.MustCompile(`^finding:\s+property=(\S+)\s+obligation=(\S+)\s+when=(.*?)\s+::\s+(.*)$`)
var fixedRe = regexp.MustCompile(`^fixed:\s+property=(\S+)\s+(\S+)\s+(.*)$`)

func loadFindings(path string) ([]*Finding, error) {
	f, err := os.Open(path)
	if err != nil {
		if os.IsNotExist(err) {
			return nil, nil
		}
		return nil, err
	}
	defer f.Close()
	var out []*Finding
	sc := bufio.NewScanner(f)
	for sc.Scan() {
		l := strings.TrimSpace(sc.Text())
		if l == "" || strings.HasPrefix(l, "#") {
			continue
		}
		if m := findingRe.FindStringSubmatch(l); m != nil {
			out = append(out, &Finding{Prop: m[1], Obligation: m[2], When: m[3], Desc: m[4], Line: l})
			continue
		}
		if m := fixedRe.FindStringSubmatch(l); m != nil {
			out = append(out, &Finding{Fixed: true, Prop: m[1], Desc: m[3], Line: l})
			continue
		}
		return nil, fmt.Errorf("known-findings: cannot parse %q", l)
	}
	return out, nil
}

func loadLock(path string) (map[string]map[string]bool, error) {
	lock := map[string]map[string]bool{}
	f, err := os.Open(path)
	if err != nil {
		if os.IsNotExist(err) {
			return lock, nil
		}
		return nil, err
	}
	defer f.Close()
	sc := bufio.NewScanner(f)
	sc.Buffer(make([]byte, 1<<20), 1<<20)
	for sc.Scan() {
		l := strings.TrimSpace(sc.Text())
		if l == "" || strings.HasPrefix(l, "#") {
			continue
		}
		p, name, ok := strings.Cut(l, " ")
		if !ok {
			continue
		}
		if strings.HasPrefix(name, "!fail ") {
			// baseline: obligation that is generated but not discharged on the unchanged tree (never claimed)
			p, name = p+"!", strings.TrimPrefix(name, "!fail ")
		}
		if lock[p] == nil {
			lock[p] = map[string]bool{}
		}
		lock[p][name] = true
	}
	return lock, nil
}

func hasProp(ps []string, p string) bool {
	for _, x := range ps {
		if x == p {
			return true
		}
	}
	return false
}

type fnResult struct {
	key string
	fc  *FnCtx
}

// runProperty generates and solves everything for one property.
func runProperty(g *Gen, prop string, cfg SolverCfg, findings []*Finding) ([]*fnResult, []string, error) {
	keys, missing := g.selectFunctions(map[string]bool{prop: true})
	g.prepareFrames(keys)
	results := make([]*fnResult, len(keys))
	var wg sync.WaitGroup
	// generation is sequential (shared type/array registries); solving is parallel
	for i, k := range keys {
		fn := g.funcs[k]
		con := g.contracts[k]
		fc := g.genFunction(fn, con, !con.NoSafety)
		results[i] = &fnResult{key: k, fc: fc}
		if fc.err != nil {
			continue
		}
		// keep only this property's obligations
		var mine []*Obligation
		for _, o := range fc.obls {
			if hasProp(o.Props, prop) {
				mine = append(mine, o)
			}
		}
		// known-finding twins: the obligation restricted to inputs outside the recorded region
		for _, f := range findings {
			if f.Fixed || f.Prop != prop {
				continue
			}
			for _, o := range mine {
				if o.Name() != f.Obligation {
					continue
				}
				e, err := parseExpr(f.When)
				if err != nil {
					return nil, nil, fmt.Errorf("known-findings: %q: %v", f.When, err)
				}
				env := fc.selfEnv(fc.entry, fc.entry, nil)
				w, err := fc.evalBool(env, g.expandMacros(e, 0))
				if err != nil {
					return nil, nil, fmt.Errorf("known-findings: %q: %v", f.When, err)
				}
				twin := &Obligation{Fn: o.Fn, Kind: o.Kind, Label: o.Label + "!outside-known", Goal: implies(not(w), o.Goal), NAsserts: len(fc.q.asserts), Pos: o.Pos, Props: o.Props, Inputs: o.Inputs}
				mine = append(mine, twin)
				break
			}
		}
		sort.SliceStable(mine, func(a, b int) bool { return mine[a].NAsserts < mine[b].NAsserts })
		fc.obls = mine
	}
	// pure lemmas over spec macros
	for _, lm := range g.lemmas {
		if !hasProp(lm.Props, prop) {
			continue
		}
		fc := g.lemmaCtx(lm)
		results = append(results, &fnResult{key: fc.name, fc: fc})
	}
	sem := make(chan struct{}, 4)
	for _, r := range results {
		if r.fc.err != nil {
			continue
		}
		wg.Add(1)
		sem <- struct{}{}
		go func(fc *FnCtx) {
			defer wg.Done()
			defer func() { <-sem }()
			solveFunction(fc, cfg)
		}(r.fc)
	}
	wg.Wait()
	return results, missing, nil
}

type propMeta struct {
	level string
}

func cmdCheck(args []string) int {
	fs := flag.NewFlagSet("check", flag.ExitOnError)
	repo := fs.String("repo", "/repo", "repository")
	verif := fs.String("verif", "/verif", "verif dir")
	level := fs.String("level", "proof", "evidence level")
	updateLock := fs.Bool("update-lock", false, "rewrite this property's part of obligations.lock from this run")
	fs.Parse(args)
	if fs.NArg() < 1 {
		fmt.Fprintln(os.Stderr, "usage: govc check [flags] <PROP> [quick|thorough]")
		return 2
	}
	prop := fs.Arg(0)
	tier := "quick"
	if fs.NArg() > 1 {
		tier = fs.Arg(1)
	}
	if t := os.Getenv("VERIF_TIER"); t != "" && fs.NArg() < 2 {
		tier = t
	}
	seed := 0
	if s := os.Getenv("VERIF_SEED"); s != "" {
		seed, _ = strconv.Atoi(s)
	}
	t0 := time.Now()
	work := filepath.Join(*verif, "work", prop)
	os.RemoveAll(work)
	os.MkdirAll(work, 0o755)
	cfg := SolverCfg{QueryTimeout: 10 * time.Second, IncTimeoutMs: 2500, WorkDir: work, Jobs: 4}
	if v, err := strconv.Atoi(os.Getenv("GOVC_TIMEOUT_S")); err == nil && v > 0 {
		// the must-fail corpus runs without the long retry of locked obligations; a longer single timeout keeps
		// obligations that need 10-20 s from being mistaken for detections (or for alarms on harmless changes)
		cfg.QueryTimeout = time.Duration(v) * time.Second
	}
	if tier == "thorough" {
		cfg.QueryTimeout = 60 * time.Second
		cfg.IncTimeoutMs = 10000
		cfg.CrossCheck = true
	}
	undecided := func(reason string) int {
		fmt.Printf("UNDECIDED property=%s reason=%s\n", prop, reason)
		return 2
	}
	g := newGen()
	if err := g.load(*repo, defaultPatterns); err != nil {
		return undecided(strings.ReplaceAll(err.Error(), "\n", " | "))
	}
	findings, err := loadFindings(filepath.Join(*verif, "known-findings.txt"))
	if err != nil {
		return undecided(err.Error())
	}
	for _, f := range findings {
		if !f.Fixed {
			g.findingObls[f.Obligation] = f.When
		}
	}
	lock, err := loadLock(filepath.Join(*verif, "obligations.lock"))
	if err != nil {
		return undecided(err.Error())
	}
	// obligations recorded as known findings are expected to fail: no long retry for them
	isFinding := func(name string) bool {
		for _, f := range findings {
			if !f.Fixed && f.Obligation == name {
				return true
			}
		}
		return false
	}
	strictLoopOrdinals = *updateLock
	if !*updateLock {
		cfg.Expect = func(name string) bool { return lock[prop][name] && !isFinding(name) }
	} else {
		cfg.Expect = func(name string) bool { return !isFinding(name) }
	}
	results, missing, err := runProperty(g, prop, cfg, findings)
	if err != nil {
		return undecided(err.Error())
	}
	if len(missing) > 0 {
		return undecided("contract targets not found in the code: " + strings.Join(missing, ","))
	}
	if len(results) == 0 {
		return undecided("no function under contract for this property")
	}
	// collect
	var all []*Obligation
	byName := map[string]*Obligation{}
	fcOf := map[*Obligation]*FnCtx{}
	var fnNames []string
	abstracted := map[string]bool{}
	trustedSet := map[string]bool{}
	for _, r := range results {
		if r.fc.err != nil {
			return undecided(strings.ReplaceAll(r.fc.err.Error(), "\n", " | "))
		}
		fnNames = append(fnNames, r.key)
		for a := range r.fc.abstracted {
			abstracted[shortKey(r.key)+": "+a] = true
		}
		for a := range r.fc.trustedSet {
			trustedSet[a] = true
		}
		for _, o := range r.fc.obls {
			all = append(all, o)
			byName[o.Name()] = o
			fcOf[o] = r.fc
		}
	}
	// cross-check in the thorough tier: every discharged obligation is re-proved standalone by a second back end
	crossChecked, crossFailed := 0, 0
	var crossNotes []string
	if cfg.CrossCheck {
		crossChecked, crossFailed, crossNotes = crossCheck(all, fcOf, cfg)
	}
	// verdicts
	locked := lock[prop]
	nViol := 0
	var knownLines, violLines, notes []string
	discharged, expected := 0, 0
	byKind := map[string]int{}
	byBackend := map[string]int{}
	solverTime := 0.0
	var undecidedNames []string
	var knownOut []map[string]string
	replayDir := filepath.Join(*verif, "replays", prop)
	os.RemoveAll(replayDir)
	isTwin := func(o *Obligation) bool { return strings.HasSuffix(o.Label, "!outside-known") }
	var unclaimedFailing []*Obligation
	for _, o := range all {
		solverTime += o.TimeS
		if isTwin(o) {
			continue
		}
		var finding *Finding
		for _, f := range findings {
			if !f.Fixed && f.Prop == prop && f.Obligation == o.Name() {
				finding = f
			}
		}
		if finding != nil {
			twin := byName[o.Name()+"!outside-known"]
			switch {
			case o.Verdict == "discharged":
				notes = append(notes, fmt.Sprintf("known finding no longer reproduces (obligation now discharged): %s", o.Name()))
				discharged++
				expected++
			case twin != nil && twin.Verdict == "discharged":
				knownLines = append(knownLines, fmt.Sprintf("KNOWN-FINDING: property=%s %s [%s when %s]", prop, finding.Desc, o.Name(), finding.When))
				knownOut = append(knownOut, map[string]string{"obligation": o.Name(), "when": finding.When, "what": finding.Desc, "verdict": o.Verdict, "outside_known_region": "discharged by " + twin.Solver})
				byKind["known-finding"]++
			default:
				// fails outside the recorded region too: a different violation
				nViol++
				src := o
				if twin != nil && twin.Verdict == "refuted" {
					src = twin
				}
				p := writeReplay(replayDir, prop, src, fcOf[o], "violation outside the recorded known-finding region")
				violLines = append(violLines, violationLine(prop, p, src, fcOf[o], *verif))
			}
			continue
		}
		inLock := locked[o.Name()]
		if o.Verdict == "discharged" {
			discharged++
			expected++
			byKind[o.Kind]++
			byBackend[o.Solver]++
			continue
		}
		if !inLock && !*updateLock && len(locked) > 0 {
			// never claimed: reported in evidence, not counted; an alarm only if this function now has MORE failing
			// obligations of this kind than on the unchanged tree (see newFailures below)
			undecidedNames = append(undecidedNames, o.Name()+" ("+o.Verdict+", not in lock)")
			unclaimedFailing = append(unclaimedFailing, o)
			continue
		}
		if *updateLock {
			undecidedNames = append(undecidedNames, o.Name()+" ("+o.Verdict+")")
			continue
		}
		expected++
		nViol++
		p := writeReplay(replayDir, prop, o, fcOf[o], "")
		violLines = append(violLines, violationLine(prop, p, o, fcOf[o], *verif))
	}
	// new failures: a function under contract has more refuted obligations of some kind than the recorded baseline
	// (robust against renames: only the count per function and kind matters; which ones are reported = names not in the baseline)
	baseline := lock[prop+"!"]
	kindOf := func(name string) string {
		i := strings.Index(name, "#")
		if i < 0 {
			return name
		}
		j := strings.Index(name[i:], ":")
		if j < 0 {
			return name
		}
		return name[:i+j]
	}
	baseCount := map[string]int{}
	for n := range baseline {
		baseCount[kindOf(n)]++
	}
	nowCount := map[string]int{}
	for _, o := range unclaimedFailing {
		if o.Verdict == "refuted" {
			nowCount[kindOf(o.Name())]++
		}
	}
	if !*updateLock {
		for _, o := range unclaimedFailing {
			if o.Verdict != "refuted" || baseline[o.Name()] {
				continue
			}
			k := kindOf(o.Name())
			if nowCount[k] > baseCount[k] {
				nViol++
				p := writeReplay(replayDir, prop, o, fcOf[o], "new failing obligation: this function has more refuted obligations of this kind than on the unchanged tree")
				violLines = append(violLines, violationLine(prop, p, o, fcOf[o], *verif))
			}
		}
	}
	// locked obligations that vanished
	var vanished, vanishedSafety []string
	// per-array frame obligations are named after the heap arrays the function may write; when a change makes the
	// function touch other arrays (a local map gets another key type, a call is added), some of these names disappear
	// and others appear. The clause they belong to is still decided as long as the family (same clause, any array) is
	// generated and entirely discharged.
	famOK := map[string]bool{}
	for _, o := range all {
		if m := frameOblRe.FindStringSubmatch(o.Name()); m != nil {
			if v, seen := famOK[m[1]]; !seen {
				famOK[m[1]] = o.Verdict == "discharged"
			} else {
				famOK[m[1]] = v && o.Verdict == "discharged"
			}
		}
	}
	for name := range locked {
		if _, ok := byName[name]; !ok {
			if m := frameOblRe.FindStringSubmatch(name); m != nil && famOK[m[1]] {
				vanishedSafety = append(vanishedSafety, name)
				continue
			}
			if strings.Contains(name, "#safe-") {
				// safety obligations disappear when the guarded operation disappears: reported, not an alarm
				vanishedSafety = append(vanishedSafety, name)
			} else {
				vanished = append(vanished, name)
			}
		}
	}
	sort.Strings(vanished)
	sort.Strings(vanishedSafety)
	if *updateLock {
		if err := rewriteLock(filepath.Join(*verif, "obligations.lock"), prop, all, findings); err != nil {
			return undecided(err.Error())
		}
		vanished = nil
	}
	// evidence
	sort.Strings(fnNames)
	samples := []map[string]any{}
	for i, o := range all {
		if i%maxInt(1, len(all)/8) == 0 && len(samples) < 10 {
			samples = append(samples, map[string]any{"obligation": o.Name(), "verdict": o.Verdict, "backend": o.Solver, "at": o.Pos.String(), "assertions_in_scope": o.NAsserts})
		}
	}
	assumptions := []string{
		"integers are mathematical (no wrap-around); values read from parameters/heap are assumed inside their Go type's range",
		"memory model: per-(struct,field) heap arrays indexed by (base,offset) references; pointers to scalar struct fields do not escape; unsafe/cgo absent",
		"append is modelled with both Go behaviours (in place when len+k <= cap, fresh backing array otherwise); copy() havocs the destination",
		"callees without a contract: results unconstrained, frame inferred from their SSA (external callees: pure list or havoc-all); callee panics/non-termination are the callee's own obligations",
		"single-threaded semantics (sync primitives are no-ops); termination not proved",
		"strings are an uninterpreted sort with distinct literals; fmt.Sprintf/strconv as uninterpreted functions with the listed axioms",
		"go/types + go/ssa (x/tools v0.29.0), this VC generator and the SMT solvers are trusted",
	}
	for k := range g.contracts {
		c := g.contracts[k]
		if c.Extern || c.Assumed {
			assumptions = append(assumptions, "assumed contract (not verified against a body): "+k)
		}
	}
	cov := map[string]any{
		"obligations":              expected,
		"discharged":               discharged,
		"checker_cmd":              fmt.Sprintf("/verif/bin/govc check %s %s  (VCs from go/ssa of /repo's working tree; z3 4.8.12 incremental, then portfolio z3 4.8.12 / z3 5.1.0 / cvc5 1.0)", prop, tier),
		"trusted_base":             append(sortedKeys(trustedSet), "SMT solvers z3 4.8.12, z3 5.1.0, cvc5 1.0", "golang.org/x/tools/go/ssa v0.29.0", "govc VC generator (/verif/govc)"),
		"functions_under_contract": fnNames,
		"obligations_by_kind":      byKind,
		"by_backend":               byBackend,
		"solver_time_s":            round2(solverTime),
		"undecided_not_claimed":    undecidedNames,
		"known_findings":           knownOut,
		"abstracted":               sortedKeys(abstracted),
		"uncontracted_callees":     sortedKeys(g.uncontracted),
		"samples":                  samples,
		"vanished_locked":          vanished,
		"vanished_locked_safety":   vanishedSafety,
		"notes":                    notes,
		"lock_size":                len(locked),
	}
	if cfg.CrossCheck {
		cov["cross_checked_on_second_backend"] = crossChecked
		cov["cross_check_disagreements"] = crossFailed
		cov["cross_check_notes"] = crossNotes
	}
	ev := map[string]any{
		"property_id": prop, "tier": tier, "seed": seed, "level": *level, "coverage": cov,
		"assumptions": assumptions, "wall_s": round2(time.Since(t0).Seconds()), "violations": nViol,
	}
	if *level == "other" {
		cov["explanation"] = "contract-based deductive verification: see obligations/discharged and the property's level_note in MANIFEST.json for which clauses are covered"
	}
	os.MkdirAll(filepath.Join(*verif, "evidence"), 0o755)
	b, _ := json.MarshalIndent(ev, "", " ")
	if err := os.WriteFile(filepath.Join(*verif, "evidence", prop+".json"), b, 0o644); err != nil {
		return undecided(err.Error())
	}
	for _, l := range knownLines {
		fmt.Println(l)
	}
	for _, l := range notes {
		fmt.Println("NOTE:", l)
	}
	fmt.Printf("property %s (%s): %d functions under contract, %d/%d obligations discharged, %d known finding(s), %d not claimed, %.1fs\n", prop, tier, len(fnNames), discharged, expected, len(knownLines), len(undecidedNames), time.Since(t0).Seconds())
	if crossFailed > 0 {
		fmt.Printf("UNDECIDED property=%s reason=back ends disagree on %d obligation(s): %s\n", prop, crossFailed, strings.Join(crossNotes, "; "))
		return 2
	}
	if nViol > 0 {
		for _, l := range violLines {
			fmt.Println(l)
		}
		return 1
	}
	if len(vanished) > 0 {
		fmt.Printf("UNDECIDED property=%s reason=%d locked obligation(s) were not generated (function or clause removed/renamed?): %s\n", prop, len(vanished), strings.Join(vanished[:minInt(3, len(vanished))], ","))
		return 2
	}
	return 0
}

func shortKey(k string) string { return k[strings.LastIndex(k, "/")+1:] }
func round2(f float64) float64 { return float64(int(f*100+0.5)) / 100 }
func maxInt(a, b int) int {
	if a > b {
		return a
	}
	return b
}
func minInt(a, b int) int {
	if a < b {
		return a
	}
	return b
}

// frameOblRe: obligation names that end in a heap array name (one obligation per array of a frame clause)
var frameOblRe = regexp.MustCompile(`^(.*[:/])(?:F_|C_|M_)[^/~]*(?:~\d+)?$`)

func violationLine(prop, path string, o *Obligation, fc *FnCtx, verif string) string {
	suffix := ""
	if !o.replayed {
		suffix = " no-failing-input-found"
	}
	return fmt.Sprintf("VIOLATION property=%s replay=%s obligation=%s verdict=%s%s", prop, path, o.Name(), o.Verdict, suffix)
}

func writeReplay(dir, prop string, o *Obligation, fc *FnCtx, note string) string {
	os.MkdirAll(dir, 0o755)
	base := sanitize(shortKey(o.Fn) + "_" + o.Kind + "_" + o.Label)
	if len(base) > 150 {
		base = fmt.Sprintf("%s_%x", base[:120], hashStr(o.Name()))
	}
	path := filepath.Join(dir, base+".json")
	inputs := map[string]string{}
	lits := fc.q.litTable()
	for _, in := range o.Inputs {
		if v, ok := o.Model[in.Term]; ok {
			inputs[in.Path] = renderValue(v, lits)
			if in.Sort == sStr {
				if b, ok := o.Model["(isPct "+in.Term+")"]; ok {
					inputs[in.Path+"#isPct"] = b
				}
				if n, ok := o.Model["(pctNum "+in.Term+")"]; ok {
					inputs[in.Path+"#pctNum"] = n
				}
			}
		}
	}
	qfile := filepath.Join(dir, base+".smt2")
	os.WriteFile(qfile, []byte(fc.queryText(o, true)), 0o644)
	rec := map[string]any{
		"property": prop, "obligation": o.Name(), "kind": o.Kind, "verdict": o.Verdict, "function": o.Fn, "position": o.Pos.String(),
		"failed_obligation_meaning": "the VC generated from /repo's current source for this contract clause / safety condition is not valid",
		"solver": o.Solver, "solver_output": o.Raw, "inputs": inputs, "smt_query": qfile, "note": note,
	}
	// replay on the real code when an adapter exists
	if o.Verdict == "refuted" && fc.con != nil {
		if out, ok, ran := tryReplay(fc, o, inputs); ran {
			rec["replay_ran"] = true
			rec["replay_reproduced"] = ok
			rec["replay_output"] = out
			o.replayed = ok
		}
	}
	b, _ := json.MarshalIndent(rec, "", " ")
	os.WriteFile(path, b, 0o644)
	return path
}

var litRefRe = regexp.MustCompile(`lit_[0-9a-z]+`)

func renderValue(v string, lits map[string]string) string {
	return litRefRe.ReplaceAllStringFunc(v, func(s string) string {
		if t, ok := lits[s]; ok {
			return strconv.Quote(t)
		}
		return s
	})
}

func rewriteLock(path, prop string, all []*Obligation, findings []*Finding) error {
	lock, err := loadLock(path)
	if err != nil {
		return err
	}
	oldLocked := lock[prop]
	lock[prop] = map[string]bool{}
	delete(lock, prop+"!")
	defer func() {
		// never lose a proof silently: an obligation that was locked and no longer is gets reported
		var lost []string
		for n := range oldLocked {
			if !lock[prop][n] {
				lost = append(lost, n)
			}
		}
		sort.Strings(lost)
		for _, n := range lost {
			fmt.Printf("LOCK-LOST property=%s %s\n", prop, n)
		}
	}()
	for _, o := range all {
		if strings.HasSuffix(o.Label, "!outside-known") {
			continue
		}
		isFinding := false
		for _, f := range findings {
			if !f.Fixed && f.Prop == prop && f.Obligation == o.Name() {
				isFinding = true
			}
		}
		if o.Verdict == "discharged" || isFinding {
			lock[prop][o.Name()] = true
		} else {
			if lock[prop+"!"] == nil {
				lock[prop+"!"] = map[string]bool{}
			}
			lock[prop+"!"][o.Name()] = true
		}
	}
	var lines []string
	for p, m := range lock {
		for n := range m {
			if strings.HasSuffix(p, "!") {
				lines = append(lines, strings.TrimSuffix(p, "!")+" !fail "+n)
			} else {
				lines = append(lines, p+" "+n)
			}
		}
	}
	sort.Strings(lines)
	return os.WriteFile(path, []byte("# property obligation  -- obligations that must be generated and discharged (written by `govc check -update-lock`)\n"+strings.Join(lines, "\n")+"\n"), 0o644)
}

// crossCheck re-proves discharged obligations standalone on a different back end.
func crossCheck(all []*Obligation, fcOf map[*Obligation]*FnCtx, cfg SolverCfg) (int, int, []string) {
	var mu sync.Mutex
	checked, failed := 0, 0
	var notes []string
	var wg sync.WaitGroup
	sem := make(chan struct{}, 12)
	// per-array frame obligations come in thousands for functions that call the API client (one per array the callee
	// may write); beyond 300 of them only an evenly spaced sample is re-proved, and the evidence says so
	isFrame := func(o *Obligation) bool { return o.Kind == "frame" || strings.Contains(o.Label, "/framed/") }
	nFrame := 0
	for _, o := range all {
		if o.Verdict == "discharged" && !o.MustSat && isFrame(o) {
			nFrame++
		}
	}
	stride := 1
	if nFrame > 300 {
		stride = (nFrame + 299) / 300
		notes = append(notes, fmt.Sprintf("frame obligations: every %d-th of %d cross-checked (sample), all others in full", stride, nFrame))
	}
	seenFrame := 0
	for _, o := range all {
		if o.Verdict != "discharged" || o.MustSat {
			continue
		}
		if isFrame(o) {
			seenFrame++
			if seenFrame%stride != 0 {
				continue
			}
		}
		wg.Add(1)
		sem <- struct{}{}
		go func(o *Obligation) {
			defer wg.Done()
			defer func() { <-sem }()
			fc := fcOf[o]
			file := filepath.Join(cfg.WorkDir, fmt.Sprintf("x_%x.smt2", hashStr(o.Name())))
			txt := fc.queryText(o, false)
			second := solvers[2]
			if strings.Contains(txt, "(lambda ") {
				second = solvers[1]
			}
			v := ""
			if o.NAsserts > 40 {
				// the directed cone of influence first: much smaller, and an unsat answer from it is conclusive
				fc.sliceMu.Lock()
				stxt := fc.queryTextSliced(o, false, true)
				fc.sliceMu.Unlock()
				sfile := strings.TrimSuffix(file, ".smt2") + ".s.smt2"
				os.WriteFile(sfile, []byte(stxt), 0o644)
				sout, _ := runSolver(contextBG(), second.bin, second.args, sfile, 10*time.Second)
				os.Remove(sfile)
				if firstVerdict(sout) == "unsat" {
					v = "unsat"
				}
			}
			if v == "" {
				os.WriteFile(file, []byte(txt), 0o644)
				out, _ := runSolver(contextBG(), second.bin, second.args, file, 30*time.Second)
				v = firstVerdict(out)
			}
			mu.Lock()
			defer mu.Unlock()
			switch v {
			case "unsat":
				checked++
			case "sat":
				failed++
				notes = append(notes, o.Name()+": "+second.name+" says sat")
			default:
				notes = append(notes, o.Name()+": "+second.name+" "+v)
			}
			os.Remove(file)
		}(o)
	}
	wg.Wait()
	sort.Strings(notes)
	if len(notes) > 20 {
		notes = append(notes[:20], fmt.Sprintf("... %d more", len(notes)-20))
	}
	return checked, failed, notes
}
