package main

import (
	"fmt"
	"regexp"
	"sort"
	"strconv"
	"strings"
)

// SMT terms are plain s-expression strings. Sorts used:
//   Int, Bool, Str (uninterpreted), Ref (datatype base/off), Slice, Iface, Fn
const (
	sInt   = "Int"
	sBool  = "Bool"
	sStr   = "Str"
	sRef   = "Ref"
	sSlice = "Slice"
	sIface = "Iface"
	sFn    = "Fn"
)

const prelude = `(set-option :produce-models true)
(set-logic ALL)
(declare-sort Str 0)
(declare-datatypes ((Ref 0)) (((mkref (rbase Int) (roff Int)))))
(declare-datatypes ((Slice 0)) (((mkslice (sarr Ref) (slen Int) (scap Int)))))
(declare-datatypes ((Iface 0)) (((mkiface (itag Int) (iref Ref) (iint Int) (istr Str)))))
(declare-datatypes ((Fn 0)) (((mkfn (fid Int) (fenv Ref)))))
(define-fun nilref () Ref (mkref 0 0))
(define-fun nilslice () Slice (mkslice (mkref 0 0) 0 0))
(define-fun tdiv ((a Int) (b Int)) Int (ite (>= a 0) (ite (> b 0) (div a b) (- (div a (- b)))) (ite (> b 0) (- (div (- a) b)) (div (- a) (- b)))))
(define-fun tmod ((a Int) (b Int)) Int (- a (* b (tdiv a b))))
(define-fun ceilDiv100 ((n Int)) Int (- (div (- n) 100)))
(define-fun floorDiv100 ((n Int)) Int (div n 100))
(define-fun imin ((a Int) (b Int)) Int (ite (<= a b) a b))
(define-fun imax ((a Int) (b Int)) Int (ite (>= a b) a b))
(define-fun clamp ((x Int) (lo Int) (hi Int)) Int (ite (< x lo) lo (ite (> x hi) hi x)))
(declare-fun rootTy (Int) Int)
(declare-fun eref (Ref Int Int) Ref)
(assert (forall ((ea Ref) (ei Int) (es Int)) (! (= (eref ea ei es) (mkref (rbase ea) (+ (roff ea) (* ei es)))) :pattern ((eref ea ei es)))))
(declare-fun strlen (Str) Int)
(declare-fun strcat (Str Str) Str)
(declare-fun pct (Int) Str)
(declare-fun isPct (Str) Bool)
(declare-fun pctNum (Str) Int)
(declare-fun itoa (Int) Str)
(declare-fun bytesOf (Str) Slice)
(declare-fun strOfBytes (Slice) Str)
(declare-fun atoiOk (Str) Bool)
(declare-fun atoiVal (Str) Int)
(declare-fun hasSuffix (Str Str) Bool)
(declare-fun hasPrefix (Str Str) Bool)
(declare-fun strContains (Str Str) Bool)
(declare-fun strLess (Str Str) Bool)
(declare-fun toLower (Str) Str)
(declare-fun bitop (Int Int Int) Int)
; scaled(type, intval, strval, total, roundUp): k8s intstr.GetScaledValueFromIntOrPercent (value part)
(define-fun scaled ((ty Int) (iv Int) (sv Str) (total Int) (up Bool)) Int
  (ite (= ty 0) iv (ite (and (= ty 1) (isPct sv)) (ite up (ceilDiv100 (* (pctNum sv) total)) (floorDiv100 (* (pctNum sv) total))) 0)))
(define-fun scaledOk ((ty Int) (sv Str)) Bool (or (= ty 0) (and (= ty 1) (isPct sv))))
`

func and(ts ...string) string {
	var xs []string
	for _, t := range ts {
		if t == "true" || t == "" {
			continue
		}
		if t == "false" {
			return "false"
		}
		xs = append(xs, t)
	}
	switch len(xs) {
	case 0:
		return "true"
	case 1:
		return xs[0]
	}
	return "(and " + strings.Join(xs, " ") + ")"
}

func or(ts ...string) string {
	var xs []string
	for _, t := range ts {
		if t == "false" || t == "" {
			continue
		}
		if t == "true" {
			return "true"
		}
		xs = append(xs, t)
	}
	switch len(xs) {
	case 0:
		return "false"
	case 1:
		return xs[0]
	}
	return "(or " + strings.Join(xs, " ") + ")"
}

func not(t string) string {
	switch t {
	case "true":
		return "false"
	case "false":
		return "true"
	}
	if strings.HasPrefix(t, "(not ") && balanced(t[5:len(t)-1]) {
		return t[5 : len(t)-1]
	}
	return "(not " + t + ")"
}

func balanced(s string) bool {
	d := 0
	for i := 0; i < len(s); i++ {
		switch s[i] {
		case '(':
			d++
		case ')':
			d--
			if d < 0 {
				return false
			}
		}
	}
	return d == 0
}

func implies(a, b string) string {
	if a == "true" {
		return b
	}
	if b == "true" || a == "false" {
		return "true"
	}
	return "(=> " + a + " " + b + ")"
}

func eq(a, b string) string {
	if a == b {
		return "true"
	}
	return "(= " + a + " " + b + ")"
}

func ite(c, a, b string) string {
	if c == "true" {
		return a
	}
	if c == "false" {
		return b
	}
	if a == b {
		return a
	}
	return "(ite " + c + " " + a + " " + b + ")"
}

func app(f string, args ...string) string {
	if len(args) == 0 {
		return f
	}
	return "(" + f + " " + strings.Join(args, " ") + ")"
}

func intLit(n int64) string {
	if n < 0 {
		return "(- " + strconv.FormatInt(-n, 10) + ")"
	}
	return strconv.FormatInt(n, 10)
}

func bigLit(s string) string {
	if strings.HasPrefix(s, "-") {
		return "(- " + s[1:] + ")"
	}
	return s
}

var mkrefRe = regexp.MustCompile(`^\(mkref (\S+|\([^()]*\)) (\d+)\)$`)

// emb returns the reference of the sub-object at static offset k inside r.
func emb(r string, k int) string {
	if k == 0 {
		return r
	}
	if m := mkrefRe.FindStringSubmatch(r); m != nil {
		o, _ := strconv.Atoi(m[2])
		return fmt.Sprintf("(mkref %s %d)", m[1], o+k)
	}
	// (mkref B (+ O n)) -> (mkref B (+ O n+k))
	if strings.HasPrefix(r, "(mkref ") {
		parts := splitTop(r[1 : len(r)-1])
		if len(parts) == 3 {
			b, o := parts[1], parts[2]
			if strings.HasPrefix(o, "(+ ") {
				op := splitTop(o[1 : len(o)-1])
				if len(op) == 3 {
					if n, err := strconv.Atoi(op[2]); err == nil {
						return fmt.Sprintf("(mkref %s (+ %s %d))", b, op[1], n+k)
					}
				}
			}
			if n, err := strconv.Atoi(o); err == nil {
				return fmt.Sprintf("(mkref %s %d)", b, n+k)
			}
			return fmt.Sprintf("(mkref %s (+ %s %d))", b, o, k)
		}
	}
	return fmt.Sprintf("(mkref (rbase %s) (+ (roff %s) %d))", r, r, k)
}

// embDyn: reference at dynamic element index idx with element size sz.
func embDyn(r string, idx string, sz int) string {
	if n, err := strconv.Atoi(idx); err == nil && !strings.HasPrefix(r, "(sarr ") {
		return emb(r, n*sz)
	}
	// eref is defined by a triggered axiom in the prelude: (eref a i sz) = (mkref (rbase a) (+ (roff a) (* i sz)));
	// keeping the application explicit gives quantified contracts over slice elements a reliable e-matching trigger
	// (the index is an argument of its own, so no arithmetic has to be matched)
	return fmt.Sprintf("(eref %s %s %d)", r, idx, sz)
}

// sel builds (select arr idx), looking through stores whose index is syntactically equal to idx (the stored value is
// the answer) or syntactically different from it (the store is skipped). Struct copies otherwise produce towers of
// select-over-store terms that the solver has to take apart one by one.
func sel(arr, idx string) string {
	for strings.HasPrefix(arr, "(store ") {
		parts := splitTop(arr[1 : len(arr)-1])
		if len(parts) != 4 {
			break
		}
		if parts[2] == idx {
			return parts[3]
		}
		if !refsSurelyDiffer(parts[2], idx) {
			break
		}
		arr = parts[1]
	}
	return "(select " + arr + " " + idx + ")"
}

// sto builds (store arr idx v); a store over a store at the same (syntactic) index replaces it.
func sto(arr, idx, v string) string {
	if strings.HasPrefix(arr, "(store ") {
		parts := splitTop(arr[1 : len(arr)-1])
		if len(parts) == 4 && parts[2] == idx {
			arr = parts[1]
		}
	}
	return "(store " + arr + " " + idx + " " + v + ")"
}

var paramBase = regexp.MustCompile(`^\(rbase (p_[A-Za-z0-9_]+!\d+|\(iref p_[A-Za-z0-9_]+!\d+\))\)$`)
var allocPlus = regexp.MustCompile(`^\(\+ ([A-Za-z0-9_!@.$]+) (\d+)\)$`)

// refsSurelyDiffer: two reference terms that cannot denote the same cell, decided on their text alone: the same base with
// different constant offsets, or bases that are the same allocation counter plus different constants.
func refsSurelyDiffer(a, b string) bool {
	if !strings.HasPrefix(a, "(mkref ") || !strings.HasPrefix(b, "(mkref ") {
		return false
	}
	pa, pb := splitTop(a[1:len(a)-1]), splitTop(b[1:len(b)-1])
	if len(pa) != 3 || len(pb) != 3 {
		return false
	}
	if pa[1] == pb[1] {
		return offsetsSurelyDiffer(pa[2], pb[2])
	}
	aa, ab := allocPlus.FindStringSubmatch(pa[1]), allocPlus.FindStringSubmatch(pb[1])
	if aa != nil && ab != nil && aa[1] == ab[1] && aa[2] != ab[2] {
		return true
	}
	// an object allocated by this function (allocation counter + k, k >= 1) is not a cell of an object a parameter
	// points into (parameters are older than every allocation of the function: asserted with their type invariant)
	fresh := func(p []string) bool { return p != nil && strings.HasPrefix(p[1], "alloc") && p[2] != "0" }
	if (fresh(aa) && paramBase.MatchString(pb[1])) || (fresh(ab) && paramBase.MatchString(pa[1])) {
		return true
	}
	return false
}

var offLitRe = regexp.MustCompile(`^-?\d+$`)
var plusLit = regexp.MustCompile(`^\(\+ (.+) (\d+)\)$`)

func offsetsSurelyDiffer(x, y string) bool {
	if offLitRe.MatchString(x) && offLitRe.MatchString(y) {
		return x != y
	}
	mx, my := plusLit.FindStringSubmatch(x), plusLit.FindStringSubmatch(y)
	switch {
	case mx != nil && my != nil && mx[1] == my[1]:
		return mx[2] != my[2]
	case mx != nil && mx[1] == y:
		return mx[2] != "0"
	case my != nil && my[1] == x:
		return my[2] != "0"
	}
	return false
}
func arrSortOf(idx, elem string) string { return "(Array " + idx + " " + elem + ")" }

func zeroOf(sort string) string {
	switch sort {
	case sInt:
		return "0"
	case sBool:
		return "false"
	case sStr:
		return "lit_empty"
	case sRef:
		return "nilref"
	case sSlice:
		return "nilslice"
	case sIface:
		return "(mkiface 0 nilref 0 lit_empty)"
	case sFn:
		return "(mkfn 0 nilref)"
	}
	panic("zeroOf " + sort)
}

// Query accumulates declarations and assertions of one function's VC.
type Query struct {
	decls    []string          // declare-const / declare-fun lines in order
	declared map[string]string // name -> sort
	asserts  []string          // assertion bodies (global facts, guarded by reach where needed)
	lits     map[string]string // string literal -> const name
	litOrder []string
	fresh    int
	recFuns  map[string]string // body text -> function name
	recDefs  []string
	hasLambda bool // a definition in decls uses a z3 lambda
	defined  map[string]string // defined constant -> body
	typedArr map[string]bool   // array constant|bound -> typing axiom emitted
	axioms   []string          // quantified facts about spec functions, left out of must-sat (cover) queries
}

func newQuery() *Query {
	q := &Query{defined: map[string]string{}, typedArr: map[string]bool{}, declared: map[string]string{}, lits: map[string]string{}, recFuns: map[string]string{}}
	q.lit("")
	return q
}

func (q *Query) declare(name, sort string) string {
	if s, ok := q.declared[name]; ok {
		if s != sort {
			panic(fmt.Sprintf("redeclare %s: %s vs %s", name, s, sort))
		}
		return name
	}
	q.declared[name] = sort
	q.decls = append(q.decls, fmt.Sprintf("(declare-const %s %s)", name, sort))
	return name
}

// define: a fresh constant with a definition (its body may only mention symbols declared so far).
func (q *Query) define(hint, sort, body string) string {
	q.fresh++
	return q.defineNamed(fmt.Sprintf("%s!%d", sanitize(hint), q.fresh), sort, body)
}

func (q *Query) defineNamed(name, sort, body string) string {
	q.declared[name] = sort
	q.decls = append(q.decls, fmt.Sprintf("(define-fun %s () %s %s)", name, sort, body))
	if strings.Contains(body, "(lambda ") {
		q.hasLambda = true
	}
	q.defined[name] = body
	return name
}

func (q *Query) declareFun(name string, args []string, res string) string {
	key := "fun:" + name
	if _, ok := q.declared[key]; ok {
		return name
	}
	q.declared[key] = res
	q.decls = append(q.decls, fmt.Sprintf("(declare-fun %s (%s) %s)", name, strings.Join(args, " "), res))
	return name
}

var sanRe = regexp.MustCompile(`[^A-Za-z0-9_.$!]`)

func sanitize(s string) string { return sanRe.ReplaceAllString(s, "_") }

func (q *Query) freshConst(hint, sort string) string {
	q.fresh++
	return q.declare(fmt.Sprintf("%s!%d", sanitize(hint), q.fresh), sort)
}

// recFun: sum function f(j) = ite(j <= 0, 0, f(j-1) + body) where body mentions j through the bound variable bv.
func (q *Query) recFun(bv, body string) string {
	key := bv + "|" + body
	if n, ok := q.recFuns[key]; ok {
		return n
	}
	n := fmt.Sprintf("sumf_%d", len(q.recFuns)+1)
	q.recFuns[key] = n
	q.recDefs = append(q.recDefs, fmt.Sprintf("(define-fun-rec %s ((%s Int)) Int (ite (<= %s 0) 0 (+ (%s (- %s 1)) %s)))", n, bv, bv, n, bv, body))
	return n
}

func (q *Query) assert(t string) {
	if t == "true" {
		return
	}
	q.asserts = append(q.asserts, t)
}

func (q *Query) lit(s string) string {
	if n, ok := q.lits[s]; ok {
		return n
	}
	var n string
	if s == "" {
		n = "lit_empty"
	} else {
		n = fmt.Sprintf("lit_%d", len(q.lits))
	}
	q.lits[s] = n
	q.litOrder = append(q.litOrder, s)
	// strings.ToLower / EqualFold on literals: the lower-case form of every literal is a literal too (registered here,
	// while the query is built; the prelude is rendered concurrently by the solver goroutines and must only read)
	if l := strings.ToLower(s); l != s {
		q.lit(l)
	}
	return n
}

var pctLitRe = regexp.MustCompile(`^(-?\d+)%$`)
var intLitRe = regexp.MustCompile(`^-?\d+$`)

// litPrelude: declarations and ground axioms for all string literals used so far.
func (q *Query) litPrelude() string {
	var b strings.Builder
	names := make([]string, 0, len(q.litOrder))
	for _, s := range q.litOrder {
		n := q.lits[s]
		names = append(names, n)
		fmt.Fprintf(&b, "(declare-const %s Str) ; %s\n", n, strconv.Quote(s))
	}
	if len(names) > 1 {
		fmt.Fprintf(&b, "(assert (distinct %s))\n", strings.Join(names, " "))
	}
	for _, s := range q.litOrder {
		n := q.lits[s]
		fmt.Fprintf(&b, "(assert (= (strlen %s) %d))\n", n, len(s))
		fmt.Fprintf(&b, "(assert (= (toLower %s) %s))\n", n, q.lits[strings.ToLower(s)])
		if m := pctLitRe.FindStringSubmatch(s); m != nil {
			v, _ := strconv.ParseInt(m[1], 10, 64)
			// canonical form only (Sprintf("%d%%") never yields "+5%" or "05%")
			if strconv.FormatInt(v, 10) == m[1] {
				fmt.Fprintf(&b, "(assert (= %s (pct %s)))\n", n, intLit(v))
			}
			fmt.Fprintf(&b, "(assert (and (isPct %s) (= (pctNum %s) %s)))\n", n, n, intLit(v))
		} else {
			fmt.Fprintf(&b, "(assert (not (isPct %s)))\n", n)
		}
		if intLitRe.MatchString(s) {
			v, _ := strconv.ParseInt(s, 10, 64)
			fmt.Fprintf(&b, "(assert (and (atoiOk %s) (= (atoiVal %s) %s)))\n", n, n, intLit(v))
			if strconv.FormatInt(v, 10) == s {
				fmt.Fprintf(&b, "(assert (= %s (itoa %s)))\n", n, intLit(v))
			}
		} else if !regexp.MustCompile(`^[+-]?\d+$`).MatchString(s) {
			fmt.Fprintf(&b, "(assert (not (atoiOk %s)))\n", n)
		}
	}
	return b.String()
}

// litName -> literal text (for model rendering)
func (q *Query) litTable() map[string]string {
	m := map[string]string{}
	for s, n := range q.lits {
		m[n] = s
	}
	return m
}

func sortedKeys[V any](m map[string]V) []string {
	ks := make([]string, 0, len(m))
	for k := range m {
		ks = append(ks, k)
	}
	sort.Strings(ks)
	return ks
}
