package main

import (
	"flag"
	"fmt"
	"os"
	"regexp"
	"sort"
	"strings"
	"time"
)

func main() {
	if len(os.Args) < 2 {
		fmt.Fprintln(os.Stderr, "usage: govc <vc|check|lock|selftest> ...")
		os.Exit(2)
	}
	switch os.Args[1] {
	case "vc":
		cmdVC(os.Args[2:])
	case "check":
		os.Exit(cmdCheck(os.Args[2:]))
	default:
		fmt.Fprintln(os.Stderr, "unknown command", os.Args[1])
		os.Exit(2)
	}
}

var defaultPatterns = []string{"./api/...", "./pkg/..."}

// cmdVC: developer command: generate and solve the VCs of the functions matching a regexp.
func cmdVC(args []string) {
	fs := flag.NewFlagSet("vc", flag.ExitOnError)
	repo := fs.String("repo", "/repo", "repository")
	re := fs.String("f", "", "regexp on function keys")
	work := fs.String("work", "/tmp/govc-work", "work dir")
	verbose := fs.Bool("v", false, "print every obligation")
	safety := fs.Bool("safety", true, "generate safety obligations")
	debug := fs.Bool("debug", false, "panic on generator errors")
	to := fs.Duration("timeout", 10*time.Second, "per-query timeout")
	pk := fs.String("pkgs", "", "comma-separated package patterns (default ./api/... ./pkg/...)")
	fs.Parse(args)
	g := newGen()
	g.debug = *debug
	pats := defaultPatterns
	if *pk != "" {
		pats = strings.Split(*pk, ",")
	}
	if err := g.load(*repo, pats); err != nil {
		fmt.Fprintln(os.Stderr, "load:", err)
		os.Exit(2)
	}
	fmt.Printf("loaded %d packages, %d functions, %d contracts in %.1fs\n", len(g.pkgs), len(g.funcs), len(g.contracts), g.loadTime.Seconds())
	rx := regexp.MustCompile(*re)
	var keys []string
	for k := range g.funcs {
		if rx.MatchString(k) {
			keys = append(keys, k)
		}
	}
	sort.Strings(keys)
	var roots []string
	roots = append(roots, keys...)
	g.prepareFrames(roots)
	cfg := SolverCfg{QueryTimeout: *to, IncTimeoutMs: 3000, WorkDir: *work, Jobs: 8}
	tot, dis := 0, 0
	for _, k := range keys {
		fn := g.funcs[k]
		fc := g.genFunction(fn, g.contracts[k], *safety)
		if fc.err != nil {
			fmt.Printf("%s: ERROR %v\n", k, fc.err)
			continue
		}
		solveFunction(fc, cfg)
		if fc.err != nil {
			fmt.Printf("%s: ERROR %v\n", k, fc.err)
		}
		nd := 0
		for _, o := range fc.obls {
			if o.Verdict == "discharged" {
				nd++
			}
		}
		tot += len(fc.obls)
		dis += nd
		fmt.Printf("%s: %d/%d discharged; %d asserts; abstracted=%v\n", k, nd, len(fc.obls), len(fc.q.asserts), sortedKeys(fc.abstracted))
		for _, o := range fc.obls {
			if *verbose || o.Verdict != "discharged" {
				fmt.Printf("   %-10s %-40s %s %s (%s %.2fs)\n", o.Verdict, o.Kind+":"+o.Label, o.Pos.String(), "", o.Solver, o.TimeS)
				if o.Verdict == "refuted" && len(o.Model) > 0 {
					for _, in := range o.Inputs {
						if v, ok := o.Model[in.Term]; ok {
							fmt.Printf("        %s = %s\n", in.Path, v)
						}
					}
				}
				if o.Verdict == "undecided" {
					fmt.Printf("        %s\n", strings.ReplaceAll(o.Raw, "\n", "\n        "))
				}
			}
		}
	}
	fmt.Printf("TOTAL %d/%d discharged\n", dis, tot)
}

func (g *Gen) prepareFrames(keys []string) {
	var roots []*ssaFn
	for _, k := range keys {
		if fn, ok := g.funcs[k]; ok {
			roots = append(roots, fn)
		}
	}
	g.inferFrames(roots)
}
