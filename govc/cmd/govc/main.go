package main

import (
	"golang.org/x/tools/go/ssa"
	"flag"
	"fmt"
	"os"
	"regexp"
	"sort"
	"strings"
	"time"
)

func main() {
	if len(os.Args) < 2 {
		fmt.Fprintln(os.Stderr, "usage: govc <vc|check|lock|selftest> ...")
		os.Exit(2)
	}
	switch os.Args[1] {
	case "vc":
		cmdVC(os.Args[2:])
	case "check":
		os.Exit(cmdCheck(os.Args[2:]))
	case "frames":
		cmdFrames(os.Args[2:])
	case "replay":
		os.Exit(cmdReplay(os.Args[2:]))
	default:
		fmt.Fprintln(os.Stderr, "unknown command", os.Args[1])
		os.Exit(2)
	}
}

var defaultPatterns = []string{"./api/...", "./pkg/..."}

// cmdVC: developer command: generate and solve the VCs of the functions matching a regexp.
func cmdVC(args []string) {
	fs := flag.NewFlagSet("vc", flag.ExitOnError)
	repo := fs.String("repo", "/repo", "repository")
	re := fs.String("f", "", "regexp on function keys")
	work := fs.String("work", "/tmp/govc-work", "work dir")
	verbose := fs.Bool("v", false, "print every obligation")
	safety := fs.Bool("safety", true, "generate safety obligations")
	debug := fs.Bool("debug", false, "panic on generator errors")
	to := fs.Duration("timeout", 10*time.Second, "per-query timeout")
	pk := fs.String("pkgs", "", "comma-separated package patterns (default ./api/... ./pkg/...)")
	fs.Parse(args)
	g := newGen()
	g.debug = *debug
	pats := defaultPatterns
	if *pk != "" {
		pats = strings.Split(*pk, ",")
	}
	if err := g.load(*repo, pats); err != nil {
		fmt.Fprintln(os.Stderr, "load:", err)
		os.Exit(2)
	}
	fmt.Printf("loaded %d packages, %d functions, %d contracts in %.1fs\n", len(g.pkgs), len(g.funcs), len(g.contracts), g.loadTime.Seconds())
	if fs2, err := loadFindings("/verif/known-findings.txt"); err == nil {
		for _, f := range fs2 {
			if !f.Fixed {
				g.findingObls[f.Obligation] = f.When
			}
		}
	}
	rx := regexp.MustCompile(*re)
	var keys []string
	for k := range g.funcs {
		if rx.MatchString(k) {
			keys = append(keys, k)
		}
	}
	sort.Strings(keys)
	var roots []string
	roots = append(roots, keys...)
	g.prepareFrames(roots)
	cfg := SolverCfg{QueryTimeout: *to, IncTimeoutMs: 3000, WorkDir: *work, Jobs: 8}
	tot, dis := 0, 0
	for _, k := range keys {
		fn := g.funcs[k]
		fc := g.genFunction(fn, g.contracts[k], *safety)
		if fc.err != nil {
			fmt.Printf("%s: ERROR %v\n", k, fc.err)
			continue
		}
		solveFunction(fc, cfg)
		if fc.err != nil {
			fmt.Printf("%s: ERROR %v\n", k, fc.err)
		}
		nd := 0
		for _, o := range fc.obls {
			if o.Verdict == "discharged" {
				nd++
			}
		}
		tot += len(fc.obls)
		dis += nd
		fmt.Printf("%s: %d/%d discharged; %d asserts; abstracted=%v\n", k, nd, len(fc.obls), len(fc.q.asserts), sortedKeys(fc.abstracted))
		for _, o := range fc.obls {
			if *verbose || o.Verdict != "discharged" {
				fmt.Printf("   %-10s %-40s %s %s (%s %.2fs)\n", o.Verdict, o.Kind+":"+o.Label, o.Pos.String(), "", o.Solver, o.TimeS)
				if o.Verdict == "refuted" && len(o.Model) > 0 {
					for _, in := range o.Inputs {
						if v, ok := o.Model[in.Term]; ok {
							fmt.Printf("        %s = %s\n", in.Path, v)
						}
					}
				}
				if o.Verdict == "undecided" {
					fmt.Printf("        %s\n", strings.ReplaceAll(o.Raw, "\n", "\n        "))
				}
			}
		}
	}
	for _, lm := range g.lemmas {
		if !rx.MatchString("lemma:" + lm.Name) {
			continue
		}
		fc := g.lemmaCtx(lm)
		if fc.err != nil {
			fmt.Printf("lemma %s: ERROR %v\n", lm.Name, fc.err)
			continue
		}
		solveFunction(fc, cfg)
		for _, o := range fc.obls {
			tot++
			if o.Verdict == "discharged" {
				dis++
			}
			fmt.Printf("lemma %-40s %s (%s)\n", lm.Name, o.Verdict, o.Solver)
		}
	}
	fmt.Printf("TOTAL %d/%d discharged\n", dis, tot)
}

func (g *Gen) prepareFrames(keys []string) {
	var roots []*ssaFn
	for _, k := range keys {
		if fn, ok := g.funcs[k]; ok {
			roots = append(roots, fn)
		}
	}
	g.inferFrames(roots)
}

func cmdFrames(args []string) {
	fs := flag.NewFlagSet("frames", flag.ExitOnError)
	re := fs.String("f", "", "regexp on function keys")
	fs.Parse(args)
	g := newGen()
	if err := g.load("/repo", defaultPatterns); err != nil {
		fmt.Fprintln(os.Stderr, "load:", err)
		os.Exit(2)
	}
	rx := regexp.MustCompile(*re)
	var keys []string
	for k := range g.funcs {
		if rx.MatchString(k) {
			keys = append(keys, k)
		}
	}
	sort.Strings(keys)
	g.prepareFrames(keys)
	for _, k := range keys {
		if os.Getenv("GOVC_DBG_DYN") != "" {
			fn := g.funcs[k]
			for _, b := range fn.Blocks {
				for _, in := range b.Instrs {
					if ci, ok := in.(ssaCall); ok && !ci.Common().IsInvoke() == false {
						for i, a := range ci.Common().Args {
							fmt.Printf("  %s invoke %s arg%d %s: dyn=%v fresh=%v (%T)\n", shortKey(k), ci.Common().Method.Name(), i, a.Type(), len(g.dynTypes(a, 0)), g.isFreshValue(a, 0), a)
							if i == 0 {
								cf := g.callFrame(ci.Common(), true)
								fmt.Printf("     callFrame: top=%v n=%d pure=%v inmod=%v\n", cf.top, len(cf.arrs), g.pureIfaceMethod(ci.Common()), g.inModule(ci.Common().Method.Pkg()))
							}
						}
					}
				}
			}
		}
		fr := g.frames[g.funcs[k]]
		if fr == nil {
			fmt.Printf("%s: (contract frame)\n", k)
			continue
		}
		as := sortedKeys(fr.arrs)
		if len(as) > 12 {
			as = append(as[:12], fmt.Sprintf("... %d more", len(as)-12))
		}
		fmt.Printf("%s: top=%v why=%q callsParam=%v facts=%v arrs(%d)=%v\n", shortKey(k), fr.top, fr.why, fr.callsParam, sortedKeys(fr.facts), len(fr.arrs), as)
	}
}

type ssaCall = ssa.CallInstruction
