package main

import (
	"fmt"
	"go/token"
	"go/types"
	"sort"
	"strings"

	"golang.org/x/tools/go/ssa"
)

// paramMarker: "the dynamic type of parameter p" (resolved at call sites; context-sensitive frames)
type paramMarker struct{ p *ssa.Parameter }

func (m *paramMarker) Underlying() types.Type { return m }
func (m *paramMarker) String() string         { return "dyn(" + m.p.Parent().Name() + "." + m.p.Name() + ")" }

// ---------- type-reachability frames for calls into code without a body ----------

// typeReach: heap arrays that a callee holding a value of type t could write through it
// (Go type safety: it can only reach memory through the type graph). ok=false: unbounded (interface inside).
func (g *Gen) typeReach(t types.Type) *Frame {
	key := types.TypeString(t, nil)
	if fr, ok := g.reachCache[key]; ok {
		return fr
	}
	fr := newFrame()
	g.reachCache[key] = fr
	seen := map[string]bool{}
	var walk func(t types.Type, viaPtr bool)
	walk = func(t types.Type, viaPtr bool) {
		t = types.Unalias(t)
		if _, ok := opaqueSort(t); ok {
			if viaPtr {
				fr.arrs[g.regArr(g.ti.cellArray(t), g.ti.sortOf(t))] = true
			}
			return
		}
		k := types.TypeString(t, nil)
		if viaPtr {
			k = "&via:" + k
		}
		if seen[k] {
			return
		}
		seen[k] = true
		switch u := t.Underlying().(type) {
		case *types.Pointer:
			walk(u.Elem(), true)
		case *types.Slice:
			walk(u.Elem(), true)
		case *types.Array:
			walk(u.Elem(), viaPtr)
		case *types.Map:
			fc := &FnCtx{g: g}
			h, v, l := fc.mapArrays(u)
			fr.arrs[h], fr.arrs[v], fr.arrs[l] = true, true, true
			walk(u.Key(), false)
			walk(u.Elem(), true)
		case *types.Struct:
			for i := 0; i < u.NumFields(); i++ {
				ft := u.Field(i).Type()
				if viaPtr && !isStructLike(ft) {
					fr.arrs[g.regArr(g.ti.fieldArray(t, i), g.ti.sortOf(ft))] = true
				}
				walk(ft, viaPtr)
			}
		case *types.Interface:
			// values behind interface-typed fields are not written through by decoders/clients (they replace the field);
			// listed in the evidence as an assumption
		case *types.Signature, *types.Chan:
		default:
			if viaPtr {
				fr.arrs[g.regArr(g.ti.cellArray(t), g.ti.sortOf(t))] = true
			}
		}
	}
	walk(t, false)
	return fr
}

// harmless interface-typed arguments: a callee cannot write program-visible memory through them
func harmlessIface(t types.Type) bool {
	s := t.String()
	switch {
	case s == "context.Context" || s == "error" || s == "fmt.Stringer":
		return true
	case strings.HasSuffix(s, "client.Patch") || strings.HasSuffix(s, "Option") || strings.HasSuffix(s, "Options"):
		return true
	case strings.HasSuffix(s, "labels.Selector") || strings.HasSuffix(s, "fields.Selector"):
		return true
	case strings.HasSuffix(s, "client.Client") || strings.HasSuffix(s, "client.Reader") || strings.HasSuffix(s, "client.Writer") || strings.HasSuffix(s, "client.StatusWriter") || strings.HasSuffix(s, "client.SubResourceWriter"):
		return true
	case strings.HasSuffix(s, "record.EventRecorder") || strings.HasSuffix(s, "logr.Logger") || strings.HasSuffix(s, "logr.LogSink"):
		return true
	case strings.HasSuffix(s, "runtime.Scheme") || strings.HasSuffix(s, "meta.RESTMapper"):
		return true
	}
	return false
}

// dynType: statically known dynamic type of an interface-typed SSA value (nil = unknown).
func (g *Gen) dynTypes(v ssa.Value, depth int) []types.Type {
	if depth > 14 {
		return nil
	}
	switch x := v.(type) {
	case *ssa.MakeInterface:
		return []types.Type{x.X.Type()}
	case *ssa.ChangeInterface:
		return g.dynTypes(x.X, depth+1)
	case *ssa.TypeAssert:
		if _, isIface := x.AssertedType.Underlying().(*types.Interface); isIface {
			return g.dynTypes(x.X, depth+1)
		}
		return []types.Type{x.AssertedType}
	case *ssa.Call:
		if x.Call.IsInvoke() && strings.HasPrefix(x.Call.Method.Name(), "DeepCopy") {
			return g.dynTypes(x.Call.Value, depth+1)
		}
		if f := x.Call.StaticCallee(); f != nil {
			if con := g.contracts[g.fnName(f)]; con != nil && len(con.DynTypes) > 0 {
				var out []types.Type
				for _, n := range con.DynTypes {
					if t := g.lookupType(n); t != nil {
						out = append(out, t)
					}
				}
				return out
			}
			// identity-kind helpers: result has the dynamic type of the (single) interface argument
			if len(f.Blocks) > 0 {
				return g.resultDynTypes(f, 0, depth+1)
			}
		}
	case *ssa.UnOp:
		if x.Op == token.MUL {
			if fa, ok := x.X.(*ssa.FieldAddr); ok {
				// interface-typed struct field: union over every store to that field in the module
				stt := fa.X.Type().Underlying().(*types.Pointer).Elem()
				stores := g.fieldStores()[g.ti.fieldArray(stt, fa.Field)]
				if len(stores) == 0 {
					return nil
				}
				var out []types.Type
				for _, sv := range stores {
					d := g.dynTypes(sv, depth+1)
					if d == nil {
						return nil
					}
					out = append(out, d...)
				}
				return out
			}
			if fv, ok := x.X.(*ssa.FreeVar); ok {
				// captured variable: find the cell bound at the closure's creation sites
				return g.freeVarDynTypes(fv, depth+1)
			}
			// load of a local: union over all stores to it
			if a, ok := x.X.(*ssa.Alloc); ok {
				var out []types.Type
				n := 0
				for _, r := range *a.Referrers() {
					if s, ok := r.(*ssa.Store); ok && s.Addr == a {
						n++
						d := g.dynTypes(s.Val, depth+1)
						if d == nil {
							return nil
						}
						out = append(out, d...)
					}
				}
				if n > 0 {
					return out
				}
			}
		}
	case *ssa.Phi:
		var out []types.Type
		for _, e := range x.Edges {
			d := g.dynTypes(e, depth+1)
			if d == nil {
				return nil
			}
			out = append(out, d...)
		}
		return out
	case *ssa.Extract:
		if c, ok := x.Tuple.(*ssa.Call); ok {
			if f := c.Call.StaticCallee(); f != nil && len(f.Blocks) > 0 {
				return g.resultDynTypes(f, x.Index, depth+1)
			}
		}
	case *ssa.Const:
		if x.Value == nil {
			return []types.Type{}
		}
	case *ssa.Parameter:
		if _, isIface := x.Type().Underlying().(*types.Interface); isIface {
			return []types.Type{&paramMarker{x}}
		}
		return nil
	}
	return nil
}

// paramDynTypes: closed-world union over all call sites in the loaded module packages.
func (g *Gen) paramDynTypes(p *ssa.Parameter, depth int) []types.Type {
	fn := p.Parent()
	if g.dynBusy[p] {
		return []types.Type{} // recursion: contributes nothing new
	}
	g.dynBusy[p] = true
	defer delete(g.dynBusy, p)
	idx := -1
	for i, q := range fn.Params {
		if q == p {
			idx = i
		}
	}
	sites := g.callSites()[fn]
	if idx < 0 || len(sites) == 0 {
		return nil
	}
	var out []types.Type
	for _, cs := range sites {
		c := cs.Common()
		var arg ssa.Value
		if c.IsInvoke() {
			if idx == 0 {
				return nil
			}
			if idx-1 >= len(c.Args) {
				return nil
			}
			arg = c.Args[idx-1]
		} else {
			if idx >= len(c.Args) {
				return nil
			}
			arg = c.Args[idx]
		}
		d := g.dynTypes(arg, depth+1)
		if d == nil {
			return nil
		}
		out = append(out, d...)
	}
	return out
}

// callSites: static and interface call sites of module functions.
func (g *Gen) callSites() map[*ssa.Function][]ssa.CallInstruction {
	if g.callSiteIdx != nil {
		return g.callSiteIdx
	}
	idx := map[*ssa.Function][]ssa.CallInstruction{}
	g.callSiteIdx = idx
	for _, fn := range g.funcs {
		for _, b := range fn.Blocks {
			for _, in := range b.Instrs {
				ci, ok := in.(ssa.CallInstruction)
				if !ok {
					continue
				}
				c := ci.Common()
				if c.IsInvoke() {
					if it, ok := c.Value.Type().Underlying().(*types.Interface); ok && g.inModule(c.Method.Pkg()) {
						for _, f := range g.implementations(it, c.Method) {
							idx[f] = append(idx[f], ci)
						}
					}
					continue
				}
				if f := c.StaticCallee(); f != nil && len(f.Blocks) > 0 {
					idx[f] = append(idx[f], ci)
				}
			}
		}
	}
	return idx
}

func (g *Gen) lookupType(name string) types.Type {
	// "pkgpath.Name" or "*pkgpath.Name"
	ptr := strings.HasPrefix(name, "*")
	name = strings.TrimPrefix(name, "*")
	i := strings.LastIndex(name, ".")
	if i < 0 {
		return nil
	}
	p := g.typesPkg[name[:i]]
	if p == nil {
		if pp, ok := g.pkgAlias[name[:i]]; ok {
			p = g.typesPkg[pp]
		}
	}
	if p == nil {
		return nil
	}
	obj := p.Scope().Lookup(name[i+1:])
	if obj == nil {
		return nil
	}
	if ptr {
		return types.NewPointer(obj.Type())
	}
	return obj.Type()
}

// argsReach: frame of a body-less callee given its argument values.
// argPart: the part of a call's frame that exists only because the callee can reach memory through this argument.
type argPart struct {
	arg ssa.Value
	fr  *Frame
}

func (g *Gen) argsReach(args []ssa.Value, recv ssa.Value, forCallers bool) *Frame {
	fr := newFrame()
	if g.partCollector != nil && !forCallers {
		col := g.partCollector
		g.partCollector = nil
		for _, a := range args {
			sub := g.argsReach([]ssa.Value{a}, nil, false)
			if sub.top || len(sub.arrs) > 0 || len(sub.paramDeps) > 0 || len(sub.facts) > 0 {
				*col = append(*col, argPart{arg: a, fr: sub})
			}
		}
		if recv != nil {
			sub := g.argsReach(nil, recv, false)
			*col = append(*col, argPart{arg: recv, fr: sub})
		}
		g.partCollector = col
		return fr
	}
	add := func(v ssa.Value) {
		t := v.Type()
		if !pointerLike(t) {
			return
		}
		if forCallers && g.isFreshValue(v, 0) {
			return // writes into memory allocated by this function are invisible to its callers
		}
		if rp := rootParam(v); rp != nil && g.partCollector == nil {
			if _, isIface := rp.Type().Underlying().(*types.Interface); !isIface && pointerLike(rp.Type()) {
				if _, isFn := rp.Type().Underlying().(*types.Signature); !isFn {
					// memory reached only through a (concretely typed) parameter: kept relative to that parameter
					if fr.paramParts == nil {
						fr.paramParts = map[*ssa.Parameter]*Frame{}
					}
					if fr.paramParts[rp] == nil {
						fr.paramParts[rp] = newFrame()
					}
					fr.paramParts[rp].union(g.typeReach(rp.Type()))
					return
				}
			}
		}
		if _, isIface := t.Underlying().(*types.Interface); isIface {
			if harmlessIface(t) {
				return
			}
			dts := g.dynTypes(v, 0)
			if dts == nil {
				fr.top = true
				return
			}
			for _, dt := range dts {
				if pm, ok := dt.(*paramMarker); ok {
					fr.paramDeps[pm.p] = true
					continue
				}
				fr.union(g.typeReach(dt))
			}
			return
		}
		if _, isFn := t.Underlying().(*types.Signature); isFn {
			fr.union(g.fnValueFrame(v))
			return
		}
		if sl, isSlice := t.Underlying().(*types.Slice); isSlice {
			// variadic pack of interface values (e.g. ...Option, ...interface{})
			if _, elemIface := sl.Elem().Underlying().(*types.Interface); elemIface {
				if harmlessIface(sl.Elem()) || true {
					// elements of a variadic interface pack are read, not written, by library callees (logging, options)
					return
				}
			}
		}
		fr.union(g.typeReach(t))
	}
	if recv != nil {
		add(recv)
	}
	for _, a := range args {
		add(a)
	}
	return fr
}

// fnValueFrame: frame of invoking the function value v.
func (g *Gen) fnValueFrame(v ssa.Value) *Frame {
	switch x := v.(type) {
	case *ssa.ChangeType:
		return g.fnValueFrame(x.X)
	case *ssa.Extract:
		// a function value returned by a library function that does not write module memory (e.g. context.WithTimeout's cancel)
		if c, ok := x.Tuple.(*ssa.Call); ok {
			if f := c.Call.StaticCallee(); f != nil && len(f.Blocks) == 0 && isPureExternal(f) {
				return newFrame()
			}
		}
	case *ssa.MakeClosure:
		return g.funcFrame(x.Fn.(*ssa.Function))
	case *ssa.Function:
		return g.funcFrame(x)
	case *ssa.Const:
		if x.Value == nil {
			return newFrame()
		}
	case *ssa.UnOp:
		if fa, ok := x.X.(*ssa.FieldAddr); ok && x.Op == token.MUL {
			stt := fa.X.Type().Underlying().(*types.Pointer).Elem()
			stores := g.fieldStores()[g.ti.fieldArray(stt, fa.Field)]
			fr := newFrame()
			for _, sv := range stores {
				if _, isLoad := sv.(*ssa.UnOp); isLoad {
					fr.top = true
					fr.why = "function value copied between fields"
					return fr
				}
				fr.union(g.fnValueFrame(sv))
			}
			// a nil function field panics when called; an empty store set means it is never set inside the module
			return fr
		}
		if a, ok := x.X.(*ssa.Alloc); ok && x.Op == token.MUL {
			var stores []*ssa.Store
			for _, r := range *a.Referrers() {
				if s, ok := r.(*ssa.Store); ok && s.Addr == a {
					stores = append(stores, s)
				}
			}
			if len(stores) == 1 {
				if _, isParam := stores[0].Val.(*ssa.Parameter); isParam {
					return &Frame{arrs: map[string]bool{}, facts: map[string]bool{}, callsParam: true}
				}
				return g.fnValueFrame(stores[0].Val)
			}
		}
	case *ssa.Parameter:
		return &Frame{arrs: map[string]bool{}, facts: map[string]bool{}, callsParam: true}
	}
	return &Frame{top: true, why: "call through unknown function value", arrs: map[string]bool{}, facts: map[string]bool{}}
}

// implementations of an in-module interface method (class hierarchy analysis over the loaded packages)
func (g *Gen) implementations(iface *types.Interface, m *types.Func) []*ssa.Function {
	key := m.FullName()
	if r, ok := g.implCache[key]; ok {
		return r
	}
	var out []*ssa.Function
	seen := map[*ssa.Function]bool{}
	for _, sp := range g.spkgs {
		for _, mem := range sp.Members {
			tn, ok := mem.(*ssa.Type)
			if !ok {
				continue
			}
			for _, t := range []types.Type{tn.Type(), types.NewPointer(tn.Type())} {
				if _, isIface := t.Underlying().(*types.Interface); isIface {
					continue
				}
				if !types.Implements(t, iface) {
					continue
				}
				sel := g.prog.MethodSets.MethodSet(t).Lookup(m.Pkg(), m.Name())
				if sel == nil {
					continue
				}
				if f := g.prog.MethodValue(sel); f != nil && !seen[f] {
					seen[f] = true
					out = append(out, f)
				}
			}
		}
	}
	sort.Slice(out, func(i, j int) bool { return out[i].String() < out[j].String() })
	g.implCache[key] = out
	return out
}

func (g *Gen) inModule(p *types.Package) bool {
	return p != nil && strings.HasPrefix(p.Path(), "github.com/openkruise/rollouts")
}

// resultDynTypes: possible dynamic types of the idx-th (interface-typed) result of an in-module function.
func (g *Gen) resultDynTypes(f *ssa.Function, idx int, depth int) []types.Type {
	var out []types.Type
	for _, b := range f.Blocks {
		for _, in := range b.Instrs {
			r, ok := in.(*ssa.Return)
			if !ok || idx >= len(r.Results) {
				continue
			}
			d := g.dynTypes(r.Results[idx], depth+1)
			if d == nil {
				return nil
			}
			out = append(out, d...)
		}
	}
	return out
}

// fieldStores: for every struct field, the values stored into it anywhere in the loaded module packages.
func (g *Gen) fieldStores() map[string][]ssa.Value {
	if g.fieldStoreIdx != nil {
		return g.fieldStoreIdx
	}
	idx := map[string][]ssa.Value{}
	for _, fn := range g.funcs {
		for _, b := range fn.Blocks {
			for _, in := range b.Instrs {
				st, ok := in.(*ssa.Store)
				if !ok {
					continue
				}
				fa, ok := st.Addr.(*ssa.FieldAddr)
				if !ok {
					continue
				}
				switch st.Val.Type().Underlying().(type) {
				case *types.Interface, *types.Signature:
				default:
					continue
				}
				stt := fa.X.Type().Underlying().(*types.Pointer).Elem()
				k := g.ti.fieldArray(stt, fa.Field)
				idx[k] = append(idx[k], st.Val)
			}
		}
	}
	g.fieldStoreIdx = idx
	return idx
}

func (g *Gen) freeVarDynTypes(fv *ssa.FreeVar, depth int) []types.Type {
	fn := fv.Parent()
	parent := fn.Parent()
	if parent == nil {
		return nil
	}
	idx := -1
	for i, f := range fn.FreeVars {
		if f == fv {
			idx = i
		}
	}
	var out []types.Type
	found := false
	for _, b := range parent.Blocks {
		for _, in := range b.Instrs {
			mc, ok := in.(*ssa.MakeClosure)
			if !ok || mc.Fn != ssa.Value(fn) || idx >= len(mc.Bindings) {
				continue
			}
			a, ok := mc.Bindings[idx].(*ssa.Alloc)
			if !ok {
				return nil
			}
			found = true
			for _, r := range *a.Referrers() {
				if s, ok := r.(*ssa.Store); ok && s.Addr == a {
					d := g.dynTypes(s.Val, depth+1)
					if d == nil {
						return nil
					}
					out = append(out, d...)
				}
			}
		}
	}
	// stores through the free variable inside the closure itself
	for _, r := range *fv.Referrers() {
		if s, ok := r.(*ssa.Store); ok && s.Addr == ssa.Value(fv) {
			d := g.dynTypes(s.Val, depth+1)
			if d == nil {
				return nil
			}
			out = append(out, d...)
		}
	}
	if !found {
		return nil
	}
	return out
}

// resolveDeps: replace dependencies on callee parameters by the reach of the actual arguments.
func (g *Gen) resolveDeps(fr *Frame, callee *ssa.Function, args []ssa.Value, invoke bool, forCallers bool) {
	for p := range fr.paramDeps {
		if p.Parent() != callee {
			continue
		}
		delete(fr.paramDeps, p)
		idx := -1
		for i, q := range callee.Params {
			if q == p {
				idx = i
			}
		}
		if invoke {
			idx--
		}
		if idx < 0 || idx >= len(args) {
			fr.top = true
			fr.why = "unresolved parameter dependency"
			continue
		}
		if g.partCollector != nil && !forCallers {
			sub := newFrame()
			col := g.partCollector
			g.partCollector = nil
			sub.union(g.argsReach([]ssa.Value{args[idx]}, nil, false))
			g.partCollector = col
			*col = append(*col, argPart{arg: args[idx], fr: sub})
			continue
		}
		fr.union(g.argsReach([]ssa.Value{args[idx]}, nil, forCallers))
	}
}

// closeDeps: closed-world expansion of the remaining parameter dependencies (all call sites in the module).
func (g *Gen) closeDeps(fr *Frame) *Frame {
	if len(fr.paramDeps) == 0 && len(fr.paramParts) == 0 {
		return fr
	}
	out := newFrame()
	out.union(fr)
	for _, sub := range fr.paramParts {
		out.union(sub)
	}
	out.paramParts = nil
	for p := range fr.paramDeps {
		delete(out.paramDeps, p)
		dts := g.paramDynTypes(p, 0)
		if dts == nil {
			out.top = true
			out.why = "parameter " + p.Name() + " of " + p.Parent().Name() + " has unknown dynamic type"
			continue
		}
		for _, dt := range dts {
			if pm, ok := dt.(*paramMarker); ok {
				sub := newFrame()
				sub.paramDeps[pm.p] = true
				if pm.p == p {
					continue
				}
				out.union(g.closeDeps(sub))
				continue
			}
			out.union(g.typeReach(dt))
		}
	}
	return out
}

// isFreshValue: v (pointer or interface holding a pointer) syntactically denotes memory allocated during this call.
func (g *Gen) isFreshValue(v ssa.Value, depth int) bool {
	if depth > 10 {
		return false
	}
	switch x := v.(type) {
	case *ssa.Alloc:
		return true
	case *ssa.Const:
		return x.Value == nil
	case *ssa.MakeInterface:
		return g.isFreshValue(x.X, depth+1)
	case *ssa.ChangeInterface:
		return g.isFreshValue(x.X, depth+1)
	case *ssa.ChangeType:
		return g.isFreshValue(x.X, depth+1)
	case *ssa.TypeAssert:
		return g.isFreshValue(x.X, depth+1)
	case *ssa.Extract:
		if c, ok := x.Tuple.(*ssa.TypeAssert); ok && x.Index == 0 {
			return g.isFreshValue(c.X, depth+1)
		}
		return false
	case *ssa.Phi:
		for _, e := range x.Edges {
			if !g.isFreshValue(e, depth+1) {
				return false
			}
		}
		return true
	case *ssa.Call:
		c := x.Common()
		if c.IsInvoke() {
			return strings.HasPrefix(c.Method.Name(), "DeepCopy") && c.Method.Name() != "DeepCopyInto"
		}
		if f := c.StaticCallee(); f != nil {
			if strings.HasPrefix(f.Name(), "DeepCopy") && f.Name() != "DeepCopyInto" {
				return true
			}
			return g.freshResult(f, depth+1)
		}
	case *ssa.UnOp:
		if x.Op == token.MUL {
			if a, ok := x.X.(*ssa.Alloc); ok && !a.Heap {
				n := 0
				for _, r := range *a.Referrers() {
					if s, ok := r.(*ssa.Store); ok && s.Addr == a {
						n++
						if !g.isFreshValue(s.Val, depth+1) {
							return false
						}
					}
				}
				return n > 0
			}
		}
	}
	return false
}

// freshResult: every return of in-module function f yields freshly allocated memory (first result).
func (g *Gen) freshResult(f *ssa.Function, depth int) bool {
	if len(f.Blocks) == 0 {
		return false
	}
	if v, ok := g.freshResCache[f]; ok {
		return v
	}
	g.freshResCache[f] = false // recursion guard
	ok := true
	n := 0
	for _, b := range f.Blocks {
		for _, in := range b.Instrs {
			r, isRet := in.(*ssa.Return)
			if !isRet || len(r.Results) == 0 {
				continue
			}
			n++
			if c, isC := r.Results[0].(*ssa.Const); isC && c.Value == nil {
				continue
			}
			if !g.isFreshValue(r.Results[0], depth+1) {
				ok = false
			}
		}
	}
	g.freshResCache[f] = ok && n > 0
	return ok && n > 0
}

// ---------- allocation typing (Go memory safety): which allocations can a *T point into ----------

// containersOf: named struct types that contain T by value (transitively), including T itself.
func (g *Gen) containersOf(t types.Type) []types.Type {
	if g.containerIdx == nil {
		g.containerIdx = map[string][]types.Type{}
		direct := map[string][]types.Type{}
		seenPkg := map[string]bool{}
		var visit func(p *types.Package)
		visit = func(p *types.Package) {
			if p == nil || seenPkg[p.Path()] {
				return
			}
			seenPkg[p.Path()] = true
			sc := p.Scope()
			for _, n := range sc.Names() {
				tn, ok := sc.Lookup(n).(*types.TypeName)
				if !ok || tn.IsAlias() {
					continue
				}
				nt, ok := tn.Type().(*types.Named)
				if !ok || nt.TypeParams().Len() > 0 {
					continue
				}
				st, ok := nt.Underlying().(*types.Struct)
				if !ok {
					continue
				}
				var addField func(ft types.Type)
				addField = func(ft types.Type) {
					ft = types.Unalias(ft)
					switch u := ft.(type) {
					case *types.Named:
						if _, isS := u.Underlying().(*types.Struct); isS {
							k := types.TypeString(u, nil)
							direct[k] = append(direct[k], nt)
						}
					case *types.Array:
						addField(u.Elem())
					case *types.Struct:
						for i := 0; i < u.NumFields(); i++ {
							addField(u.Field(i).Type())
						}
					}
				}
				for i := 0; i < st.NumFields(); i++ {
					addField(st.Field(i).Type())
				}
			}
			for _, imp := range p.Imports() {
				visit(imp)
			}
		}
		for _, p := range g.pkgs {
			visit(p.Types)
		}
		g.directContainers = direct
	}
	key := types.TypeString(t, nil)
	if r, ok := g.containerIdx[key]; ok {
		return r
	}
	seen := map[string]bool{key: true}
	out := []types.Type{t}
	work := []string{key}
	for len(work) > 0 && len(out) <= 12 {
		k := work[0]
		work = work[1:]
		for _, c := range g.directContainers[k] {
			ck := types.TypeString(c, nil)
			if !seen[ck] {
				seen[ck] = true
				out = append(out, c)
				work = append(work, ck)
			}
		}
	}
	g.containerIdx[key] = out
	return out
}

// rootTypeConstraint: constraint on the allocation that non-nil pointer term c of pointee type t points into ("" = none).
func (g *Gen) rootTypeConstraint(c string, t types.Type) string {
	t = types.Unalias(t)
	nt, ok := t.(*types.Named)
	if !ok {
		return ""
	}
	if _, isS := nt.Underlying().(*types.Struct); !isS {
		return ""
	}
	if _, op := opaqueSort(t); op {
		return ""
	}
	cs := g.containersOf(nt)
	if len(cs) > 8 {
		return ""
	}
	var alts []string
	for _, r := range cs {
		alt := fmt.Sprintf("(= (rootTy (rbase %s)) %d)", c, g.ti.typeID(r))
		if r == types.Type(nt) {
			sz := g.ti.sizeOf(nt)
			if sz > 1 {
				alt = fmt.Sprintf("(and %s (= (mod (roff %s) %d) 0))", alt, c, sz)
			}
		}
		alts = append(alts, alt)
	}
	return or(alts...)
}

// harmlessType: no module-visible API object memory is reachable through a value of this type
// (scalars, clients, recorders, contexts, options and structs/pointers made only of those).
func harmlessType(t types.Type, depth int) bool {
	if depth > 6 {
		return false
	}
	if !pointerLike(t) {
		return true
	}
	switch u := t.Underlying().(type) {
	case *types.Interface:
		return harmlessIface(t)
	case *types.Pointer:
		if _, isStruct := u.Elem().Underlying().(*types.Struct); isStruct {
			return harmlessType(u.Elem(), depth+1)
		}
		return false
	case *types.Struct:
		if strings.Contains(t.String(), "sync.") {
			return true
		}
		for i := 0; i < u.NumFields(); i++ {
			if !harmlessType(u.Field(i).Type(), depth+1) {
				return false
			}
		}
		return true
	case *types.Signature:
		return false
	}
	return false
}

// isYoungVal: the value cannot reach memory older than some recorded bound (or reaches nothing at all).
func (fc *FnCtx) isYoungVal(st *State, v Val, t types.Type) bool {
	if v.SV != nil {
		return false
	}
	if v.T == "nilref" || v.T == "nilslice" || v.T == zeroOf(sIface) {
		return true
	}
	if _, ok := st.young[v.T]; ok {
		return true
	}
	// interface / slice wrappers around a young reference
	for k := range st.young {
		if strings.Contains(v.T, k) && (strings.HasPrefix(v.T, "(mkiface ") || strings.HasPrefix(v.T, "(mkslice ")) {
			return true
		}
	}
	return false
}

// youngBound: the bound recorded for v ("" when not young).
func (fc *FnCtx) youngBound(st *State, v Val) string {
	if b, ok := st.young[v.T]; ok {
		return b
	}
	for k, b := range st.young {
		if strings.Contains(v.T, k) && (strings.HasPrefix(v.T, "(mkiface ") || strings.HasPrefix(v.T, "(mkslice ")) {
			return b
		}
	}
	return ""
}

// rootParam: v is (an interface wrapping of / a load of the local copy of) a parameter.
func rootParam(v ssa.Value) *ssa.Parameter {
	for depth := 0; depth < 6; depth++ {
		switch x := v.(type) {
		case *ssa.Parameter:
			return x
		case *ssa.MakeInterface:
			v = x.X
		case *ssa.ChangeInterface:
			v = x.X
		case *ssa.ChangeType:
			v = x.X
		case *ssa.UnOp:
			if x.Op != token.MUL {
				return nil
			}
			a, ok := x.X.(*ssa.Alloc)
			if !ok || a.Heap {
				return nil
			}
			var stores []*ssa.Store
			for _, r := range *a.Referrers() {
				if s, ok := r.(*ssa.Store); ok && s.Addr == a {
					stores = append(stores, s)
				}
			}
			if len(stores) != 1 {
				return nil
			}
			v = stores[0].Val
		default:
			return nil
		}
	}
	return nil
}

// resolveParts: parameter-relative parts of the callee's frame become relative to the actual arguments.
func (g *Gen) resolveParts(fr *Frame, callee *ssa.Function, args []ssa.Value, invoke bool, forCallers bool) {
	for p, sub := range fr.paramParts {
		if p.Parent() != callee {
			continue
		}
		delete(fr.paramParts, p)
		idx := -1
		for i, q := range callee.Params {
			if q == p {
				idx = i
			}
		}
		if invoke {
			idx--
		}
		if idx < 0 || idx >= len(args) {
			fr.union(sub)
			continue
		}
		a := args[idx]
		if g.partCollector != nil && !forCallers {
			*g.partCollector = append(*g.partCollector, argPart{arg: a, fr: sub})
			continue
		}
		if forCallers && g.isFreshValue(a, 0) {
			continue
		}
		if rp := rootParam(a); rp != nil {
			if fr.paramParts[rp] == nil {
				fr.paramParts[rp] = newFrame()
			}
			fr.paramParts[rp].union(sub)
			continue
		}
		fr.union(sub)
	}
}
