package main

import (
	"fmt"
	"go/types"
	"sort"

	"golang.org/x/tools/go/ssa"
)

// Val is the symbolic value of an SSA value or contract expression.
type Val struct {
	T     string      // SMT term (scalars, refs, slices, ifaces, fns)
	Arr   string      // non-empty: address of a scalar struct field: heap array Arr at index T
	Local *ssa.Alloc  // non-nil: address of a simple local
	SV    *StructVal  // struct / array value
	Tup   []Val       // tuple
	Typ   types.Type  // Go type when known (contract evaluator)
}

// StructVal: a struct value read from a heap snapshot (immutable).
type StructVal struct {
	st   *State // snapshot; nil when zero
	ref  string
	zero bool
}

type parentLink struct {
	edge string
	st   *State
}

// State: symbolic state at a program point.
type State struct {
	fc      *FnCtx
	reach   string
	locals  map[*ssa.Alloc]string
	heap    map[string]string
	epoch   int
	parents []parentLink // for lazily linking arrays across merges with differing epochs
	allocB  string       // alloc counter = allocB + allocK
	allocK  int
	ghost   map[string]string // ghost variables (call counters, facts, last results)
	nonnil  map[string]bool   // refs already known non-nil on this path (syntactic cache)
	bounds  map[string]string // per heap array: allocation counter when it was last written (refs stored in it are older)
	baseBound string          // bound of arrays never written since entry / last havoc-all
	young   map[string]string // pointer term -> T: everything reachable from it was allocated after allocation-counter value T
}

func (s *State) clone() *State {
	n := &State{fc: s.fc, reach: s.reach, epoch: s.epoch, parents: s.parents, allocB: s.allocB, allocK: s.allocK}
	n.locals = make(map[*ssa.Alloc]string, len(s.locals))
	for k, v := range s.locals {
		n.locals[k] = v
	}
	n.heap = make(map[string]string, len(s.heap))
	for k, v := range s.heap {
		n.heap[k] = v
	}
	n.ghost = make(map[string]string, len(s.ghost))
	for k, v := range s.ghost {
		n.ghost[k] = v
	}
	n.nonnil = make(map[string]bool, len(s.nonnil))
	for k, v := range s.nonnil {
		n.nonnil[k] = v
	}
	n.bounds = make(map[string]string, len(s.bounds))
	for k, v := range s.bounds {
		n.bounds[k] = v
	}
	n.baseBound = s.baseBound
	n.young = make(map[string]string, len(s.young))
	for k, v := range s.young {
		n.young[k] = v
	}
	return n
}

func (s *State) alloc() string {
	if s.allocK == 0 {
		return s.allocB
	}
	return fmt.Sprintf("(+ %s %d)", s.allocB, s.allocK)
}

// newBase allocates a fresh object base and returns its reference.
func (s *State) newRef() string {
	s.allocK++
	return fmt.Sprintf("(mkref %s 0)", s.alloc())
}

// get returns the current term of heap array arr. Merged states resolve arrays lazily: an array that is never
// read after a join costs nothing.
func (s *State) get(arr string) string {
	if t, ok := s.heap[arr]; ok {
		return t
	}
	fc := s.fc
	sortv, ok := fc.g.arrSort[arr]
	if !ok {
		panic("unknown heap array " + arr)
	}
	if len(s.parents) > 0 {
		var terms []string
		for _, p := range s.parents {
			terms = append(terms, p.st.get(arr))
		}
		same := true
		for _, t := range terms[1:] {
			if t != terms[0] {
				same = false
			}
		}
		if same {
			s.heap[arr] = terms[0]
			return terms[0]
		}
		name := fmt.Sprintf("%s@m%d", arr, s.epoch)
		if _, done := fc.q.declared[name]; !done {
			// a declared constant with one conditional equality per incoming edge: quantifier patterns over the merged
			// array stay legal (a definition by cases would put an ite into them)
			fc.q.declare(name, sortv)
			for i, p := range s.parents {
				fc.q.assert(implies(p.edge, eq(name, terms[i])))
			}
		}
		s.heap[arr] = name
		return name
	}
	name := fmt.Sprintf("%s!e%d", arr, s.epoch)
	if _, done := fc.q.declared[name]; !done {
		fc.q.declare(name, sortv)
	}
	s.heap[arr] = name
	return name
}

func (s *State) set(arr, term string) {
	s.get(arr) // make sure it is declared/linked
	s.heap[arr] = term
	s.fc.written[arr] = true
	s.bounds[arr] = s.alloc()
}

// boundOf: every reference stored in arr was allocated no later than this counter value.
func (s *State) boundOf(arr string) string {
	if b, ok := s.bounds[arr]; ok {
		return b
	}
	if s.baseBound != "" {
		return s.baseBound
	}
	return s.alloc()
}

// havocAll: every heap array gets an unconstrained new version (unknown callee).
func (s *State) havocAll() {
	fc := s.fc
	old := s.clone()
	fc.epochCtr++
	s.epoch = fc.epochCtr
	s.parents = nil
	s.heap = map[string]string{}
	// allocation counter moves forward by an unknown amount
	na := fc.q.freshConst("alloc", sInt)
	fc.q.assert(implies(s.reach, fmt.Sprintf("(>= %s %s)", na, old.alloc())))
	s.allocB, s.allocK = na, 0
	s.bounds = map[string]string{}
	s.baseBound = na
	s.young = map[string]string{}
	// non-escaping local objects are untouched by any callee
	for _, lo := range fc.localObjs {
		if !lo.live[s] && false {
			continue
		}
		var ls []Leaf
		fc.g.ti.leaves(lo.typ, 0, "", &ls)
		for _, l := range ls {
			fc.g.regArr(l.arr, l.sort)
			idx := emb(lo.ref, l.off)
			s.heap[l.arr] = sto(s.get(l.arr), idx, sel(old.get(l.arr), idx))
		}
	}
	fc.sawHavocAll = true
}

// havocArrs: the listed arrays get new versions; local objects keep their contents.
func (s *State) havocArrs(arrs []string) { s.havocArrsKeeping(arrs, nil) }

// havocArrsKeeping: like havocArrs; the local objects whose reference is in forget do not keep their contents (a loop
// head: locals written by the loop body).
func (s *State) havocArrsKeeping(arrs []string, forget map[string]bool) {
	fc := s.fc
	sort.Strings(arrs)
	for _, a := range arrs {
		if _, ok := fc.g.arrSort[a]; !ok {
			continue
		}
		old := s.get(a)
		nv := fc.q.freshConst(a, fc.g.arrSort[a])
		s.heap[a] = nv
		fc.written[a] = true
		s.bounds[a] = "" // resolved to the allocation counter after the call (see fixBounds)
		for _, lo := range fc.localObjs {
			if forget[lo.ref] {
				continue
			}
			var ls []Leaf
			fc.g.ti.leaves(lo.typ, 0, "", &ls)
			for _, l := range ls {
				if l.arr == a {
					idx := emb(lo.ref, l.off)
					s.heap[a] = sto(s.heap[a], idx, sel(old, idx))
				}
			}
		}
	}
}

// havocArrsYoung: like havocArrs, but only cells allocated after counter value T may change
// (the callee can only reach memory through an argument whose whole object graph is younger than T).
func (s *State) havocArrsYoung(arrs []string, T string, decoded bool) {
	fc := s.fc
	sort.Strings(arrs)
	callStart := s.alloc()
	for _, a := range arrs {
		if _, ok := fc.g.arrSort[a]; !ok {
			continue
		}
		old := s.get(a)
		hv := fc.q.freshConst(a+"@hv", fc.g.arrSort[a])
		// a definition (inlined by the solver), not an array equality: the new version is fresh, so defining it unconditionally loses no model
		nv := fc.q.define(a, fc.g.arrSort[a], fmt.Sprintf("(lambda ((yr Ref)) (ite (> (rbase yr) %s) (select %s yr) (select %s yr)))", T, hv, old))
		s.heap[a] = nv
		fc.written[a] = true
		s.bounds[a] = ""
		fc.usesLambda()
		if decoded {
			// a client read fills its out object with freshly decoded (or deep-copied) data: a reference cell of the young
			// region is afterwards unchanged, nil, or points to memory allocated during the call
			var ref string
			switch fc.g.arrSort[a] {
			case arrSortOf(sRef, sRef):
				ref = "(select " + hv + " yr)"
			case arrSortOf(sRef, sSlice):
				ref = "(sarr (select " + hv + " yr))"
			case arrSortOf(sRef, sIface):
				ref = "(iref (select " + hv + " yr))"
			}
			if ref != "" {
				fc.q.assert(implies(s.reach, fmt.Sprintf("(forall ((yr Ref)) (! (=> (> (rbase yr) %s) (or (= (select %s yr) (select %s yr)) (<= (rbase %s) 0) (> (rbase %s) %s))) :pattern ((select %s yr))))",
					T, hv, old, ref, ref, callStart, hv)))
			}
		}
	}
}

// fixBounds: arrays havocked by a call may hold references allocated by the callee.
func (s *State) fixBounds() {
	for k, v := range s.bounds {
		if v == "" {
			s.bounds[k] = s.alloc()
		}
	}
}

func (s *State) ghostGet(name, sortv, init string) string {
	if t, ok := s.ghost[name]; ok {
		return t
	}
	s.fc.ghostSort[name] = sortv
	s.fc.ghostInit[name] = init
	return init
}

// mergeStates builds the entry state of a block from predecessor exit states.
func mergeStates(fc *FnCtx, name string, preds []parentLink) *State {
	q := fc.q
	if len(preds) == 1 && false {
		return nil
	}
	reach := q.freshConst("r_"+name, sBool)
	var edges []string
	for _, p := range preds {
		edges = append(edges, p.edge)
	}
	q.assert(eq(reach, or(edges...)))
	n := &State{fc: fc, reach: reach, locals: map[*ssa.Alloc]string{}, heap: map[string]string{}, ghost: map[string]string{}, nonnil: map[string]bool{}, bounds: map[string]string{}, young: map[string]string{}}
	for k, v := range preds[0].st.young {
		all := true
		for _, p := range preds[1:] {
			if p.st.young[k] != v {
				all = false
			}
		}
		if all {
			n.young[k] = v
		}
	}
	// heap arrays are merged lazily (see State.get): every merged state has its own epoch and remembers its predecessors
	fc.epochCtr++
	n.epoch = fc.epochCtr
	frozen := make([]parentLink, len(preds))
	for i, p := range preds {
		frozen[i] = parentLink{edge: p.edge, st: p.st}
	}
	n.parents = frozen
	// locals
	lkeys := map[*ssa.Alloc]bool{}
	for _, p := range preds {
		for k := range p.st.locals {
			lkeys[k] = true
		}
	}
	var lks []*ssa.Alloc
	for k := range lkeys {
		lks = append(lks, k)
	}
	sort.Slice(lks, func(i, j int) bool { return lks[i].Name() < lks[j].Name() })
	for _, k := range lks {
		var terms []string
		srt := fc.g.ti.sortOf(k.Type().(*types.Pointer).Elem())
		for _, p := range preds {
			t, ok := p.st.locals[k]
			if !ok {
				t = zeroOf(srt)
			}
			terms = append(terms, t)
		}
		n.locals[k] = mergeTerm(fc, localName(k)+"@"+name, srt, preds, terms)
	}
	// ghost
	gkeys := map[string]bool{}
	for _, p := range preds {
		for k := range p.st.ghost {
			gkeys[k] = true
		}
	}
	for _, k := range sortedKeys(gkeys) {
		var terms []string
		for _, p := range preds {
			t, ok := p.st.ghost[k]
			if !ok {
				t = fc.ghostInit[k]
			}
			terms = append(terms, t)
		}
		n.ghost[k] = mergeTerm(fc, "g_"+k+"@"+name, fc.ghostSort[k], preds, terms)
	}
	// alloc counter
	sameAlloc := true
	for _, p := range preds[1:] {
		if p.st.allocB != preds[0].st.allocB || p.st.allocK != preds[0].st.allocK {
			sameAlloc = false
		}
	}
	if sameAlloc {
		n.allocB, n.allocK = preds[0].st.allocB, preds[0].st.allocK
	} else {
		var terms []string
		for _, p := range preds {
			terms = append(terms, p.st.alloc())
		}
		n.allocB, n.allocK = mergeTerm(fc, "alloc@"+name, sInt, preds, terms), 0
	}
	// bounds: keep when all predecessors agree, else the merged allocation counter
	sameBase := true
	for _, p := range preds[1:] {
		if p.st.baseBound != preds[0].st.baseBound {
			sameBase = false
		}
	}
	if sameBase {
		n.baseBound = preds[0].st.baseBound
	} else {
		n.baseBound = n.alloc()
	}
	bkeys := map[string]bool{}
	for _, p := range preds {
		for k := range p.st.bounds {
			bkeys[k] = true
		}
	}
	for k := range bkeys {
		b0 := preds[0].st.boundOf(k)
		same := true
		for _, p := range preds[1:] {
			if p.st.boundOf(k) != b0 {
				same = false
			}
		}
		if same {
			n.bounds[k] = b0
		} else {
			n.bounds[k] = n.alloc()
		}
	}
	// nonnil cache: intersection
	for k := range preds[0].st.nonnil {
		all := true
		for _, p := range preds[1:] {
			if !p.st.nonnil[k] {
				all = false
			}
		}
		if all {
			n.nonnil[k] = true
		}
	}
	return n
}

func mergeTerm(fc *FnCtx, hint, sortv string, preds []parentLink, terms []string) string {
	same := true
	for _, t := range terms[1:] {
		if t != terms[0] {
			same = false
		}
	}
	if same {
		return terms[0]
	}
	c := fc.q.freshConst(hint, sortv)
	for i, p := range preds {
		fc.q.assert(implies(p.edge, eq(c, terms[i])))
	}
	return c
}

func localName(a *ssa.Alloc) string {
	if a.Comment != "" {
		return a.Comment
	}
	return a.Name()
}
