package main

import (
	"fmt"
	"go/constant"
	"go/token"
	"go/types"
	"os"
	"regexp"
	"sort"
	"strings"
	"sync"

	"golang.org/x/tools/go/ssa"
)

type Obligation struct {
	Fn       string
	Kind     string
	Label    string
	Goal     string // formula that must be valid under the first NAsserts assertions
	NAsserts int
	Pos      token.Position
	Props    []string
	MustSat  bool // cover: the query (goal, un-negated) must be satisfiable
	Inputs   []InputTerm
	// results
	Verdict  string // discharged | refuted | undecided
	Solver   string
	TimeS    float64
	Model    map[string]string
	Raw      string
	replayed bool
}

func (o *Obligation) Name() string { return o.Fn + "#" + o.Kind + ":" + o.Label }

type InputTerm struct {
	Path string
	Term string
	Sort string
}

type localObj struct {
	ref  string
	typ  types.Type
	live map[*State]bool
}

type deferred struct {
	instr *ssa.Defer
	block *ssa.BasicBlock
}

// FnCtx: everything about the VC generation of one function.
type FnCtx struct {
	g           *Gen
	fn          *ssa.Function
	name        string
	q           *Query
	con         *Contract
	vals        map[ssa.Value]Val
	entry       *State
	exitStates  map[*ssa.BasicBlock]*State
	edgeConds   map[*ssa.BasicBlock][]string
	obls        []*Obligation
	oblNames    map[string]int
	abstracted  map[string]bool
	written     map[string]bool
	localObjs   []*localObj
	epochCtr    int
	ghostSort   map[string]string
	ghostInit   map[string]string
	sawHavocAll bool
	loops       []*loopInfo
	loopOf      map[*ssa.BasicBlock]*loopInfo // header -> loop
	backEdge    map[[2]int]bool
	defers      []deferred
	params      map[string]Val
	paramTypes  map[string]types.Type
	returns     []retPoint
	inputs      []InputTerm
	curBlock    *ssa.BasicBlock
	curInstr    ssa.Instruction
	safetyOn    bool
	dupSafe     map[string]bool
	err         error
	trustedSet  map[string]bool
	assertSyms  [][]string
	assertDefs  [][]string
	recSyms     map[string][]string
	symIndex    map[string][]int
	symIndexed  int
	sliceMu     sync.Mutex
	inlineDepth int
	inlineStack []*ssa.Function
}

type retPoint struct {
	st      *State
	results []Val
	block   *ssa.BasicBlock
}

// strictLoopOrdinals: refuse contracts that name a loop the function does not have (set while contracts are authored)
var strictLoopOrdinals = true

type loopInfo struct {
	header           *ssa.BasicBlock
	blocks           map[*ssa.BasicBlock]bool
	ordinal          int
	entrySt          *State              // merged state at loop entry (before havoc)
	headSt           *State              // state after havoc + invariant
	writtenLocalObjs map[*ssa.Alloc]bool // struct-valued locals the loop body stores into
	compiledInv      map[*Clause]bool    // frame invariants turned into the loop-head havoc
}

func (fc *FnCtx) abstract(what string) { fc.abstracted[what] = true }

func (fc *FnCtx) pos(p token.Pos) token.Position {
	if p == token.NoPos && fc.curInstr != nil {
		p = fc.curInstr.Pos()
	}
	return fc.g.prog.Fset.Position(p)
}

// oblige records a proof obligation: under the current assertions, st.reach => goal.
func (fc *FnCtx) oblige(st *State, kind, label, goal string, p token.Pos, props []string) *Obligation {
	if fc.inlineDepth > 0 {
		// the body of an inlined callee generates no obligations of its own (it is not a function under contract)
		return &Obligation{Fn: fc.name, Kind: kind, Label: label}
	}
	g := implies(st.reach, goal)
	if g == "true" {
		// trivially valid; still count it so that the lock is stable
	}
	name := fc.name + "#" + kind + ":" + label
	if n := fc.oblNames[name]; n > 0 {
		fc.oblNames[name] = n + 1
		label = fmt.Sprintf("%s~%d", label, n+1)
	} else {
		fc.oblNames[name] = 1
	}
	if props == nil && fc.con != nil {
		props = fc.con.Props
	}
	o := &Obligation{Fn: fc.name, Kind: kind, Label: label, Goal: g, NAsserts: len(fc.q.asserts), Pos: fc.pos(p), Props: props}
	fc.obls = append(fc.obls, o)
	return o
}

func shortExpr(v ssa.Value) string {
	switch x := v.(type) {
	case *ssa.Parameter:
		return x.Name()
	case *ssa.FieldAddr:
		st := x.X.Type().Underlying().(*types.Pointer).Elem().Underlying().(*types.Struct)
		return shortExpr(x.X) + "." + st.Field(x.Field).Name()
	case *ssa.Field:
		st := x.X.Type().Underlying().(*types.Struct)
		return shortExpr(x.X) + "." + st.Field(x.Field).Name()
	case *ssa.IndexAddr:
		return shortExpr(x.X) + "[" + shortExpr(x.Index) + "]"
	case *ssa.UnOp:
		if x.Op == token.MUL {
			if a, ok := x.X.(*ssa.Alloc); ok {
				return localName(a)
			}
			return shortExpr(x.X)
		}
		return x.Op.String() + shortExpr(x.X)
	case *ssa.Alloc:
		return "&" + localName(x)
	case *ssa.Const:
		if x.Value == nil {
			return "nil"
		}
		return x.Value.ExactString()
	case *ssa.Call:
		if f := x.Call.StaticCallee(); f != nil {
			return f.Name() + "()"
		}
		if x.Call.IsInvoke() {
			return shortExpr(x.Call.Value) + "." + x.Call.Method.Name() + "()"
		}
		return "call()"
	case *ssa.Extract:
		return fmt.Sprintf("%s#%d", shortExpr(x.Tuple), x.Index)
	case *ssa.Global:
		return x.Name()
	case *ssa.BinOp:
		return shortExpr(x.X) + x.Op.String() + shortExpr(x.Y)
	case *ssa.Lookup:
		return shortExpr(x.X) + "[" + shortExpr(x.Index) + "]"
	case *ssa.Slice:
		return shortExpr(x.X) + "[:]"
	case *ssa.Convert:
		return shortExpr(x.X)
	case *ssa.ChangeType:
		return shortExpr(x.X)
	case *ssa.TypeAssert:
		return shortExpr(x.X) + ".(" + types.TypeString(x.AssertedType, func(p *types.Package) string { return p.Name() }) + ")"
	case *ssa.Phi:
		if x.Comment != "" {
			return x.Comment
		}
	case *ssa.FreeVar:
		return x.Name()
	case *ssa.MakeSlice:
		return "make(" + types.TypeString(x.Type(), func(p *types.Package) string { return p.Name() }) + ")"
	case *ssa.MakeInterface:
		return shortExpr(x.X)
	case *ssa.ChangeInterface:
		return shortExpr(x.X)
	}
	// stable fallback: never the SSA register name (it changes with unrelated edits)
	return fmt.Sprintf("%T:%s", v, types.TypeString(v.Type(), func(p *types.Package) string { return p.Name() }))
}

// ---------- value lookup ----------

func (fc *FnCtx) val(st *State, v ssa.Value) Val {
	switch x := v.(type) {
	case *ssa.Const:
		return fc.constVal(x)
	case *ssa.Function:
		return Val{T: fmt.Sprintf("(mkfn %d nilref)", fc.g.fnID(x))}
	case *ssa.Global:
		return Val{T: fc.g.globalRef(fc.q, x)}
	case *ssa.Builtin:
		return Val{T: "(mkfn 0 nilref)"}
	case *ssa.Alloc:
		if fc.isSimpleLocal(x) {
			return Val{Local: x}
		}
	}
	if r, ok := fc.vals[v]; ok {
		return r
	}
	// not yet defined (e.g. value from a skipped instruction): unconstrained
	fc.abstract("undefined value " + v.Name())
	r := fc.freshVal(st, v.Type(), v.Name())
	fc.vals[v] = r
	return r
}

func (fc *FnCtx) constVal(c *ssa.Const) Val {
	t := c.Type()
	ti := fc.g.ti
	if c.Value == nil {
		if isStructLike(t) {
			return Val{SV: &StructVal{zero: true}}
		}
		return Val{T: zeroOf(ti.sortOf(t))}
	}
	switch ti.sortOf(t) {
	case sBool:
		if constant.BoolVal(c.Value) {
			return Val{T: "true"}
		}
		return Val{T: "false"}
	case sStr:
		return Val{T: fc.q.lit(constant.StringVal(c.Value))}
	case sInt:
		if c.Value.Kind() == constant.Int {
			return Val{T: bigLit(c.Value.ExactString())}
		}
		if c.Value.Kind() == constant.Float {
			if i := constant.ToInt(c.Value); i.Kind() == constant.Int {
				return Val{T: bigLit(i.ExactString())}
			}
			fc.abstract("float constant")
			return Val{T: fc.q.freshConst("fconst", sInt)}
		}
	}
	fc.abstract("const " + c.String())
	return Val{T: fc.q.freshConst("const", ti.sortOf(t))}
}

func (fc *FnCtx) isSimpleLocal(a *ssa.Alloc) bool {
	if a.Heap {
		return false
	}
	et := a.Type().Underlying().(*types.Pointer).Elem()
	if isStructLike(et) {
		return false
	}
	// all uses must be direct loads/stores (address never used as a value)
	for _, r := range *a.Referrers() {
		switch u := r.(type) {
		case *ssa.UnOp:
			if u.Op != token.MUL {
				return false
			}
		case *ssa.Store:
			if u.Addr != a || u.Val == ssa.Value(a) {
				return false
			}
		case *ssa.DebugRef:
		default:
			return false
		}
	}
	return true
}

// freshVal: unconstrained value of Go type t (with type invariants assumed).
func (fc *FnCtx) freshVal(st *State, t types.Type, hint string) Val {
	ti := fc.g.ti
	if tup, ok := t.(*types.Tuple); ok {
		var vs []Val
		for i := 0; i < tup.Len(); i++ {
			vs = append(vs, fc.freshVal(st, tup.At(i).Type(), fmt.Sprintf("%s_%d", hint, i)))
		}
		return Val{Tup: vs}
	}
	if isStructLike(t) {
		// fresh ghost object with unconstrained contents in the current heap
		r := fc.q.freshConst(hint+"_sv", sRef)
		snap := st.clone()
		return Val{SV: &StructVal{st: snap, ref: r}}
	}
	srt := ti.sortOf(t)
	c := fc.q.freshConst(hint, srt)
	fc.typeInv(st, c, t)
	return Val{T: c}
}

// typeInv asserts the Go type invariant of scalar term c of type t.
func (fc *FnCtx) typeInv(st *State, c string, t types.Type) {
	fc.typeInvB(st, c, t, st.alloc())
}

// typeInvB: like typeInv, with an explicit bound on the age of the references inside c.
func (fc *FnCtx) typeInvB(st *State, c string, t types.Type, bound string) {
	if f := fc.typeInvFormula(c, t, bound); f != "true" {
		if fc.g.ti.sortOf(t) == sStr {
			fc.q.assert(f)
		} else {
			fc.q.assert(implies(st.reach, f))
		}
	}
}

// typeInvFormula: the Go type invariant of term c of type t, references not younger than bound.
func (fc *FnCtx) typeInvFormula(c string, t types.Type, bound string) string {
	switch fc.g.ti.sortOf(t) {
	case sInt:
		if lo, hi, ok := intRange(t); ok {
			return fmt.Sprintf("(and (<= %s %s) (<= %s %s))", lo, c, c, hi)
		}
	case sSlice:
		f := fmt.Sprintf("(and (<= 0 (slen %s)) (<= (slen %s) (scap %s)) (<= (rbase (sarr %s)) %s) (<= 0 (rbase (sarr %s))) (<= 0 (roff (sarr %s))) (=> (= (rbase (sarr %s)) 0) (and (= (scap %s) 0) (= (roff (sarr %s)) 0))))", c, c, c, c, bound, c, c, c, c, c)
		// allocation typing: the backing array of a []T (T a named struct) is an allocation of T's (or of a struct that
		// holds T's by value), like the target of a *T
		if st, ok := t.Underlying().(*types.Slice); ok {
			if rt := fc.g.rootTypeConstraint("(sarr "+c+")", st.Elem()); rt != "" {
				f = and(f, implies(not(eq("(sarr "+c+")", "nilref")), rt))
			}
		}
		return f
	case sRef:
		f := fmt.Sprintf("(and (<= 0 (rbase %s)) (<= (rbase %s) %s) (<= 0 (roff %s)) (=> (= (rbase %s) 0) (= (roff %s) 0)))", c, c, bound, c, c, c)
		if pt, ok := t.Underlying().(*types.Pointer); ok {
			if rt := fc.g.rootTypeConstraint(c, pt.Elem()); rt != "" {
				f = and(f, implies(not(eq(c, "nilref")), rt))
			}
		}
		return f
	case sIface:
		return fmt.Sprintf("(and (<= 0 (itag %s)) (<= 0 (rbase (iref %s))) (<= (rbase (iref %s)) %s) (<= 0 (roff (iref %s))) (=> (= (rbase (iref %s)) 0) (= (roff (iref %s)) 0)) (=> (= (itag %s) 0) (= %s %s)))", c, c, c, bound, c, c, c, c, c, zeroOf(sIface))
	case sStr:
		return fmt.Sprintf("(and (>= (strlen %s) 0) (= (= (strlen %s) 0) (= %s lit_empty)))", c, c, c)
	}
	return "true"
}

// ---------- heap access helpers (shared with the contract evaluator) ----------

func (g *Gen) regArr(arr, elemSort string) string {
	if _, ok := g.arrSort[arr]; !ok {
		g.arrSort[arr] = arrSortOf(sRef, elemSort)
	}
	return arr
}

// loadAt reads a value of Go type t stored at address addr (a pointer Val).
func (fc *FnCtx) loadAt(st *State, addr Val, t types.Type) Val {
	ti := fc.g.ti
	if addr.Local != nil {
		v, ok := st.locals[addr.Local]
		if !ok {
			v = zeroOf(ti.sortOf(t))
		}
		return Val{T: v, Typ: t}
	}
	if isStructLike(t) {
		return Val{SV: &StructVal{st: st.clone(), ref: addr.T}, Typ: t}
	}
	srt := ti.sortOf(t)
	arr := addr.Arr
	if arr == "" {
		arr = ti.cellArray(t)
	}
	fc.g.regArr(arr, srt)
	return Val{T: sel(st.get(arr), addr.T), Typ: t}
}

// loadAtInv: loadAt + a named constant carrying the Go type invariant (age of references bounded by the array's last write).
func (fc *FnCtx) loadAtInv(st *State, addr Val, t types.Type, hint string) Val {
	v := fc.loadAt(st, addr, t)
	if addr.Local != nil || v.SV != nil {
		return v
	}
	ti := fc.g.ti
	srt := ti.sortOf(t)
	if !needsInv(srt, t) {
		return v
	}
	arr := addr.Arr
	if arr == "" {
		arr = ti.cellArray(t)
	}
	c := fc.q.freshConst(hint, srt)
	fc.q.assert(implies(st.reach, eq(c, v.T)))
	fc.typeInvB(st, c, t, refinedBound(st, arr, v.T))
	v.T = c
	return v
}

// refinedBound: the age bound of the references in a value read from arr. A read that (after looking through stores to
// other cells) comes from the entry version of the array is as old as the function's entry, whatever was stored into
// other cells of the array since.
func refinedBound(st *State, arr, valueTerm string) string {
	if strings.HasPrefix(valueTerm, "(select ") {
		rest := valueTerm[len("(select "):]
		if i := strings.IndexByte(rest, ' '); i > 0 && strings.HasSuffix(rest[:i], "!e0") {
			return "alloc0"
		}
	}
	return st.boundOf(arr)
}

// storeAt writes v (of Go type t) to address addr.
func (fc *FnCtx) storeAt(st *State, addr Val, v Val, t types.Type) {
	ti := fc.g.ti
	if addr.Local != nil {
		st.locals[addr.Local] = v.T
		return
	}
	// storing a possibly old pointer into the heap may make a young object graph reach old memory
	if len(st.young) > 0 && pointerLike(t) && !harmlessType(t, 0) {
		if !fc.isYoungVal(st, v, t) {
			st.young = map[string]string{}
		}
	}
	if isStructLike(t) {
		var ls []Leaf
		ti.leaves(t, 0, "", &ls)
		for _, l := range ls {
			fc.g.regArr(l.arr, l.sort)
			st.set(l.arr, sto(st.get(l.arr), emb(addr.T, l.off), fc.svLeaf(v.SV, l)))
		}
		return
	}
	srt := ti.sortOf(t)
	arr := addr.Arr
	if arr == "" {
		arr = ti.cellArray(t)
	}
	fc.g.regArr(arr, srt)
	st.set(arr, sto(st.get(arr), addr.T, v.T))
}

func (fc *FnCtx) svLeaf(sv *StructVal, l Leaf) string {
	if sv == nil || sv.zero {
		return zeroOf(l.sort)
	}
	fc.g.regArr(l.arr, l.sort)
	return sel(sv.st.get(l.arr), emb(sv.ref, l.off))
}

// fieldOfStruct: field i of struct value sv of struct type t.
func (fc *FnCtx) fieldOfStruct(sv *StructVal, t types.Type, i int) Val {
	ti := fc.g.ti
	st := t.Underlying().(*types.Struct)
	ft := st.Field(i).Type()
	off := ti.layout(st).offs[i]
	if isStructLike(ft) {
		if sv == nil || sv.zero {
			return Val{SV: &StructVal{zero: true}, Typ: ft}
		}
		return Val{SV: &StructVal{st: sv.st, ref: emb(sv.ref, off)}, Typ: ft}
	}
	srt := ti.sortOf(ft)
	if sv == nil || sv.zero {
		return Val{T: zeroOf(srt), Typ: ft}
	}
	arr := ti.fieldArray(t, i)
	fc.g.regArr(arr, srt)
	return Val{T: sel(sv.st.get(arr), sv.ref), Typ: ft}
}

// fieldAddrOf: address of field i of the struct (type t) at reference ref.
func (fc *FnCtx) fieldAddrOf(ref string, t types.Type, i int) Val {
	ti := fc.g.ti
	st := t.Underlying().(*types.Struct)
	ft := st.Field(i).Type()
	if isStructLike(ft) {
		return Val{T: emb(ref, ti.layout(st).offs[i])}
	}
	arr := ti.fieldArray(t, i)
	fc.g.regArr(arr, ti.sortOf(ft))
	return Val{T: ref, Arr: arr}
}

// allocObject creates a fresh zero-initialised object of type t, returns its ref.
func (fc *FnCtx) allocObject(st *State, t types.Type) string {
	ti := fc.g.ti
	before := st.alloc()
	ref := st.newRef()
	st.young[ref] = before
	if _, isStruct := t.Underlying().(*types.Struct); isStruct {
		if _, isNamed := types.Unalias(t).(*types.Named); isNamed {
			fc.q.assert(implies(st.reach, fmt.Sprintf("(= (rootTy %s) %d)", st.alloc(), ti.typeID(types.Unalias(t)))))
		}
	}
	var ls []Leaf
	ti.leaves(t, 0, "", &ls)
	if len(ls) > 400 {
		// very large object: skip explicit zeroing of all leaves (over-approximation: contents unconstrained)
		fc.abstract(fmt.Sprintf("large allocation %s not zero-initialised in the model", types.TypeString(t, nil)))
		return ref
	}
	for _, l := range ls {
		fc.g.regArr(l.arr, l.sort)
		st.set(l.arr, sto(st.get(l.arr), emb(ref, l.off), zeroOf(l.sort)))
	}
	return ref
}

// materialize copies a struct value into a fresh object of the current heap and returns the ref.
func (fc *FnCtx) materialize(st *State, sv *StructVal, t types.Type) string {
	ref := st.newRef()
	fc.storeAt(st, Val{T: ref}, Val{SV: sv}, t)
	return ref
}

func (fc *FnCtx) nilCheck(st *State, ref string, what string, p token.Pos) {
	if !fc.safetyOn {
		return
	}
	if st.nonnil[ref] || strings.HasPrefix(ref, "(mkref (+ ") || strings.HasPrefix(ref, "(mkref alloc") {
		return
	}
	if isFreshRef(ref) {
		return
	}
	fc.oblige(st, "safe-nil", what, not(eq(ref, "nilref")), p, nil)
	// execution continues only if non-nil
	fc.q.assert(implies(st.reach, not(eq(ref, "nilref"))))
	st.nonnil[ref] = true
}

func isFreshRef(ref string) bool {
	// references built from the allocation counter are never nil
	return strings.HasPrefix(ref, "(mkref (+ alloc") || strings.HasPrefix(ref, "(mkref alloc") || strings.HasPrefix(ref, "glob_")
}

// ---------- main driver ----------

func (g *Gen) genFunction(fn *ssa.Function, con *Contract, safety bool) *FnCtx {
	fc := &FnCtx{g: g, fn: fn, name: g.fnName(fn), q: newQuery(), con: con, vals: map[ssa.Value]Val{},
		exitStates: map[*ssa.BasicBlock]*State{}, edgeConds: map[*ssa.BasicBlock][]string{},
		oblNames: map[string]int{}, abstracted: map[string]bool{}, written: map[string]bool{},
		ghostSort: map[string]string{}, ghostInit: map[string]string{}, loopOf: map[*ssa.BasicBlock]*loopInfo{},
		backEdge: map[[2]int]bool{}, params: map[string]Val{}, paramTypes: map[string]types.Type{}, safetyOn: safety, dupSafe: map[string]bool{}}
	defer func() {
		if r := recover(); r != nil {
			fc.err = fmt.Errorf("generator panic in %s: %v", fc.name, r)
			if g.debug {
				panic(r)
			}
		}
	}()
	if len(fn.Blocks) == 0 {
		fc.err = fmt.Errorf("no body")
		return fc
	}
	for _, b := range fn.Blocks {
		for _, in := range b.Instrs {
			switch in.(type) {
			case *ssa.Go, *ssa.Send, *ssa.Select:
				fc.err = fmt.Errorf("outside subset: %T", in)
				return fc
			}
		}
	}
	if con != nil && con.Invokes != "" {
		if err := fc.checkInvokesFirst(con.Invokes); err != nil {
			fc.err = err
			return fc
		}
	}
	fc.findLoops()
	// the call-log ghosts of tracked calls exist from the start (value: zero of their sort), so that a loop invariant
	// can mention the last result of a call that has not happened yet
	for _, b := range fn.Blocks {
		for _, in := range b.Instrs {
			ci, ok := in.(ssa.CallInstruction)
			if !ok {
				continue
			}
			name := g.trackName(ci.Common())
			if name == "" {
				continue
			}
			res := ci.Common().Signature().Results()
			for i := 0; i < res.Len(); i++ {
				if isStructLike(res.At(i).Type()) {
					continue
				}
				k := fmt.Sprintf("#%s.ret%d", name, i)
				if _, ok := fc.ghostSort[k]; !ok {
					fc.ghostSort[k] = g.ti.sortOf(res.At(i).Type())
					fc.ghostInit[k] = zeroOf(fc.ghostSort[k])
				}
			}
		}
	}
	// entry state
	st := &State{fc: fc, reach: "true", locals: map[*ssa.Alloc]string{}, heap: map[string]string{}, ghost: map[string]string{}, nonnil: map[string]bool{}, bounds: map[string]string{}, baseBound: "alloc0", young: map[string]string{}}
	st.allocB = fc.q.declare("alloc0", sInt)
	fc.q.assert("(>= alloc0 0)")
	for _, p := range fn.Params {
		v := fc.freshVal(st, p.Type(), "p_"+p.Name())
		fc.vals[p] = v
		v.Typ = p.Type()
		fc.params[p.Name()] = v
		fc.paramTypes[p.Name()] = p.Type()
		fc.inputs = append(fc.inputs, InputTerm{Path: p.Name(), Term: v.T, Sort: g.ti.sortOf(p.Type())})
		// the fields of a small all-scalar struct behind a pointer parameter are inputs too (a counterexample then
		// carries them even when the code never read them on the failing path)
		root, rootT := "", types.Type(nil)
		if pt, ok := p.Type().Underlying().(*types.Pointer); ok && isStructLike(pt.Elem()) && v.T != "" {
			root, rootT = v.T, pt.Elem()
		} else if isStructLike(p.Type()) && v.SV != nil && !v.SV.zero {
			root, rootT = v.SV.ref, p.Type()
		}
		if root != "" {
			var ls []Leaf
			g.ti.leaves(rootT, 0, "", &ls)
			scalar := len(ls) > 0 && len(ls) <= 8
			for _, l := range ls {
				if l.sort != sInt && l.sort != sStr && l.sort != sBool {
					scalar = false
				}
			}
			if scalar {
				for _, l := range ls {
					g.regArr(l.arr, l.sort)
					fc.inputs = append(fc.inputs, InputTerm{Path: "&" + p.Name() + "." + strings.TrimPrefix(l.path, "."), Term: sel(st.get(l.arr), emb(root, l.off)), Sort: l.sort})
				}
			}
		}
	}
	for _, p := range fn.FreeVars {
		v := fc.freshVal(st, p.Type(), "fv_"+p.Name())
		fc.vals[p] = v
		v.Typ = p.Type()
		fc.params[p.Name()] = v
		fc.paramTypes[p.Name()] = p.Type()
	}
	fc.entry = st.clone()
	// preconditions
	if con != nil {
		env := fc.selfEnv(fc.entry, fc.entry, nil)
		for _, c := range con.Requires {
			t, err := fc.evalBool(env, c.Expr)
			if err != nil {
				fc.err = fmt.Errorf("%s: requires %q: %v", fc.name, c.Text, err)
				return fc
			}
			fc.q.assert(t)
		}
		if len(con.Requires) > 0 {
			o := fc.oblige(st, "cover", "pre", "false", fn.Pos(), nil)
			o.MustSat = true
		}
	}
	fc.runBlocks(st)
	if fc.err != nil {
		return fc
	}
	fc.finish()
	return fc
}

// runBlocks executes the body of fc.fn from state st (reverse post-order of the acyclic graph, loops through their
// invariants); the return points are collected in fc.returns.
func (fc *FnCtx) runBlocks(st *State) {
	fn := fc.fn
	// process blocks in reverse post-order of the acyclic graph
	order := fc.topoOrder()
	states := map[*ssa.BasicBlock]*State{fn.Blocks[0]: st}
	for _, b := range order {
		var cur *State
		if b == fn.Blocks[0] {
			cur = st
		} else {
			var preds []parentLink
			for _, p := range b.Preds {
				if fc.backEdge[[2]int{p.Index, b.Index}] {
					continue
				}
				ps, ok := fc.exitStates[p]
				if !ok {
					continue // unreachable predecessor
				}
				for si, s := range p.Succs {
					if s == b {
						preds = append(preds, parentLink{edge: and(ps.reach, fc.edgeConds[p][si]), st: ps})
					}
				}
			}
			if len(preds) == 0 {
				continue // unreachable (e.g. recover block)
			}
			cur = mergeStates(fc, fmt.Sprintf("b%d", b.Index), preds)
		}
		if li := fc.loopOf[b]; li != nil {
			fc.enterLoop(li, cur)
		}
		states[b] = cur
		fc.curBlock = b
		fc.execBlock(cur, b)
		if fc.err != nil {
			return
		}
		fc.exitStates[b] = cur
		// back edges: check invariants
		for si, s := range b.Succs {
			if fc.backEdge[[2]int{b.Index, s.Index}] {
				fc.closeLoop(fc.loopOf[s], cur, fc.edgeConds[b][si])
			}
		}
	}
}

// checkInvokesFirst: the `invokes p` directive promises that p is called in the entry block before any other effect.
func (fc *FnCtx) checkInvokesFirst(p string) error {
	for _, in := range fc.fn.Blocks[0].Instrs {
		switch x := in.(type) {
		case ssa.CallInstruction:
			c := x.Common()
			if !c.IsInvoke() {
				if pp := paramOfFnValue(c.Value); pp != nil && pp.Name() == p {
					return nil
				}
				if f := c.StaticCallee(); f != nil && fc.g.contracts[fc.g.fnName(f)] != nil && fc.g.contracts[fc.g.fnName(f)].Invokes != "" {
					// delegation to another higher-order function with the same promise (e.g. RunWithGraceSeconds -> runWithGraceSeconds)
					return nil
				}
			}
			fr := fc.g.closeDeps(fc.g.callFrame(c, false))
			if fr.top || len(fr.arrs) > 0 || len(fr.facts) > 0 {
				return fmt.Errorf("%s: `invokes %s`: another effectful call precedes the invocation", fc.name, p)
			}
		case *ssa.Store:
			if a, ok := x.Addr.(*ssa.Alloc); ok && !a.Heap {
				continue
			}
			return fmt.Errorf("%s: `invokes %s`: a heap store precedes the invocation", fc.name, p)
		}
	}
	return fmt.Errorf("%s: `invokes %s`: no invocation of the parameter in the entry block", fc.name, p)
}

func (fc *FnCtx) topoOrder() []*ssa.BasicBlock {
	fn := fc.fn
	seen := map[*ssa.BasicBlock]bool{}
	var post []*ssa.BasicBlock
	var dfs func(b *ssa.BasicBlock)
	dfs = func(b *ssa.BasicBlock) {
		seen[b] = true
		for _, s := range b.Succs {
			if fc.backEdge[[2]int{b.Index, s.Index}] || seen[s] {
				continue
			}
			dfs(s)
		}
		post = append(post, b)
	}
	dfs(fn.Blocks[0])
	for i, j := 0, len(post)-1; i < j; i, j = i+1, j-1 {
		post[i], post[j] = post[j], post[i]
	}
	return post
}

func (fc *FnCtx) findLoops() {
	fn := fc.fn
	// back edge: target dominates source
	for _, b := range fn.Blocks {
		for _, s := range b.Succs {
			if s.Dominates(b) {
				fc.backEdge[[2]int{b.Index, s.Index}] = true
				li := fc.loopOf[s]
				if li == nil {
					li = &loopInfo{header: s, blocks: map[*ssa.BasicBlock]bool{s: true}}
					fc.loopOf[s] = li
					fc.loops = append(fc.loops, li)
				}
				// natural loop body: nodes that reach b without passing s
				var stack []*ssa.BasicBlock
				if !li.blocks[b] {
					li.blocks[b] = true
					stack = append(stack, b)
				}
				for len(stack) > 0 {
					n := stack[len(stack)-1]
					stack = stack[:len(stack)-1]
					for _, p := range n.Preds {
						if !li.blocks[p] {
							li.blocks[p] = true
							stack = append(stack, p)
						}
					}
				}
			}
		}
	}
	// ordinals by source position of the header's first positioned instruction
	sort.Slice(fc.loops, func(i, j int) bool { return loopPos(fc.loops[i]) < loopPos(fc.loops[j]) })
	for i, l := range fc.loops {
		l.ordinal = i + 1
	}
	// an invariant written for a loop that does not exist would be silently unchecked. While contracts are written
	// (`govc vc`, `-update-lock`) that is refused; in a check it is reported and the function is still verified against
	// its postconditions (a change that removes a loop and breaks a postcondition must come out as a violation; if the
	// postconditions survive, the lock reports the vanished invariant obligations as undecided).
	if fc.con != nil {
		for n := range fc.con.LoopInv {
			if n < 1 || n > len(fc.loops) {
				msg := fmt.Sprintf("%s: contract has an invariant for loop %d, the function has %d loop(s)", fc.name, n, len(fc.loops))
				if strictLoopOrdinals {
					fc.err = fmt.Errorf("%s", msg)
				} else {
					fmt.Fprintln(os.Stderr, "CONTRACT-WARNING "+msg)
				}
			}
		}
	}
}

func loopPos(l *loopInfo) token.Pos {
	best := token.Pos(1 << 40)
	for b := range l.blocks {
		for _, in := range b.Instrs {
			if p := in.Pos(); p != token.NoPos && p < best {
				best = p
			}
		}
	}
	return best
}

// loopWrites: locals stored, heap arrays written and frames of callees inside the loop.
func (fc *FnCtx) loopWrites(li *loopInfo) (locals []*ssa.Alloc, arrs map[string]bool, top bool, ghosts map[string]bool) {
	arrs = map[string]bool{}
	ghosts = map[string]bool{}
	lset := map[*ssa.Alloc]bool{}
	li.writtenLocalObjs = map[*ssa.Alloc]bool{}
	for b := range li.blocks {
		for _, in := range b.Instrs {
			fr := fc.g.closeDeps(fc.g.instrFrame(fc.fn, in, false))
			if s, ok := in.(*ssa.Store); ok {
				// inside a loop, stores into objects of this function count as well (struct-valued locals live in the
				// heap arrays at their own reference; fresh heap objects made before the loop are shared by all iterations)
				if a := rootAlloc(s.Addr); a != nil && !fc.isSimpleLocal(a) {
					fc.g.storeFrameX(fc.fn, s.Addr, s.Addr.Type().Underlying().(*types.Pointer).Elem(), fr, true)
					if !a.Heap {
						li.writtenLocalObjs[a] = true
					}
				}
			}
			if fr.top {
				top = true
			}
			for a := range fr.arrs {
				arrs[a] = true
			}
			for f := range fr.facts {
				if strings.HasPrefix(f, "$") {
					ghosts[f] = true
				} else {
					ghosts["fact:"+f] = true
				}
			}
			if s, ok := in.(*ssa.Store); ok {
				if a, ok := s.Addr.(*ssa.Alloc); ok && fc.isSimpleLocal(a) {
					lset[a] = true
				}
			}
			if c, ok := in.(ssa.CallInstruction); ok {
				if n := fc.g.trackName(c.Common()); n != "" {
					ghosts["#"+n] = true
				}
			}
		}
	}
	for a := range lset {
		locals = append(locals, a)
	}
	sort.Slice(locals, func(i, j int) bool { return locals[i].Name() < locals[j].Name() })
	return
}

func (fc *FnCtx) enterLoop(li *loopInfo, st *State) {
	li.entrySt = st.clone()
	// inv-entry
	env := fc.selfEnv(fc.entry, st, nil)
	env.loopEntry = li.entrySt
	var invs []*Clause
	if fc.con != nil {
		invs = fc.con.LoopInv[li.ordinal]
	}
	for _, c := range invs {
		t, err := fc.evalBool(env, c.Expr)
		if err != nil {
			fc.err = fmt.Errorf("%s: loop %d invariant %q: %v", fc.name, li.ordinal, c.Text, err)
			return
		}
		if c.Expr.Op == "call" && c.Expr.Name == "unchangedOutside" {
			for _, part := range splitTopAnd(t) {
				fc.oblige(st, "inv-entry", fmt.Sprintf("loop%d/%s/%s", li.ordinal, c.Label, frameArrayName(part)), part, li.header.Instrs[0].Pos(), c.Props)
			}
			continue
		}
		fc.oblige(st, "inv-entry", fmt.Sprintf("loop%d/%s", li.ordinal, c.Label), t, li.header.Instrs[0].Pos(), c.Props)
	}
	// havoc
	locals, arrs, top, ghosts := fc.loopWrites(li)
	for _, a := range locals {
		et := a.Type().Underlying().(*types.Pointer).Elem()
		c := fc.q.freshConst(localName(a)+"@loop", fc.g.ti.sortOf(et))
		old, had := st.locals[a]
		st.locals[a] = c
		fc.typeInv(st, c, et)
		// monotone counter: every store to a inside the loop is a := a + positive constant
		if had && fc.g.ti.sortOf(et) == sInt && fc.onlyIncremented(li, a) {
			fc.q.assert(implies(st.reach, fmt.Sprintf("(>= %s %s)", c, old)))
		}
	}
	if top {
		st.havocAll()
	} else {
		var as []string
		for a := range arrs {
			as = append(as, a)
		}
		skip := map[string]bool{}
		for a := range li.writtenLocalObjs {
			if v, ok := fc.vals[a]; ok {
				skip[v.T] = true
			}
		}
		st.havocArrsKeeping(as, skip)
		na := fc.q.freshConst("alloc@loop", sInt)
		fc.q.assert(implies(st.reach, fmt.Sprintf("(>= %s %s)", na, st.alloc())))
		st.allocB, st.allocK = na, 0
		st.fixBounds()
	}
	for gk := range st.ghost {
		if ghosts[gk] || strings.HasPrefix(gk, "#") && ghosts[strings.SplitN(gk, ".", 2)[0]] {
			st.ghost[gk] = fc.q.freshConst("g_"+gk+"@loop", fc.ghostSort[gk])
		}
	}
	for gk := range ghosts {
		if strings.HasPrefix(gk, "#") {
			// counters only grow
			old := st.ghostGet(gk, sInt, "0")
			nv := fc.q.freshConst("g_"+gk+"@loop", sInt)
			fc.q.assert(implies(st.reach, fmt.Sprintf("(>= %s %s)", nv, old)))
			st.ghost[gk] = nv
			for k := range fc.ghostSort {
				if strings.HasPrefix(k, gk+".") {
					st.ghost[k] = fc.q.freshConst("g_"+k+"@loop", fc.ghostSort[k])
				}
			}
		} else if strings.HasPrefix(gk, "$") {
			fc.gvarGet(st, gk)
			st.ghost[gk] = fc.q.freshConst("gv_"+sanitize(gk[1:])+"@loop", sInt)
		} else if strings.HasPrefix(gk, "fact:") {
			st.ghost[gk] = fc.q.freshConst("g_"+gk+"@loop", sBool)
			fc.ghostSort[gk] = sBool
			if _, ok := fc.ghostInit[gk]; !ok {
				fc.ghostInit[gk] = "false"
			}
		}
	}
	st.nonnil = map[string]bool{}
	st.young = map[string]string{}
	// a frame invariant is compiled into the havoc itself
	li.compiledInv = map[*Clause]bool{}
	if !top && os.Getenv("GOVC_NOFRAMECOMPILE") == "" {
		for _, c := range invs {
			if c.Expr.Op == "call" && c.Expr.Name == "unchangedOutside" {
				henv := fc.selfEnv(fc.entry, st, nil)
				henv.loopEntry = li.entrySt
				var as []string
				for a := range arrs {
					as = append(as, a)
				}
				if fc.compileFrame(henv, c.Expr, as) {
					li.compiledInv[c] = true
				}
				break
			}
		}
	}
	// phis of the header are havocked in execBlock; assume invariants after phis are defined
	li.headSt = st
}

func (fc *FnCtx) onlyIncremented(li *loopInfo, a *ssa.Alloc) bool {
	n := 0
	for b := range li.blocks {
		for _, in := range b.Instrs {
			s, ok := in.(*ssa.Store)
			if !ok || s.Addr != ssa.Value(a) {
				continue
			}
			n++
			bo, ok := s.Val.(*ssa.BinOp)
			if !ok || bo.Op != token.ADD {
				return false
			}
			ld, ok := bo.X.(*ssa.UnOp)
			if !ok || ld.Op != token.MUL || ld.X != ssa.Value(a) {
				return false
			}
			c, ok := bo.Y.(*ssa.Const)
			if !ok || c.Value == nil || c.Int64() <= 0 {
				return false
			}
		}
	}
	return n > 0
}

// assumeLoopInv is called after the header's phis have been given fresh values.
func (fc *FnCtx) assumeLoopInv(li *loopInfo, st *State) {
	if fc.con == nil {
		return
	}
	env := fc.selfEnv(fc.entry, st, nil)
	env.loopEntry = li.entrySt
	for _, c := range fc.con.LoopInv[li.ordinal] {
		if li.compiledInv[c] {
			continue
		}
		t, err := fc.evalBool(env, c.Expr)
		if err != nil {
			fc.err = fmt.Errorf("%s: loop %d invariant %q: %v", fc.name, li.ordinal, c.Text, err)
			return
		}
		fc.q.assert(implies(st.reach, t))
	}
}

func (fc *FnCtx) closeLoop(li *loopInfo, st *State, edgeCond string) {
	if fc.con == nil || li == nil {
		return
	}
	bst := st.clone()
	bst.reach = and(st.reach, edgeCond)
	// header phis take their back-edge values
	saved := map[ssa.Value]Val{}
	for _, in := range li.header.Instrs {
		phi, ok := in.(*ssa.Phi)
		if !ok {
			break
		}
		saved[phi] = fc.vals[phi]
		for i, p := range li.header.Preds {
			if p == fc.curBlock {
				fc.vals[phi] = fc.val(bst, phi.Edges[i])
			}
		}
	}
	env := fc.selfEnv(fc.entry, bst, nil)
	env.loopEntry = li.entrySt
	for _, c := range fc.con.LoopInv[li.ordinal] {
		t, err := fc.evalBool(env, c.Expr)
		if err != nil {
			fc.err = fmt.Errorf("%s: loop %d invariant %q: %v", fc.name, li.ordinal, c.Text, err)
			return
		}
		if c.Expr.Op == "call" && c.Expr.Name == "unchangedOutside" {
			for _, part := range splitTopAnd(t) {
				fc.oblige(bst, "inv-preserve", fmt.Sprintf("loop%d/%s/%s", li.ordinal, c.Label, frameArrayName(part)), part, li.header.Instrs[0].Pos(), c.Props)
			}
			continue
		}
		fc.oblige(bst, "inv-preserve", fmt.Sprintf("loop%d/%s", li.ordinal, c.Label), t, li.header.Instrs[0].Pos(), c.Props)
	}
	for k, v := range saved {
		fc.vals[k] = v
	}
}

// finish: postconditions at the merged exit, frame check.
func (fc *FnCtx) finish() {
	exit, results := fc.mergeReturns()
	if exit == nil {
		return
	}
	fc.finishContract(exit, results)
}

// mergeReturns: the state and the result values at function exit (merge over all return points); nil when the function
// has no reachable return.
func (fc *FnCtx) mergeReturns() (*State, []Val) {
	if len(fc.returns) == 0 {
		return nil, nil
	}
	var preds []parentLink
	for _, r := range fc.returns {
		preds = append(preds, parentLink{edge: r.st.reach, st: r.st})
	}
	var exit *State
	var results []Val
	if len(preds) == 1 {
		exit = fc.returns[0].st
		results = fc.returns[0].results
	} else {
		exit = mergeStates(fc, "exit", preds)
		nres := len(fc.returns[0].results)
		for i := 0; i < nres; i++ {
			rt := fc.fn.Signature.Results().At(i).Type()
			if isStructLike(rt) {
				// materialise each return's struct into the exit heap under its edge
				ref := fc.q.freshConst(fmt.Sprintf("res%d_sv", i), sRef)
				var ls []Leaf
				fc.g.ti.leaves(rt, 0, "", &ls)
				for _, l := range ls {
					fc.g.regArr(l.arr, l.sort)
					var terms []string
					for _, r := range fc.returns {
						terms = append(terms, fc.svLeaf(r.results[i].SV, l))
					}
					lv := mergeTerm(fc, fmt.Sprintf("res%d%s", i, sanitize(l.path)), l.sort, preds, terms)
					exit.heap[l.arr] = sto(exit.get(l.arr), emb(ref, l.off), lv)
				}
				results = append(results, Val{SV: &StructVal{st: exit.clone(), ref: ref}, Typ: rt})
				continue
			}
			var terms []string
			for _, r := range fc.returns {
				terms = append(terms, r.results[i].T)
			}
			results = append(results, Val{T: mergeTerm(fc, fmt.Sprintf("res%d", i), fc.g.ti.sortOf(rt), preds, terms), Typ: rt})
		}
	}
	for i := range results {
		results[i].Typ = fc.fn.Signature.Results().At(i).Type()
	}
	return exit, results
}

func (fc *FnCtx) finishContract(exit *State, results []Val) {
	if fc.con == nil {
		return
	}
	// frame: a declared `modifies`/`pure` is an obligation, not an assumption: every cell that existed at entry and
	// lies in an array outside the declared frame keeps its value
	if fc.con.Modifies != nil || fc.con.Pure {
		declared := fc.con.frame(fc.g)
		if !declared.top {
			for _, a := range sortedKeys(fc.written) {
				if declared.arrs[a] {
					continue
				}
				o, n := fc.entry.get(a), exit.get(a)
				if o == n {
					continue
				}
				fc.oblige(exit, "frame", a, fmt.Sprintf("(forall ((fr Ref)) (=> (and (<= (rbase fr) alloc0) (<= 0 (rbase fr))) (= (select %s fr) (select %s fr))))", n, o), fc.fn.Pos(), nil)
			}
		}
	}
	env := fc.selfEnv(fc.entry, exit, results)
	if fc.con.Invokes != "" {
		cnt := exit.ghostGet("#"+fc.con.Invokes, sInt, "0")
		fc.oblige(exit, "post", "invokes_"+fc.con.Invokes+"_exactly_once", eq(cnt, "1"), fc.fn.Pos(), nil)
	}
	// ghost fact definitions are assigned at return
	for _, se := range fc.con.Sets {
		t, err := fc.evalBool(env, se.Expr)
		if err != nil {
			fc.err = fmt.Errorf("%s: sets %q: %v", fc.name, se.Text, err)
			return
		}
		k := "fact:" + se.Var
		fc.ghostSort[k] = sBool
		if _, ok := fc.ghostInit[k]; !ok {
			fc.ghostInit[k] = fc.factInit(se.Var)
		}
		exit.ghost[k] = t
	}
	for _, c := range fc.con.Ensures {
		t, err := fc.evalBool(env, c.Expr)
		if err != nil {
			fc.err = fmt.Errorf("%s: ensures %q: %v", fc.name, c.Text, err)
			return
		}
		if c.Expr.Op == "call" && c.Expr.Name == "unchangedOutside" {
			// a frame postcondition: one obligation per array, so that a failure names the array
			for _, part := range splitTopAnd(t) {
				fc.oblige(exit, "post", c.Label+"/"+frameArrayOf(part), part, fc.fn.Pos(), c.Props)
			}
			continue
		}
		o := fc.oblige(exit, "post", c.Label, t, fc.fn.Pos(), c.Props)
		o.Inputs = fc.inputs
		if c.Cover != nil {
			ct, err := fc.evalBool(env, c.Cover)
			if err == nil {
				co := fc.oblige(exit, "cover", "post-"+c.Label, not(ct), fc.fn.Pos(), c.Props)
				co.MustSat = true
			}
		}
	}
}

// splitTopAnd: the conjuncts of "(and a b ...)" (the term itself otherwise).
func splitTopAnd(t string) []string {
	if !strings.HasPrefix(t, "(and ") {
		return []string{t}
	}
	var out []string
	depth, start := 0, -1
	body := t[5 : len(t)-1]
	for i := 0; i < len(body); i++ {
		switch body[i] {
		case '(':
			if depth == 0 {
				start = i
			}
			depth++
		case ')':
			depth--
			if depth == 0 && start >= 0 {
				out = append(out, body[start:i+1])
				start = -1
			}
		case ' ':
		default:
			if depth == 0 && start < 0 {
				j := i
				for j < len(body) && body[j] != ' ' {
					j++
				}
				out = append(out, body[i:j])
				i = j
			}
		}
	}
	return out
}

var frameArrRe = regexp.MustCompile(`:pattern \(\(select ([A-Za-z0-9_.$!@]+)`)

func frameArrayOf(part string) string { return frameArrayName(part) }

// frameArrayName: the array a frame conjunct talks about, without its version suffix (stable across runs).
var frameVarRe = regexp.MustCompile(`\(forall \(\(ur_\d+__([A-Za-z0-9_.$]+) Ref\)`)

func frameArrayName(part string) string {
	if m := frameVarRe.FindStringSubmatch(part); m != nil {
		return m[1]
	}
	if m := frameArrRe.FindStringSubmatch(part); m != nil {
		n := m[1]
		if i := strings.IndexAny(n, "!@"); i > 0 {
			n = n[:i]
		}
		return n
	}
	return fmt.Sprintf("%x", hashStr(part))
}

// rootAlloc: the allocation an address is a field or element of (nil when it is reached through a load).
func rootAlloc(addr ssa.Value) *ssa.Alloc {
	root := addr
	for {
		switch x := root.(type) {
		case *ssa.FieldAddr:
			root = x.X
			continue
		case *ssa.IndexAddr:
			if _, isPtr := x.X.Type().Underlying().(*types.Pointer); isPtr {
				root = x.X
				continue
			}
		}
		break
	}
	a, _ := root.(*ssa.Alloc)
	return a
}
