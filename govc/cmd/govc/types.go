package main

import (
	"fmt"
	"go/types"
	"strings"
)

// TypeInfo: Go type -> SMT sort, struct layouts, heap array names.
type TypeInfo struct {
	shortNames map[string]string // full type string -> short unique
	usedShort  map[string]bool
	layouts    map[*types.Struct]*Layout
	typeIDs    map[string]int // dynamic type ids for interfaces
	typeByID   []types.Type
}

type Layout struct {
	size int
	offs []int
}

func newTypeInfo() *TypeInfo {
	return &TypeInfo{shortNames: map[string]string{}, usedShort: map[string]bool{}, layouts: map[*types.Struct]*Layout{}, typeIDs: map[string]int{}, typeByID: []types.Type{nil}}
}

// opaque named struct types treated as one scalar leaf.
func opaqueSort(t types.Type) (string, bool) {
	if n, ok := t.(*types.Named); ok && n.Obj().Pkg() != nil {
		switch n.Obj().Pkg().Path() + "." + n.Obj().Name() {
		case "time.Time":
			return sInt, true
		case "k8s.io/apimachinery/pkg/api/resource.Quantity":
			return sInt, true
		case "sync.Mutex", "sync.RWMutex", "sync.Once", "sync.WaitGroup":
			return sInt, true
		}
	}
	return "", false
}

// sortOf returns the SMT sort of a scalar Go type, or "" for struct/array/tuple types.
func (ti *TypeInfo) sortOf(t types.Type) string {
	if s, ok := opaqueSort(t); ok {
		return s
	}
	switch u := t.Underlying().(type) {
	case *types.Basic:
		switch {
		case u.Info()&types.IsBoolean != 0:
			return sBool
		case u.Info()&types.IsInteger != 0:
			return sInt
		case u.Info()&types.IsString != 0:
			return sStr
		case u.Info()&types.IsFloat != 0:
			return sInt // floats are abstracted as Int-sorted uninterpreted values
		case u.Kind() == types.UnsafePointer:
			return sRef
		case u.Kind() == types.UntypedNil:
			return sRef
		}
		return sInt
	case *types.Pointer, *types.Map, *types.Chan:
		return sRef
	case *types.Slice:
		return sSlice
	case *types.Interface:
		return sIface
	case *types.Signature:
		return sFn
	case *types.Struct, *types.Array, *types.Tuple:
		return ""
	case *types.TypeParam:
		return sIface
	}
	return sInt
}

func isStructLike(t types.Type) bool {
	if _, ok := opaqueSort(t); ok {
		return false
	}
	switch t.Underlying().(type) {
	case *types.Struct, *types.Array:
		return true
	}
	return false
}

func (ti *TypeInfo) sizeOf(t types.Type) int {
	if _, ok := opaqueSort(t); ok {
		return 1
	}
	switch u := t.Underlying().(type) {
	case *types.Struct:
		return ti.layout(u).size
	case *types.Array:
		n := int(u.Len()) * ti.sizeOf(u.Elem())
		if n == 0 {
			return 1
		}
		return n
	}
	return 1
}

func (ti *TypeInfo) layout(s *types.Struct) *Layout {
	if l, ok := ti.layouts[s]; ok {
		return l
	}
	l := &Layout{}
	ti.layouts[s] = l
	off := 0
	for i := 0; i < s.NumFields(); i++ {
		l.offs = append(l.offs, off)
		off += ti.sizeOf(s.Field(i).Type())
	}
	if off == 0 {
		off = 1
	}
	l.size = off
	return l
}

func (ti *TypeInfo) short(t types.Type) string {
	full := types.TypeString(t, nil)
	if s, ok := ti.shortNames[full]; ok {
		return s
	}
	var s string
	if n, ok := t.(*types.Named); ok && n.Obj().Pkg() != nil {
		p := n.Obj().Pkg().Path()
		parts := strings.Split(p, "/")
		last := parts[len(parts)-1]
		if (last == "v1" || last == "v1beta1" || last == "v1alpha1" || last == "v1alpha2") && len(parts) >= 2 {
			last = parts[len(parts)-2] + last
		}
		s = sanitize(last + "_" + n.Obj().Name())
	} else {
		s = sanitize(full)
		if len(s) > 40 {
			s = fmt.Sprintf("%s_h%x", s[:24], hashStr(full))
		}
	}
	base := s
	for i := 2; ti.usedShort[s]; i++ {
		s = fmt.Sprintf("%s_%d", base, i)
	}
	ti.usedShort[s] = true
	ti.shortNames[full] = s
	return s
}

func hashStr(s string) uint32 {
	var h uint32 = 2166136261
	for i := 0; i < len(s); i++ {
		h ^= uint32(s[i])
		h *= 16777619
	}
	return h
}

// fieldArray: name of heap array of field i of struct type t (t may be named or not).
func (ti *TypeInfo) fieldArray(t types.Type, i int) string {
	st := t.Underlying().(*types.Struct)
	return "F_" + ti.short(t) + "_" + sanitize(st.Field(i).Name())
}

// cellArray: heap array for standalone cells / slice elements / array elements of scalar type t.
func (ti *TypeInfo) cellArray(t types.Type) string {
	return "C_" + ti.short(t)
}

func (ti *TypeInfo) typeID(t types.Type) int {
	k := types.TypeString(t, nil)
	if id, ok := ti.typeIDs[k]; ok {
		return id
	}
	id := len(ti.typeByID)
	ti.typeIDs[k] = id
	ti.typeByID = append(ti.typeByID, t)
	return id
}

// Leaf describes one scalar slot of a flattened struct/array type.
type Leaf struct {
	arr  string // heap array holding it
	off  int    // offset of the *owner object* (the struct declaring the field, or the cell itself) from the root
	sort string
	typ  types.Type
	path string
}

// leaves enumerates the scalar leaves of type t rooted at offset base.
// For a struct field leaf the array is indexed by the ref of the declaring struct (root+off);
// for an array element leaf of scalar type the array is the cell array indexed by the element ref.
func (ti *TypeInfo) leaves(t types.Type, base int, path string, out *[]Leaf) {
	if s, ok := opaqueSort(t); ok {
		*out = append(*out, Leaf{arr: ti.cellArray(t), off: base, sort: s, typ: t, path: path})
		return
	}
	switch u := t.Underlying().(type) {
	case *types.Struct:
		l := ti.layout(u)
		for i := 0; i < u.NumFields(); i++ {
			ft := u.Field(i).Type()
			if isStructLike(ft) {
				ti.leaves(ft, base+l.offs[i], path+"."+u.Field(i).Name(), out)
			} else {
				*out = append(*out, Leaf{arr: ti.fieldArray(t, i), off: base, sort: ti.sortOf(ft), typ: ft, path: path + "." + u.Field(i).Name()})
			}
		}
	case *types.Array:
		esz := ti.sizeOf(u.Elem())
		for i := 0; i < int(u.Len()); i++ {
			ti.leaves(u.Elem(), base+i*esz, fmt.Sprintf("%s[%d]", path, i), out)
		}
	default:
		*out = append(*out, Leaf{arr: ti.cellArray(t), off: base, sort: ti.sortOf(t), typ: t, path: path})
	}
}

func intRange(t types.Type) (lo, hi string, ok bool) {
	b, isB := t.Underlying().(*types.Basic)
	if !isB {
		return
	}
	switch b.Kind() {
	case types.Int8:
		return "(- 128)", "127", true
	case types.Int16:
		return "(- 32768)", "32767", true
	case types.Int32:
		return "(- 2147483648)", "2147483647", true
	case types.Int, types.Int64:
		return "(- 9223372036854775808)", "9223372036854775807", true
	case types.Uint8:
		return "0", "255", true
	case types.Uint16:
		return "0", "65535", true
	case types.Uint32:
		return "0", "4294967295", true
	case types.Uint, types.Uint64, types.Uintptr:
		return "0", "18446744073709551615", true
	}
	return
}
