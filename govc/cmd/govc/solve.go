package main

import (
	"bytes"
	"context"
	"fmt"
	"os"
	"os/exec"
	"path/filepath"
	"regexp"
	"runtime"
	"strconv"
	"strings"
	"sync"
	"syscall"
	"time"
)

type SolverCfg struct {
	QueryTimeout time.Duration // per obligation, portfolio phase
	IncTimeoutMs int           // per check in the incremental phase
	WorkDir      string
	CrossCheck   bool // re-prove discharged obligations on a second back end
	Jobs         int
	Sequential   bool                   // one solver process at a time (the retry phase: nothing competes with the query)
	Expect       func(name string) bool // obligations the lock expects to be discharged: retried with a longer timeout before they are reported undecided
}

func (fc *FnCtx) header() string { return fc.headerFor(false) }

// headerFor: declarations for a query; must-sat (cover) queries leave out the quantified spec-function axioms, which
// make the solver answer "unknown" instead of "sat" (a weaker vacuity check for the few functions that have such axioms).
func (fc *FnCtx) headerFor(mustSat bool) string {
	var b strings.Builder
	b.WriteString(prelude)
	for _, s := range fc.g.userSMT {
		b.WriteString(s)
		b.WriteString("\n")
	}
	b.WriteString(fc.q.litPrelude())
	for _, d := range fc.q.decls {
		b.WriteString(d)
		b.WriteString("\n")
	}
	for _, d := range fc.q.recDefs {
		b.WriteString(d)
		b.WriteString("\n")
	}
	if !mustSat {
		for _, a := range fc.q.axioms {
			b.WriteString(a)
			b.WriteString("\n")
		}
	}
	return b.String()
}

// symbolsOf: declared symbols occurring in an s-expression.
func (fc *FnCtx) symbolsOf(t string) []string {
	var out []string
	start := -1
	for i := 0; i <= len(t); i++ {
		if i == len(t) || t[i] == '(' || t[i] == ')' || t[i] == ' ' || t[i] == '\n' {
			if start >= 0 {
				tok := t[start:i]
				if _, ok := fc.q.declared[tok]; ok {
					out = append(out, tok)
				} else if _, ok := fc.q.declared["fun:"+tok]; ok {
					out = append(out, tok)
				} else if strings.HasPrefix(tok, "sumf_") {
					out = append(out, tok)
				}
				start = -1
			}
			continue
		}
		if start < 0 {
			start = i
		}
	}
	return out
}

// sliceAsserts: cone of influence of the goal (assertions that can constrain a symbol the goal depends on).
// Dropping the others only weakens the hypotheses: an unsat answer on the slice is an unsat answer on the whole.
// defTargets: the constants an assertion defines, for the shapes the generator emits:
//
//	(= X T)   (=> G (= X T))   with X a declared constant (both sides when T is a constant too).
func (fc *FnCtx) defTargets(a string) []string {
	body := a
	if strings.HasPrefix(body, "(=> ") {
		// skip the guard: one balanced term after "(=> "
		k := 4
		depth := 0
		for ; k < len(body); k++ {
			c := body[k]
			if c == '(' {
				depth++
			} else if c == ')' {
				depth--
				if depth == 0 {
					k++
					break
				}
			} else if c == ' ' && depth == 0 {
				break
			}
		}
		if k >= len(body) {
			return nil
		}
		body = strings.TrimSpace(body[k : len(body)-1])
	}
	if !strings.HasPrefix(body, "(= ") {
		return nil
	}
	rest := body[3 : len(body)-1]
	sp := strings.IndexByte(rest, ' ')
	if sp < 0 || strings.ContainsAny(rest[:sp], "()") {
		return nil
	}
	x := rest[:sp]
	if _, ok := fc.q.declared[x]; !ok {
		return nil
	}
	out := []string{x}
	t := strings.TrimSpace(rest[sp+1:])
	if !strings.ContainsAny(t, "() ") {
		if _, ok := fc.q.declared[t]; ok {
			out = append(out, t)
		}
	}
	return out
}

func isCtlSym(s string) bool {
	return strings.HasPrefix(s, "r_") || strings.HasPrefix(s, "alloc")
}

// sliceAsserts: a directed cone of influence of the goal. Any subset of the assertions is sound for an "unsat" answer
// (fewer hypotheses); a "sat" answer on a slice is never believed. Definitions are followed from the goal; a constraint
// is kept when it talks about a strongly relevant symbol; symbols that only constraints mention are weakly relevant:
// their definitions are kept, further constraints about them are not.
func (fc *FnCtx) sliceAsserts(o *Obligation) []int {
	for len(fc.assertSyms) < len(fc.q.asserts) {
		k := len(fc.assertSyms)
		a := fc.q.asserts[k]
		fc.assertSyms = append(fc.assertSyms, fc.symbolsOf(a))
		fc.assertDefs = append(fc.assertDefs, fc.defTargets(a))
	}
	if fc.recSyms == nil {
		fc.recSyms = map[string][]string{}
		for _, d := range fc.q.recDefs {
			parts := strings.Fields(d)
			if len(parts) > 1 {
				fc.recSyms[parts[1]] = fc.symbolsOf(d)
			}
		}
	}
	if fc.symIndex == nil {
		fc.symIndex = map[string][]int{}
	}
	for i := fc.symIndexed; i < len(fc.q.asserts); i++ {
		for _, s := range fc.assertSyms[i] {
			fc.symIndex[s] = append(fc.symIndex[s], i)
		}
	}
	fc.symIndexed = len(fc.q.asserts)
	// relevance levels: the goal's symbols start at `top`; a definition keeps the level of the symbol it defines; a
	// constraint about a symbol of level k > 1 is kept and its other symbols get level k-1 (level 1: definitions only)
	const top = 4
	rel := map[string]int{}
	type item struct {
		s   string
		lvl int
	}
	var work []item
	add := func(s string, lvl int) {
		if rel[s] < lvl {
			rel[s] = lvl
			work = append(work, item{s, lvl})
		}
	}
	for _, s := range fc.symbolsOf(o.Goal) {
		add(s, top)
	}
	used := map[int]int{}
	for len(work) > 0 {
		it := work[len(work)-1]
		work = work[:len(work)-1]
		if rel[it.s] > it.lvl {
			continue
		}
		for _, rs := range fc.recSyms[it.s] {
			add(rs, it.lvl)
		}
		if body, ok := fc.q.defined[it.s]; ok {
			for _, rs := range fc.symbolsOf(body) {
				add(rs, it.lvl)
			}
		}
		for _, i := range fc.symIndex[it.s] {
			if i >= o.NAsserts {
				continue
			}
			defs := fc.assertDefs[i]
			isDef := false
			for _, d := range defs {
				if d == it.s {
					isDef = true
				}
			}
			switch {
			case isDef:
				if used[i] >= it.lvl {
					continue
				}
				used[i] = it.lvl
				for _, t := range fc.assertSyms[i] {
					add(t, it.lvl)
				}
			case len(defs) == 0 && it.lvl > 1 && !isCtlSym(it.s):
				// a constraint about a relevant value
				if used[i] >= it.lvl {
					continue
				}
				used[i] = it.lvl
				for _, t := range fc.assertSyms[i] {
					if isCtlSym(t) {
						add(t, top)
					} else {
						add(t, it.lvl-1)
					}
				}
			}
		}
	}
	var idx []int
	for i := 0; i < o.NAsserts; i++ {
		a := fc.q.asserts[i]
		keep := used[i] > 0
		if !keep {
			// facts about the control skeleton only (reachability, allocation counters) are always kept
			onlyCtl := len(fc.assertSyms[i]) > 0
			for _, t := range fc.assertSyms[i] {
				if !isCtlSym(t) {
					onlyCtl = false
					break
				}
			}
			keep = onlyCtl
		}
		if !keep && strings.HasPrefix(a, "(forall ((ar Ref))") {
			// array typing axiom: kept whenever its array version is relevant at all
			for _, t := range fc.assertSyms[i] {
				if rel[t] > 0 {
					keep = true
					break
				}
			}
		}
		if keep {
			idx = append(idx, i)
		}
	}
	return idx
}

// standalone query text for one obligation
func (fc *FnCtx) queryText(o *Obligation, withModel bool) string {
	return fc.queryTextSliced(o, withModel, false)
}

func (fc *FnCtx) queryTextSliced(o *Obligation, withModel bool, sliced bool) string {
	var b strings.Builder
	b.WriteString("; obligation " + o.Name() + "\n")
	b.WriteString(fc.headerFor(o.MustSat))
	if sliced {
		for _, i := range fc.sliceAsserts(o) {
			b.WriteString("(assert " + fc.q.asserts[i] + ")\n")
		}
	} else {
		for _, a := range fc.q.asserts[:o.NAsserts] {
			b.WriteString("(assert " + a + ")\n")
		}
	}
	b.WriteString("(assert (not " + o.Goal + "))\n")
	b.WriteString("(check-sat)\n")
	if withModel {
		var terms []string
		seen := map[string]bool{}
		for _, in := range o.Inputs {
			if in.Term != "" && !seen[in.Term] {
				seen[in.Term] = true
				terms = append(terms, in.Term)
				if in.Sort == sStr {
					// a string is abstract in the model: what the percent spec functions say about it makes it concrete
					terms = append(terms, "(isPct "+in.Term+")", "(pctNum "+in.Term+")")
				}
			}
		}
		if len(terms) > 0 {
			b.WriteString("(get-value (" + strings.Join(terms, " ") + "))\n")
		}
	}
	return b.String()
}

// incremental text: the obligations obls[lo:hi] of the function in one solver session (all assertions up to each
// obligation's position are asserted, only the goals of the chunk are checked)
func (fc *FnCtx) incrementalText(timeoutMs int, lo, hi int) string {
	var b strings.Builder
	fmt.Fprintf(&b, "(set-option :timeout %d)\n", timeoutMs)
	b.WriteString(fc.header())
	n := 0
	for i, o := range fc.obls[:hi] {
		for ; n < o.NAsserts; n++ {
			b.WriteString("(assert " + fc.q.asserts[n] + ")\n")
		}
		if i < lo {
			continue
		}
		fmt.Fprintf(&b, "(push 1)\n(assert (not %s))\n(check-sat)\n(pop 1)\n", o.Goal)
	}
	return b.String()
}

var solvers = []struct {
	name, bin string
	args      []string
}{
	{"z3-4.8.12", "/usr/bin/z3", []string{"-smt2"}},
	{"z3-5.1.0", "z3-new", []string{"-smt2"}},
	{"cvc5-1.0", "cvc5", []string{"--lang=smt2", "--produce-models"}},
}

// procSem bounds the number of solver processes that run at the same time (one per core): a query's timeout then measures
// solver time, not time spent waiting for a core.
var procSem = make(chan struct{}, solverProcs())

// solverProcs: how many solver processes may run at once (one per core; GOVC_PROCS overrides). More would make a
// query's timeout measure waiting rather than solving.
func solverProcs() int {
	if v, err := strconv.Atoi(os.Getenv("GOVC_PROCS")); err == nil && v > 0 {
		return v
	}
	return runtime.NumCPU()
}

func runSolver(ctx context.Context, bin string, args []string, file string, timeout time.Duration) (string, error) {
	select {
	case procSem <- struct{}{}:
	case <-ctx.Done():
		return "", ctx.Err()
	}
	defer func() { <-procSem }()
	if ctx.Err() != nil {
		return "", ctx.Err()
	}
	cctx, cancel := context.WithTimeout(ctx, timeout)
	defer cancel()
	cmd := exec.CommandContext(cctx, bin, append(args, file)...)
	var out bytes.Buffer
	cmd.Stdout = &out
	cmd.Stderr = &out
	cmd.WaitDelay = 2 * time.Second
	// the solver dies with this process (a killed or timed-out check must not leave solvers running)
	cmd.SysProcAttr = &syscall.SysProcAttr{Pdeathsig: syscall.SIGKILL}
	err := cmd.Run()
	if cctx.Err() == context.DeadlineExceeded {
		return out.String(), fmt.Errorf("timeout")
	}
	return out.String(), err
}

var resLineRe = regexp.MustCompile(`(?m)^(sat|unsat|unknown|timeout)\s*$`)

func firstVerdict(out string) string {
	m := resLineRe.FindStringSubmatch(out)
	if m == nil {
		return "error"
	}
	return m[1]
}

// solveFunction decides all obligations of fc.
func solveFunction(fc *FnCtx, cfg SolverCfg) {
	if len(fc.obls) == 0 {
		return
	}
	dir := filepath.Join(cfg.WorkDir, sanitize(fc.name))
	os.MkdirAll(dir, 0o755)
	usesLambda := fc.q.hasLambda
	for _, a := range fc.q.asserts {
		if strings.Contains(a, "(lambda ") {
			usesLambda = true
			break
		}
	}
	// phase 1: incremental z3, in chunks that run in parallel
	const chunk = 48
	var pending []*Obligation
	var pmu sync.Mutex
	var cwg sync.WaitGroup
	csem := make(chan struct{}, cfg.Jobs)
	for lo := 0; lo < len(fc.obls); lo += chunk {
		hi := lo + chunk
		if hi > len(fc.obls) {
			hi = len(fc.obls)
		}
		cwg.Add(1)
		csem <- struct{}{}
		go func(lo, hi int) {
			defer cwg.Done()
			defer func() { <-csem }()
			incFile := filepath.Join(dir, fmt.Sprintf("all_%d.smt2", lo/chunk))
			os.WriteFile(incFile, []byte(fc.incrementalText(cfg.IncTimeoutMs, lo, hi)), 0o644)
			t0 := time.Now()
			budget := time.Duration((hi-lo)*cfg.IncTimeoutMs)*time.Millisecond + 20*time.Second
			out, _ := runSolver(context.Background(), solvers[0].bin, solvers[0].args, incFile, budget)
			el := time.Since(t0).Seconds()
			verdicts := resLineRe.FindAllStringSubmatch(out, -1)
			pmu.Lock()
			defer pmu.Unlock()
			if strings.Contains(out, "(error") && len(verdicts) < hi-lo {
				// a malformed query is a tool problem: surface it
				fc.err = fmt.Errorf("solver error in %s: %s", fc.name, firstLine(out[strings.Index(out, "(error"):]))
			}
			for i, o := range fc.obls[lo:hi] {
				v := "unknown"
				if i < len(verdicts) {
					v = verdicts[i][1]
				}
				o.TimeS = el / float64(hi-lo)
				switch {
				case v == "unsat" && !o.MustSat:
					o.Verdict, o.Solver = "discharged", solvers[0].name+"(incremental)"
				case v == "sat" && o.MustSat:
					o.Verdict, o.Solver = "discharged", solvers[0].name+"(incremental)"
				default:
					pending = append(pending, o)
				}
			}
		}(lo, hi)
	}
	cwg.Wait()
	// phase 2: portfolio on the rest
	var wg sync.WaitGroup
	sem := make(chan struct{}, cfg.Jobs)
	for _, o := range pending {
		wg.Add(1)
		sem <- struct{}{}
		go func(o *Obligation) {
			defer wg.Done()
			defer func() { <-sem }()
			portfolio(fc, o, dir, cfg, usesLambda)
		}(o)
	}
	wg.Wait()
	// phase 3: obligations the lock expects to be discharged and that timed out are retried one at a time (no
	// competition for cores among them) with a much longer timeout before they are reported undecided
	if cfg.Expect != nil && os.Getenv("GOVC_NORETRY") == "" {
		for _, o := range pending {
			if o.Verdict == "undecided" && cfg.Expect(o.Name()) {
				long := cfg
				long.QueryTimeout = 6 * cfg.QueryTimeout
				long.Sequential = true
				portfolio(fc, o, dir, long, usesLambda)
				if o.Verdict == "discharged" {
					o.Solver += "(retry)"
				}
			}
		}
	}
}

func firstLine(s string) string {
	if i := strings.Index(s, "\n"); i >= 0 {
		return s[:i]
	}
	return s
}

func portfolio(fc *FnCtx, o *Obligation, dir string, cfg SolverCfg, usesLambda bool) {
	file := filepath.Join(dir, sanitize(o.Kind+"_"+o.Label)+".smt2")
	if len(file) > 200 {
		file = filepath.Join(dir, fmt.Sprintf("o_%x.smt2", hashStr(o.Name())))
	}
	os.WriteFile(file, []byte(fc.queryText(o, true)), 0o644)
	type res struct {
		solver, verdict, out string
		t                    float64
		sliced               bool
	}
	ctx, cancel := context.WithCancel(context.Background())
	defer cancel()
	ch := make(chan res, 2*len(solvers))
	n := 0
	type job struct {
		name, bin string
		args      []string
		f         string
		sliced    bool
	}
	var seq []job
	launch := func(name, bin string, args []string, f string, sliced bool) {
		n++
		if cfg.Sequential {
			seq = append(seq, job{name, bin, args, f, sliced})
			return
		}
		go func() {
			t0 := time.Now()
			out, _ := runSolver(ctx, bin, args, f, cfg.QueryTimeout)
			ch <- res{name, firstVerdict(out), out, time.Since(t0).Seconds(), sliced}
		}()
	}
	for _, s := range solvers {
		if usesLambda && strings.HasPrefix(s.name, "cvc5") {
			continue
		}
		launch(s.name, s.bin, s.args, file, false)
	}
	// in parallel: the directed cone of influence of the goal (sound for unsat only; a sat answer there is ignored)
	if !o.MustSat && o.NAsserts > 40 && os.Getenv("GOVC_NOSLICE") == "" {
		fc.sliceMu.Lock()
		txt := fc.queryTextSliced(o, false, true)
		fc.sliceMu.Unlock()
		sfile := strings.TrimSuffix(file, ".smt2") + ".sliced.smt2"
		os.WriteFile(sfile, []byte(txt), 0o644)
		for _, sv := range solvers[:2] {
			launch(sv.name+"(sliced)", sv.bin, sv.args, sfile, true)
		}
	}
	if cfg.Sequential {
		// two processes at a time (more slow each other down badly on the target machine), full and sliced queries
		// interleaved; stop at the first definite answer
		var ordered []job
		var fulls, sls []job
		for _, j := range seq {
			if j.sliced {
				sls = append(sls, j)
			} else {
				fulls = append(fulls, j)
			}
		}
		for i := 0; i < len(fulls) || i < len(sls); i++ {
			if i < len(fulls) {
				ordered = append(ordered, fulls[i])
			}
			if k := len(sls) - 1 - i; k >= 0 && i < len(sls) {
				ordered = append(ordered, sls[k])
			}
		}
		sem2 := make(chan struct{}, 2)
		go func() {
			for _, j := range ordered {
				sem2 <- struct{}{}
				go func(j job) {
					defer func() { <-sem2 }()
					if ctx.Err() != nil {
						ch <- res{j.name, "cancelled", "", 0, j.sliced}
						return
					}
					t0 := time.Now()
					out, _ := runSolver(ctx, j.bin, j.args, j.f, cfg.QueryTimeout)
					ch <- res{j.name, firstVerdict(out), out, time.Since(t0).Seconds(), j.sliced}
				}(j)
			}
		}()
	}
	var outs []string
	o.Verdict = "undecided"
	for i := 0; i < n; i++ {
		r := <-ch
		outs = append(outs, fmt.Sprintf("[%s %.2fs] %s", r.solver, r.t, firstLine(r.out)))
		if r.sliced && r.verdict != "unsat" {
			continue
		}
		if r.verdict == "unsat" || r.verdict == "sat" {
			o.Solver, o.TimeS = r.solver, r.t
			proved := r.verdict == "unsat"
			if o.MustSat {
				proved = !proved
			}
			if proved {
				o.Verdict = "discharged"
			} else {
				o.Verdict = "refuted"
				o.Raw = r.out
				o.Model = parseValues(r.out)
			}
			cancel()
			break
		}
	}
	if o.Verdict == "undecided" {
		o.Raw = strings.Join(outs, "\n")
	}
	o.Raw = o.Raw + "\n; query: " + file
}

var valRe = regexp.MustCompile(`\(\s*((?:[^()\s]+)|\((?:[^()]|\([^()]*\))*\))\s+((?:[^()\s]+)|\((?:[^()]|\((?:[^()]|\([^()]*\))*\))*\))\s*\)`)

// parseValues parses the (get-value ...) answer into term -> value.
func parseValues(out string) map[string]string {
	m := map[string]string{}
	i := strings.Index(out, "((")
	if i < 0 {
		return m
	}
	body := out[i+1:]
	for _, mm := range valRe.FindAllStringSubmatch(body, -1) {
		m[mm[1]] = mm[2]
	}
	return m
}
