package main

import (
	"bytes"
	"context"
	"fmt"
	"os"
	"os/exec"
	"path/filepath"
	"regexp"
	"strings"
	"sync"
	"time"
)

type SolverCfg struct {
	QueryTimeout time.Duration // per obligation, portfolio phase
	IncTimeoutMs int           // per check in the incremental phase
	WorkDir      string
	CrossCheck   bool // re-prove discharged obligations on a second back end
	Jobs         int
}

func (fc *FnCtx) header() string {
	var b strings.Builder
	b.WriteString(prelude)
	for _, s := range fc.g.userSMT {
		b.WriteString(s)
		b.WriteString("\n")
	}
	b.WriteString(fc.q.litPrelude())
	for _, d := range fc.q.decls {
		b.WriteString(d)
		b.WriteString("\n")
	}
	for _, d := range fc.q.recDefs {
		b.WriteString(d)
		b.WriteString("\n")
	}
	return b.String()
}

// symbolsOf: declared symbols occurring in an s-expression.
func (fc *FnCtx) symbolsOf(t string) []string {
	var out []string
	start := -1
	for i := 0; i <= len(t); i++ {
		if i == len(t) || t[i] == '(' || t[i] == ')' || t[i] == ' ' || t[i] == '\n' {
			if start >= 0 {
				tok := t[start:i]
				if _, ok := fc.q.declared[tok]; ok {
					out = append(out, tok)
				} else if _, ok := fc.q.declared["fun:"+tok]; ok {
					out = append(out, tok)
				} else if strings.HasPrefix(tok, "sumf_") {
					out = append(out, tok)
				}
				start = -1
			}
			continue
		}
		if start < 0 {
			start = i
		}
	}
	return out
}

// sliceAsserts: cone of influence of the goal (assertions that can constrain a symbol the goal depends on).
// Dropping the others only weakens the hypotheses: an unsat answer on the slice is an unsat answer on the whole.
func (fc *FnCtx) sliceAsserts(o *Obligation) []int {
	if fc.assertSyms == nil {
		fc.assertSyms = make([][]string, len(fc.q.asserts))
		for i, a := range fc.q.asserts {
			fc.assertSyms[i] = fc.symbolsOf(a)
		}
		fc.recSyms = map[string][]string{}
		for _, d := range fc.q.recDefs {
			parts := strings.Fields(d)
			if len(parts) > 1 {
				fc.recSyms[parts[1]] = fc.symbolsOf(d)
			}
		}
	}
	for len(fc.assertSyms) < len(fc.q.asserts) {
		fc.assertSyms = append(fc.assertSyms, fc.symbolsOf(fc.q.asserts[len(fc.assertSyms)]))
	}
	rel := map[string]bool{}
	var work []string
	add := func(s string) {
		if !rel[s] {
			rel[s] = true
			work = append(work, s)
		}
	}
	for _, s := range fc.symbolsOf(o.Goal) {
		add(s)
	}
	// index: symbol -> assertions mentioning it
	if fc.symIndex == nil {
		fc.symIndex = map[string][]int{}
	}
	for i := fc.symIndexed; i < len(fc.q.asserts); i++ {
		for _, s := range fc.assertSyms[i] {
			fc.symIndex[s] = append(fc.symIndex[s], i)
		}
	}
	fc.symIndexed = len(fc.q.asserts)
	used := map[int]bool{}
	for len(work) > 0 {
		s := work[len(work)-1]
		work = work[:len(work)-1]
		for _, rs := range fc.recSyms[s] {
			add(rs)
		}
		for _, i := range fc.symIndex[s] {
			if i >= o.NAsserts || used[i] {
				continue
			}
			used[i] = true
			for _, t := range fc.assertSyms[i] {
				add(t)
			}
		}
	}
	var idx []int
	for i := 0; i < o.NAsserts; i++ {
		if used[i] {
			idx = append(idx, i)
		}
	}
	return idx
}

// standalone query text for one obligation
func (fc *FnCtx) queryText(o *Obligation, withModel bool) string {
	return fc.queryTextSliced(o, withModel, false)
}

func (fc *FnCtx) queryTextSliced(o *Obligation, withModel bool, sliced bool) string {
	var b strings.Builder
	b.WriteString("; obligation " + o.Name() + "\n")
	b.WriteString(fc.header())
	if sliced {
		for _, i := range fc.sliceAsserts(o) {
			b.WriteString("(assert " + fc.q.asserts[i] + ")\n")
		}
	} else {
		for _, a := range fc.q.asserts[:o.NAsserts] {
			b.WriteString("(assert " + a + ")\n")
		}
	}
	b.WriteString("(assert (not " + o.Goal + "))\n")
	b.WriteString("(check-sat)\n")
	if withModel {
		var terms []string
		seen := map[string]bool{}
		for _, in := range o.Inputs {
			if in.Term != "" && !seen[in.Term] {
				seen[in.Term] = true
				terms = append(terms, in.Term)
			}
		}
		if len(terms) > 0 {
			b.WriteString("(get-value (" + strings.Join(terms, " ") + "))\n")
		}
	}
	return b.String()
}

// incremental text: all obligations of the function in one session
func (fc *FnCtx) incrementalText(timeoutMs int) string {
	var b strings.Builder
	fmt.Fprintf(&b, "(set-option :timeout %d)\n", timeoutMs)
	b.WriteString(fc.header())
	n := 0
	for _, o := range fc.obls {
		for ; n < o.NAsserts; n++ {
			b.WriteString("(assert " + fc.q.asserts[n] + ")\n")
		}
		fmt.Fprintf(&b, "(push 1)\n(assert (not %s))\n(check-sat)\n(pop 1)\n", o.Goal)
	}
	return b.String()
}

var solvers = []struct{ name, bin string; args []string }{
	{"z3-4.8.12", "/usr/bin/z3", []string{"-smt2"}},
	{"z3-5.1.0", "z3-new", []string{"-smt2"}},
	{"cvc5-1.0", "cvc5", []string{"--lang=smt2", "--produce-models"}},
}

func runSolver(ctx context.Context, bin string, args []string, file string, timeout time.Duration) (string, error) {
	cctx, cancel := context.WithTimeout(ctx, timeout)
	defer cancel()
	cmd := exec.CommandContext(cctx, bin, append(args, file)...)
	var out bytes.Buffer
	cmd.Stdout = &out
	cmd.Stderr = &out
	cmd.WaitDelay = 2 * time.Second
	err := cmd.Run()
	if cctx.Err() == context.DeadlineExceeded {
		return out.String(), fmt.Errorf("timeout")
	}
	return out.String(), err
}

var resLineRe = regexp.MustCompile(`(?m)^(sat|unsat|unknown|timeout)\s*$`)

func firstVerdict(out string) string {
	m := resLineRe.FindStringSubmatch(out)
	if m == nil {
		return "error"
	}
	return m[1]
}

// solveFunction decides all obligations of fc.
func solveFunction(fc *FnCtx, cfg SolverCfg) {
	if len(fc.obls) == 0 {
		return
	}
	dir := filepath.Join(cfg.WorkDir, sanitize(fc.name))
	os.MkdirAll(dir, 0o755)
	usesLambda := fc.q.hasLambda
	for _, a := range fc.q.asserts {
		if strings.Contains(a, "(lambda ") {
			usesLambda = true
			break
		}
	}
	// phase 1: incremental z3
	incFile := filepath.Join(dir, "all.smt2")
	os.WriteFile(incFile, []byte(fc.incrementalText(cfg.IncTimeoutMs)), 0o644)
	t0 := time.Now()
	budget := time.Duration(len(fc.obls)*cfg.IncTimeoutMs)*time.Millisecond + 20*time.Second
	out, _ := runSolver(context.Background(), solvers[0].bin, solvers[0].args, incFile, budget)
	el := time.Since(t0).Seconds()
	verdicts := resLineRe.FindAllStringSubmatch(out, -1)
	if strings.Contains(out, "(error") && len(verdicts) < len(fc.obls) {
		// a malformed query is a tool problem: surface it
		fc.err = fmt.Errorf("solver error in %s: %s", fc.name, firstLine(out[strings.Index(out, "(error"):]))
	}
	var pending []*Obligation
	for i, o := range fc.obls {
		v := "unknown"
		if i < len(verdicts) {
			v = verdicts[i][1]
		}
		o.TimeS = el / float64(len(fc.obls))
		switch {
		case v == "unsat" && !o.MustSat:
			o.Verdict, o.Solver = "discharged", solvers[0].name+"(incremental)"
		case v == "sat" && o.MustSat:
			o.Verdict, o.Solver = "discharged", solvers[0].name+"(incremental)"
		default:
			pending = append(pending, o)
		}
	}
	// phase 2: portfolio on the rest
	var wg sync.WaitGroup
	sem := make(chan struct{}, cfg.Jobs)
	for _, o := range pending {
		wg.Add(1)
		sem <- struct{}{}
		go func(o *Obligation) {
			defer wg.Done()
			defer func() { <-sem }()
			portfolio(fc, o, dir, cfg, usesLambda)
		}(o)
	}
	wg.Wait()
}

func firstLine(s string) string {
	if i := strings.Index(s, "\n"); i >= 0 {
		return s[:i]
	}
	return s
}

func portfolio(fc *FnCtx, o *Obligation, dir string, cfg SolverCfg, usesLambda bool) {
	file := filepath.Join(dir, sanitize(o.Kind+"_"+o.Label)+".smt2")
	if len(file) > 200 {
		file = filepath.Join(dir, fmt.Sprintf("o_%x.smt2", hashStr(o.Name())))
	}
	// first attempt: the cone of influence of the goal only (sound for unsat; a sat answer is re-checked on the full query)
	if false && !o.MustSat && o.NAsserts > 400 {
		fc.sliceMu.Lock()
		txt := fc.queryTextSliced(o, false, true)
		fc.sliceMu.Unlock()
		sfile := strings.TrimSuffix(file, ".smt2") + ".sliced.smt2"
		os.WriteFile(sfile, []byte(txt), 0o644)
		type sres struct {
			solver, verdict string
			t               float64
		}
		sctx, scancel := context.WithCancel(context.Background())
		sch := make(chan sres, 2)
		for _, sv := range solvers[:2] {
			go func(name, bin string, args []string) {
				t0 := time.Now()
				out, _ := runSolver(sctx, bin, args, sfile, cfg.QueryTimeout)
				sch <- sres{name, firstVerdict(out), time.Since(t0).Seconds()}
			}(sv.name, sv.bin, sv.args)
		}
		done := false
		for i := 0; i < 2; i++ {
			r := <-sch
			if r.verdict == "unsat" {
				o.Verdict, o.Solver, o.TimeS = "discharged", r.solver+"(sliced)", r.t
				done = true
				break
			}
		}
		scancel()
		if done {
			return
		}
	}
	os.WriteFile(file, []byte(fc.queryText(o, true)), 0o644)
	type res struct {
		solver, verdict, out string
		t              float64
	}
	ctx, cancel := context.WithCancel(context.Background())
	defer cancel()
	ch := make(chan res, len(solvers))
	n := 0
	for _, s := range solvers {
		if usesLambda && strings.HasPrefix(s.name, "cvc5") {
			continue
		}
		n++
		go func(name, bin string, args []string) {
			t0 := time.Now()
			out, _ := runSolver(ctx, bin, args, file, cfg.QueryTimeout)
			ch <- res{name, firstVerdict(out), out, time.Since(t0).Seconds()}
		}(s.name, s.bin, s.args)
	}
	var outs []string
	o.Verdict = "undecided"
	for i := 0; i < n; i++ {
		r := <-ch
		outs = append(outs, fmt.Sprintf("[%s %.2fs] %s", r.solver, r.t, firstLine(r.out)))
		if r.verdict == "unsat" || r.verdict == "sat" {
			o.Solver, o.TimeS = r.solver, r.t
			proved := r.verdict == "unsat"
			if o.MustSat {
				proved = !proved
			}
			if proved {
				o.Verdict = "discharged"
			} else {
				o.Verdict = "refuted"
				o.Raw = r.out
				o.Model = parseValues(r.out)
			}
			cancel()
			break
		}
	}
	if o.Verdict == "undecided" {
		o.Raw = strings.Join(outs, "\n")
	}
	o.Raw = o.Raw + "\n; query: " + file
}

var valRe = regexp.MustCompile(`\(\s*((?:[^()\s]+)|\((?:[^()]|\([^()]*\))*\))\s+((?:[^()\s]+)|\((?:[^()]|\((?:[^()]|\([^()]*\))*\))*\))\s*\)`)

// parseValues parses the (get-value ...) answer into term -> value.
func parseValues(out string) map[string]string {
	m := map[string]string{}
	i := strings.Index(out, "((")
	if i < 0 {
		return m
	}
	body := out[i+1:]
	for _, mm := range valRe.FindAllStringSubmatch(body, -1) {
		m[mm[1]] = mm[2]
	}
	return m
}
