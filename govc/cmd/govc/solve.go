package main

import (
	"bytes"
	"context"
	"fmt"
	"os"
	"os/exec"
	"path/filepath"
	"regexp"
	"strings"
	"sync"
	"time"
)

type SolverCfg struct {
	QueryTimeout time.Duration // per obligation, portfolio phase
	IncTimeoutMs int           // per check in the incremental phase
	WorkDir      string
	CrossCheck   bool // re-prove discharged obligations on a second back end
	Jobs         int
}

func (fc *FnCtx) header() string {
	var b strings.Builder
	b.WriteString(prelude)
	for _, s := range fc.g.userSMT {
		b.WriteString(s)
		b.WriteString("\n")
	}
	b.WriteString(fc.q.litPrelude())
	for _, d := range fc.q.decls {
		b.WriteString(d)
		b.WriteString("\n")
	}
	for _, d := range fc.q.recDefs {
		b.WriteString(d)
		b.WriteString("\n")
	}
	return b.String()
}

// standalone query text for one obligation
func (fc *FnCtx) queryText(o *Obligation, withModel bool) string {
	var b strings.Builder
	b.WriteString("; obligation " + o.Name() + "\n")
	b.WriteString(fc.header())
	for _, a := range fc.q.asserts[:o.NAsserts] {
		b.WriteString("(assert " + a + ")\n")
	}
	b.WriteString("(assert (not " + o.Goal + "))\n")
	b.WriteString("(check-sat)\n")
	if withModel {
		var terms []string
		seen := map[string]bool{}
		for _, in := range o.Inputs {
			if in.Term != "" && !seen[in.Term] {
				seen[in.Term] = true
				terms = append(terms, in.Term)
			}
		}
		if len(terms) > 0 {
			b.WriteString("(get-value (" + strings.Join(terms, " ") + "))\n")
		}
	}
	return b.String()
}

// incremental text: all obligations of the function in one session
func (fc *FnCtx) incrementalText(timeoutMs int) string {
	var b strings.Builder
	fmt.Fprintf(&b, "(set-option :timeout %d)\n", timeoutMs)
	b.WriteString(fc.header())
	n := 0
	for _, o := range fc.obls {
		for ; n < o.NAsserts; n++ {
			b.WriteString("(assert " + fc.q.asserts[n] + ")\n")
		}
		fmt.Fprintf(&b, "(push 1)\n(assert (not %s))\n(check-sat)\n(pop 1)\n", o.Goal)
	}
	return b.String()
}

var solvers = []struct{ name, bin string; args []string }{
	{"z3-4.8.12", "/usr/bin/z3", []string{"-smt2"}},
	{"z3-5.1.0", "z3-new", []string{"-smt2"}},
	{"cvc5-1.0", "cvc5", []string{"--lang=smt2", "--produce-models"}},
}

func runSolver(ctx context.Context, bin string, args []string, file string, timeout time.Duration) (string, error) {
	cctx, cancel := context.WithTimeout(ctx, timeout)
	defer cancel()
	cmd := exec.CommandContext(cctx, bin, append(args, file)...)
	var out bytes.Buffer
	cmd.Stdout = &out
	cmd.Stderr = &out
	err := cmd.Run()
	if cctx.Err() == context.DeadlineExceeded {
		return out.String(), fmt.Errorf("timeout")
	}
	return out.String(), err
}

var resLineRe = regexp.MustCompile(`(?m)^(sat|unsat|unknown|timeout)\s*$`)

func firstVerdict(out string) string {
	m := resLineRe.FindStringSubmatch(out)
	if m == nil {
		return "error"
	}
	return m[1]
}

// solveFunction decides all obligations of fc.
func solveFunction(fc *FnCtx, cfg SolverCfg) {
	if len(fc.obls) == 0 {
		return
	}
	dir := filepath.Join(cfg.WorkDir, sanitize(fc.name))
	os.MkdirAll(dir, 0o755)
	usesLambda := false
	for _, a := range fc.q.asserts {
		if strings.Contains(a, "(lambda ") {
			usesLambda = true
			break
		}
	}
	// phase 1: incremental z3
	incFile := filepath.Join(dir, "all.smt2")
	os.WriteFile(incFile, []byte(fc.incrementalText(cfg.IncTimeoutMs)), 0o644)
	t0 := time.Now()
	budget := time.Duration(len(fc.obls)*cfg.IncTimeoutMs)*time.Millisecond + 20*time.Second
	out, _ := runSolver(context.Background(), solvers[0].bin, solvers[0].args, incFile, budget)
	el := time.Since(t0).Seconds()
	verdicts := resLineRe.FindAllStringSubmatch(out, -1)
	if strings.Contains(out, "(error") && len(verdicts) < len(fc.obls) {
		// a malformed query is a tool problem: surface it
		fc.err = fmt.Errorf("solver error in %s: %s", fc.name, firstLine(out[strings.Index(out, "(error"):]))
	}
	var pending []*Obligation
	for i, o := range fc.obls {
		v := "unknown"
		if i < len(verdicts) {
			v = verdicts[i][1]
		}
		o.TimeS = el / float64(len(fc.obls))
		switch {
		case v == "unsat" && !o.MustSat:
			o.Verdict, o.Solver = "discharged", solvers[0].name+"(incremental)"
		case v == "sat" && o.MustSat:
			o.Verdict, o.Solver = "discharged", solvers[0].name+"(incremental)"
		default:
			pending = append(pending, o)
		}
	}
	// phase 2: portfolio on the rest
	var wg sync.WaitGroup
	sem := make(chan struct{}, cfg.Jobs)
	for _, o := range pending {
		wg.Add(1)
		sem <- struct{}{}
		go func(o *Obligation) {
			defer wg.Done()
			defer func() { <-sem }()
			portfolio(fc, o, dir, cfg, usesLambda)
		}(o)
	}
	wg.Wait()
}

func firstLine(s string) string {
	if i := strings.Index(s, "\n"); i >= 0 {
		return s[:i]
	}
	return s
}

func portfolio(fc *FnCtx, o *Obligation, dir string, cfg SolverCfg, usesLambda bool) {
	file := filepath.Join(dir, sanitize(o.Kind+"_"+o.Label)+".smt2")
	if len(file) > 200 {
		file = filepath.Join(dir, fmt.Sprintf("o_%x.smt2", hashStr(o.Name())))
	}
	os.WriteFile(file, []byte(fc.queryText(o, true)), 0o644)
	type res struct {
		solver, verdict, out string
		t              float64
	}
	ctx, cancel := context.WithCancel(context.Background())
	defer cancel()
	ch := make(chan res, len(solvers))
	n := 0
	for _, s := range solvers {
		if usesLambda && strings.HasPrefix(s.name, "cvc5") {
			continue
		}
		n++
		go func(name, bin string, args []string) {
			t0 := time.Now()
			out, _ := runSolver(ctx, bin, args, file, cfg.QueryTimeout)
			ch <- res{name, firstVerdict(out), out, time.Since(t0).Seconds()}
		}(s.name, s.bin, s.args)
	}
	var outs []string
	o.Verdict = "undecided"
	for i := 0; i < n; i++ {
		r := <-ch
		outs = append(outs, fmt.Sprintf("[%s %.2fs] %s", r.solver, r.t, firstLine(r.out)))
		if r.verdict == "unsat" || r.verdict == "sat" {
			o.Solver, o.TimeS = r.solver, r.t
			proved := r.verdict == "unsat"
			if o.MustSat {
				proved = !proved
			}
			if proved {
				o.Verdict = "discharged"
			} else {
				o.Verdict = "refuted"
				o.Raw = r.out
				o.Model = parseValues(r.out)
			}
			cancel()
			break
		}
	}
	if o.Verdict == "undecided" {
		o.Raw = strings.Join(outs, "\n")
	}
	o.Raw = o.Raw + "\n; query: " + file
}

var valRe = regexp.MustCompile(`\(\s*((?:[^()\s]+)|\((?:[^()]|\([^()]*\))*\))\s+((?:[^()\s]+)|\((?:[^()]|\((?:[^()]|\([^()]*\))*\))*\))\s*\)`)

// parseValues parses the (get-value ...) answer into term -> value.
func parseValues(out string) map[string]string {
	m := map[string]string{}
	i := strings.Index(out, "((")
	if i < 0 {
		return m
	}
	body := out[i+1:]
	for _, mm := range valRe.FindAllStringSubmatch(body, -1) {
		m[mm[1]] = mm[2]
	}
	return m
}
